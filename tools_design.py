#!/usr/bin/env python3
"""Regenerates the data-driven blocks of DESIGN.md (between <!-- BEGIN x --> and <!-- END x -->) from
known_findings.json, seeded/*/meta.json and evidence/*.json.  Not part of any registered check."""
import glob
import json
import os
import re

V = os.path.dirname(os.path.abspath(__file__))


def block_findings():
    d = json.load(open(V + "/known_findings.json"))["findings"]
    out = ["| id | property | commit | what failed on the unchanged tree |", "|---|---|---|---|"]
    for f in d:
        if f["status"] == "fixed":
            txt = f["fixed"].split(" ", 3)[3] if f["fixed"].count(" ") >= 3 else f["fixed"]
            out.append("| %s | %s | `%s` | %s |" % (f["id"], f["property"], f["commit"], txt.replace("|", "\\|")))
    out.append("")
    out.append("| id | property | region | what fails (recorded, not repaired) |")
    out.append("|---|---|---|---|")
    for f in d:
        if f["status"] == "open":
            out.append("| %s | %s | `%s` | %s |" % (f["id"], f["property"], f.get("region", "-"), f.get("what", "").replace("|", "\\|")))
    return "\n".join(out)


def block_seeded():
    out = ["| change | breaks | needs, to manifest | caught by | how the check reports it | strengthened? |", "|---|---|---|---|---|---|"]
    for p in sorted(glob.glob(V + "/seeded/*/meta.json")):
        m = json.load(open(p))
        name = os.path.basename(os.path.dirname(p))
        first = None
        for pid, r in m["checks_run"].items():
            if r["rc"] == 1:
                first = r.get("first") or {}
                break
        how = "-"
        if first:
            if first.get("found_failing_input") is False:
                how = "broken tie, no-failing-input-found"
            else:
                how = "concrete input, stream `%s`" % (first.get("stream") or first.get("key", "").split("|")[0])
        out.append("| %s | %s | %s | %s | %s | %s |" % (
            name, m["breaks"], m["needs"].replace("|", "\\|"), ", ".join(m["caught_by"]) or "**missed**", how,
            (("yes: " + m["strengthened"].replace("|", "\\|")) if m.get("strengthened") else "no")
            + (" — SUPERSEDED: " + m["superseded"].replace("|", "\\|") if m.get("superseded") else "")
            + (" — patch re-made on the repaired tree" if m.get("rebased") else "")))
    return "\n".join(out)


def block_theorems():
    out = ["| property | level | obligations | theorem modules (theorems checked) |", "|---|---|---|---|"]
    for p in sorted(glob.glob(V + "/evidence/C*.json")):
        d = json.load(open(p))
        c = d["coverage"]
        mods = {}
        for t in c.get("theorems", []):
            mods.setdefault(t["module"].replace("Univers.", ""), []).append(t["name"].split(".")[-1])
        desc = "; ".join("`%s` (%d)" % (m, len(v)) for m, v in mods.items())
        out.append("| %s | %s | %s/%s | %s |" % (d["property_id"], d["level"], c.get("discharged"), c.get("obligations"), desc))
    return "\n".join(out)


BLOCKS = {"findings": block_findings, "seeded": block_seeded, "theorems": block_theorems}


def main():
    p = V + "/DESIGN.md"
    s = open(p).read()
    for name, f in BLOCKS.items():
        pat = re.compile(r"(<!-- BEGIN %s -->\n).*?(<!-- END %s -->)" % (name, name), re.S)
        if pat.search(s):
            s = pat.sub(lambda m: m.group(1) + f() + "\n" + m.group(2), s)
    open(p, "w").write(s)


if __name__ == "__main__":
    main()
