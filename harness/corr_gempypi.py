"""
Layer-C correspondence for the RubyGems and PyPI native range converters: the real code

    GemVersionRange.from_native(text)                       native gem <hex>
    PypiVersionRange.from_native(text)                      native pypi <hex>
    GemRequirement.from_string(req).satisfied_by(version)   gemsat <hex req> <hex version>
    get_tilde_constraints(GemConstraint("~>", GemVersion(v)))   gemtilde <hex version>

against the Lean models `Univers/Text/GemReq.lean`, `Univers/Text/PypiNative.lean` through the
driver (`Univers/Driver/GemPypi.lean`).  Answers: `ok:<items>` | `err:<ExcClassName>` for the
converters (items compared as multisets: the range constructor sorts), `true|false|err:<Name>`
for `gemsat`.

If the driver was built without the Layer-A pypi model (`gempypi-info` answers
`pypi-mkver:stub`: `mkVer` accepts every non-empty text unchanged), the parameter `mkVer` is
instantiated on the Python side instead: every version text of the model's answer goes through
the real `str(PypiVersion(text))` (an exception there means `err:InvalidVersionRange`, what the
bare `except:` of the converter turns it into).

Usage:  /venv/bin/python -m harness.corr_gempypi [--n N] [--seed S] [--umodel PATH]
Exit status 0 = no disagreement.
"""
import argparse
import subprocess
import sys
import traceback

from harness import common, schemes as S
from harness.common import hx, unhx

from univers import gem as G
from univers import versions as V
from univers import version_range as R

TAG = {">=": "ge", "<=": "le", "!=": "ne", "<": "lt", ">": "gt", "=": "eq"}
INTERNAL = ("TypeError", "IndexError", "KeyError", "AttributeError", "UnboundLocalError",
            "AssertionError", "RecursionError")
# subclasses of internal-error classes count as internal errors too (InvalidRequirementError
# derives from AttributeError)
INTERNAL_BASES = (TypeError, IndexError, KeyError, AttributeError, UnboundLocalError,
                  AssertionError, RecursionError)


# ----------------------------------------------------------------------------- the real side

def in_sort(tb):
    for fr in traceback.extract_tb(tb):
        if fr.name == "__attrs_post_init__" and fr.filename.endswith("version_range.py"):
            return True
    return False


def canon(rng_obj):
    items = []
    for c in rng_obj.constraints:
        if c.comparator == "*":
            items.append("star")
        else:
            items.append("%s:%s" % (TAG[c.comparator], hx(str(c.version))))
    return "ok:" + (",".join(sorted(items)) if items else "-")


INTERNAL_SEEN = {}


def note_exc(kind, e, case):
    if isinstance(e, INTERNAL_BASES):
        INTERNAL_SEEN.setdefault((kind, type(e).__name__, type(e).__mro__[1].__name__), case)


def real(case):
    kind = case[0]
    try:
        if kind == "gem":
            return canon(R.GemVersionRange.from_native(case[1]))
        if kind == "pypi":
            return canon(R.PypiVersionRange.from_native(case[1]))
        if kind == "gemsat":
            return "true" if G.GemRequirement.from_string(case[1]).satisfied_by(case[2]) else "false"
        if kind == "gemtilde":
            lo, hi = G.get_tilde_constraints(G.GemConstraint("~>", G.GemVersion(case[1])))
            return "ok:" + ",".join(sorted("%s:%s" % (TAG[c.op], hx(str(c.version))) for c in (lo, hi)))
        raise common.Tooling("unknown kind %r" % kind)
    except common.Tooling:
        raise
    except RecursionError as e:
        note_exc(kind, e, case)
        return "err:RecursionError"
    except Exception as e:  # noqa: BLE001
        if kind in ("gem", "pypi") and in_sort(e.__traceback__):
            return "sort-err:" + type(e).__name__
        note_exc(kind, e, case)
        return "err:" + type(e).__name__


def line_of(case):
    kind = case[0]
    if kind in ("gem", "pypi"):
        return "native %s %s" % (kind, hx(case[1]))
    if kind == "gemsat":
        return "gemsat %s %s" % (hx(case[1]), hx(case[2]))
    return "gemtilde %s" % hx(case[1])


def canon_model(ans, case, stub):
    if ans.startswith("ok:") and ans != "ok:-":
        items = ans[3:].split(",")
        if stub and case[0] == "pypi":
            out = []
            for it in items:
                c, h = it.split(":")
                try:
                    out.append("%s:%s" % (c, hx(str(V.PypiVersion(unhx(h))))))
                except Exception:  # noqa: BLE001
                    return "err:InvalidVersionRange"
            items = out
        return "ok:" + ",".join(sorted(items))
    return ans


# ----------------------------------------------------------------------------- generators

WS = ["", "", "", " ", " ", "  ", "\t", "\n", " \t", "\x0c", "\x1c", "\r"]
GEM_OPS = ["=", "!=", ">", "<", ">=", "<=", "~>"]
PYPI_OPS = ["==", "!=", "<=", ">=", "<", ">", "~=", "==="]
PWS = ["", "", "", "", " ", " ", " ", "  ", "\x0c", "\r", "\x1c", "\x0b", "\t"]


def pick(rng, xs):
    return xs[rng.randrange(len(xs))]


def gem_release(rng):
    return ".".join(str(pick(rng, [0, 0, 1, 1, 2, 3, 5, 9, 10, 12, 99]))
                    for _ in range(rng.randint(1, 4)))


def gem_version(rng):
    r = rng.random()
    if r < 0.45:
        return gem_release(rng)
    if r < 0.6:
        return gem_release(rng) + pick(rng, [".a", ".b1", ".rc.2", ".pre", "-a", ".0.a", ".a.0", "a", ".beta.0.0"])
    if r < 0.65:
        return pick(rng, ["0", "0.0", "00", "0.a", "0.0.0.a"])
    return S.gen_gem(rng)


def mutate(rng, s, alphabet):
    if not s:
        return pick(rng, alphabet)
    r = rng.random()
    i = rng.randrange(len(s))
    if r < 0.3:
        return s[:i] + s[i + 1:]
    if r < 0.55:
        return s[:i] + s[i] + s[i:]
    if r < 0.8:
        return s[:i] + pick(rng, alphabet) + s[i:]
    j = rng.randrange(len(s))
    i, j = min(i, j), max(i, j)
    return s[:i] + s[j:j + 1] + s[i + 1:j] + s[i:i + 1] + s[j + 1:]


GEM_ALPHA = list("=!<>~,() \t\n.-0a1Z_+*;") + [">=", "~>", ",,", "()", "\x1c", "\x0b"]


def gem_clause(rng):
    r = rng.random()
    op = "" if r < 0.15 else pick(rng, GEM_OPS)
    return pick(rng, WS) + op + pick(rng, WS) + gem_version(rng) + pick(rng, WS)


def gem_requirement(rng):
    r = rng.random()
    if r < 0.03:
        return pick(rng, ["", " ", "()", "( )", ",", "\t\n", "(", "0", ">= 0", ">=0", ">= 0.0", "~> 0", "~>0.a"])
    n = pick(rng, [1, 1, 1, 2, 2, 2, 3, 4])
    # a requirement around a shared base so that equal versions / duplicates occur
    if rng.random() < 0.3:
        base = gem_version(rng)
        cl = []
        for _ in range(n):
            v = base if rng.random() < 0.5 else S.respell_gem(base, rng)
            cl.append(pick(rng, WS) + pick(rng, GEM_OPS + [""]) + pick(rng, WS) + v + pick(rng, WS))
    else:
        cl = [gem_clause(rng) for _ in range(n)]
    s = pick(rng, [",", ",", ", ", " , "]).join(cl)
    r = rng.random()
    if r < 0.2:
        s = pick(rng, WS) + "(" + s + ")" + pick(rng, WS)
    elif r < 0.25:
        s = pick(rng, ["(", "((", ")(", "( "]) + s + pick(rng, [")", "))", "", " )"])
    if rng.random() < 0.2:
        s = mutate(rng, s, GEM_ALPHA)
        if rng.random() < 0.3:
            s = mutate(rng, s, GEM_ALPHA)
    return s


PYPI_ALPHA = list("=!<>~,.*+-_ v0a1Z;|()'\"\\/{}`?\t\n") + ["==", "===", "~=", ".*", ",,", "\x1c", "\x0b", "\x0c", "\r", "dev", "post", "rc"]


def pypi_version(rng):
    r = rng.random()
    if r < 0.4:
        return ".".join(str(pick(rng, [0, 1, 2, 3, 10, 2024])) for _ in range(rng.randint(1, 4)))
    if r < 0.5:
        return pick(rng, ["v", "V", ""]) + S.gen_pypi(rng)
    return S.gen_pypi(rng)


def pypi_clause(rng):
    op = pick(rng, PYPI_OPS[:6]) if rng.random() < 0.9 else pick(rng, PYPI_OPS)
    v = pypi_version(rng)
    if "+" in v and op not in ("==", "!=") and rng.random() < 0.8:
        v = v.split("+")[0]
    r = rng.random()
    if r < 0.05:
        v += ".*"
    elif r < 0.07:
        v = pick(rng, ["*", "1.*.2", "", "foo", "1.0.*.*", "1.0a.*", "1.0+x.*"])
    return pick(rng, PWS) + op + pick(rng, PWS) + v + pick(rng, PWS)


def pypi_spec(rng):
    r = rng.random()
    if r < 0.03:
        return pick(rng, ["", " ", ",", ",,", " , ", "===", "== =1", "~=1", "~=1.0", "1.0", "=1.0", "\r", "\x0c>=1"])
    n = pick(rng, [1, 1, 2, 2, 2, 3, 4])
    s = pick(rng, [",", ",", ", ", " , ", ",,"]).join(pypi_clause(rng) for _ in range(n))
    if rng.random() < 0.05:
        s += pick(rng, [";python_version<'3'", " ; x", ","])
    if rng.random() < 0.2:
        s = mutate(rng, s, PYPI_ALPHA)
        if rng.random() < 0.3:
            s = mutate(rng, s, PYPI_ALPHA)
    return s


def gem_probe(rng, req):
    """a version to test against `req`: near one of its versions"""
    import re
    vs = re.findall(r"[0-9][0-9A-Za-z.-]*", req)
    r = rng.random()
    if vs and r < 0.7:
        v = pick(rng, vs)
        q = rng.random()
        if q < 0.25:
            return v
        if q < 0.4:
            return S.respell_gem(v, rng)
        if q < 0.55:
            return v + pick(rng, [".a", ".1", ".0", ".0.1", "-x", ".rc1"])
        if q < 0.85:
            # bump some numeric segment, maybe add a prerelease tail
            parts = v.split(".")
            i = rng.randrange(len(parts))
            if parts[i].isdigit():
                parts[i] = str(max(0, int(parts[i]) + pick(rng, [-1, 1, 1])))
                parts = parts[:i + 1] if rng.random() < 0.5 else parts
            return ".".join(parts) + pick(rng, ["", "", ".a", ".0", ".pre.1"])
        return ".".join(v.split(".")[:-1]) or v
    if r < 0.95:
        return gem_version(rng)
    return pick(rng, ["", " ", "a", "1..2", "1.0 ", " 1.0", "1.a-", "-1"])


def make_cases(n, seed):
    rng = common.rng_for(seed, "corr_gempypi")
    cases = []
    for i in range(n):
        k = i % 10
        if k < 4:
            cases.append(("gem", gem_requirement(rng)))
        elif k < 7:
            cases.append(("pypi", pypi_spec(rng)))
        elif k < 9:
            req = gem_requirement(rng)
            cases.append(("gemsat", req, gem_probe(rng, req)))
        else:
            v = gem_version(rng)
            if rng.random() < 0.1:
                v = mutate(rng, v, GEM_ALPHA)
            cases.append(("gemtilde", v))
    return cases


# ----------------------------------------------------------------------------- run

def model_lines(lines, umodel):
    exe = str(umodel or common.UMODEL)
    p = subprocess.run([exe], input="\n".join(lines) + "\n", stdout=subprocess.PIPE,
                       stderr=subprocess.PIPE, text=True, timeout=3600)
    if p.returncode != 0:
        raise common.Tooling("model driver failed rc=%s: %s" % (p.returncode, p.stderr[-2000:]))
    out = p.stdout.split("\n")
    if out and out[-1] == "":
        out.pop()
    if len(out) != len(lines):
        raise common.Tooling("model driver answered %d lines for %d" % (len(out), len(lines)))
    return out


def run(n=2000, seed=0, umodel=None, verbose=True):
    info = model_lines(["gempypi-info"], umodel)[0]
    if info == "bad-op":
        raise common.Tooling("driver has no `gemPypiCmd` handler")
    stub = info == "pypi-mkver:stub"
    INTERNAL_SEEN.clear()
    cases = make_cases(n, seed)
    lines = [line_of(c) for c in cases]
    exp = [real(c) for c in cases]
    got = [canon_model(a, c, stub) for a, c in zip(model_lines(lines, umodel), cases)]
    stats = {"total": len(cases), "mkver": info, "sort_err": 0}
    per_kind = {}
    dis = []
    sort_witness = []
    for c, l, e, g in zip(cases, lines, exp, got):
        k = c[0]
        pk = per_kind.setdefault(k, {})
        if e.startswith("sort-err:"):
            stats["sort_err"] += 1
            if len(sort_witness) < 5:
                sort_witness.append((c, e))
            continue
        key = e if (e.startswith("err:") or e in ("true", "false")) else "ok"
        pk[key] = pk.get(key, 0) + 1
        if e != g:
            dis.append({"case": c, "line": l, "impl": e, "model": g})
    stats["per_kind"] = per_kind
    stats["disagreements"] = len(dis)
    stats["internal_error_witnesses"] = {"%s:%s(%s)" % k: repr(v) for k, v in INTERNAL_SEEN.items()}
    stats["sort_err_witnesses"] = [repr(w) for w in sort_witness]
    if verbose:
        for d in dis[:15]:
            print("DISAGREE %r\n   impl  %s\n   model %s" % (d["case"], d["impl"], d["model"]))
        print("corr_gempypi: %d cases, %d disagreements; %s" % (len(cases), len(dis), info))
        for k, v in sorted(per_kind.items()):
            print("  %-8s %s" % (k, ", ".join("%s=%d" % kv for kv in sorted(v.items()))))
        for k, v in stats["internal_error_witnesses"].items():
            print("  internal error %s witness %s" % (k, v))
        for w in stats["sort_err_witnesses"]:
            print("  sort raised (outside the model): %s" % w)
    return (1 if dis else 0), stats, dis


def main(argv=None):
    ap = argparse.ArgumentParser()
    ap.add_argument("--n", type=int, default=2000)
    ap.add_argument("--seed", type=int, default=0)
    ap.add_argument("--umodel", default=None)
    a = ap.parse_args(argv)
    rc, _, _ = run(a.n, a.seed, a.umodel)
    return rc


if __name__ == "__main__":
    sys.exit(main())
