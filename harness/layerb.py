"""
Layer-B correspondence: the constraint algebra (contains / validate / simplify / invert /
normalize / from_versions) of the real code, on real versions of every scheme, against the
Lean model and spec on integer ranks.  The mapping rank -> version comes from a ranked pool
built with the scheme's real operators (harness/pools.py), so these streams are indifferent to
which lawful order a scheme implements.
"""
import itertools

from harness import common, pools, schemes as S

from univers.version_constraint import VersionConstraint
from univers import version_constraint as VC
from univers import version_range as VR

CMPRS = ["ge", "le", "ne", "lt", "gt", "eq"]
TXT = {"ge": ">=", "le": "<=", "ne": "!=", "lt": "<", "gt": ">", "eq": "=", "star": "*"}
NAME = {v: k for k, v in TXT.items()}


def exc_name(e):
    n = type(e).__name__
    if isinstance(e, VC.InvalidConstraintsError):
        return "InvalidConstraintsError"
    if isinstance(e, ValueError):
        return "ValueError"
    if isinstance(e, TypeError):
        return "TypeError"
    if isinstance(e, KeyError):
        return "KeyError"
    return n


def res_bool(f):
    try:
        r = f()
    except Exception as e:      # noqa: BLE001 — the exception class is the observation
        return "err:" + exc_name(e)
    if r is True:
        return "ok:true"
    if r is False:
        return "ok:false"
    return "ok:?%r" % (r,)


# pools whose order (built with the real operators) is not the order of the scheme's Lean model: filled by Bench,
# read by the runner, which registers each entry as a broken tie of the property being checked
MISMATCHES = []
_HAS_MODEL = {}


def _has_model(name):
    if name not in _HAS_MODEL:
        _HAS_MODEL[name] = common.run_model(["vparse %s %s" % (name, common.hx("1"))])[0] != "bad-op"
    return _HAS_MODEL[name]


def check_pool_against_model(name, pool):
    """the ranked pool is built with the REAL operators; the Layer-B checks talk to the model in ranks.  Here the
    pool's classes are put to the scheme's model: neighbours must be `lt`, members of one class `eq`."""
    if not _has_model(name):
        return
    pairs = []
    for i, cl in enumerate(pool.classes):
        for t, _v in cl[1:]:
            pairs.append((cl[0][0], t, "eq"))
        if i + 1 < len(pool.classes):
            pairs.append((cl[0][0], pool.classes[i + 1][0][0], "lt"))
    pairs = [p for p in pairs if p[0].isascii() and p[1].isascii()]
    if not pairs:
        return
    ans = common.run_model(["vcmp %s %s %s" % (name, common.hx(a), common.hx(b)) for a, b, _ in pairs])
    for (a, b, want), got in zip(pairs, ans):
        sign = got.split(" ")[0]
        if sign in ("lt", "eq", "gt") and sign != want:
            MISMATCHES.append({"scheme": name, "a": a, "b": b, "real_operators_say": want, "model_says": sign})
            return


class Bench:
    """real versions of one scheme addressed by rank"""

    def __init__(self, name, rng, size=16, need_hash=True, respell=0.3):
        self.name = name
        self.cls = S.vclass(name)
        # need_hash=False: members whose hash disagrees with == stay in (for properties that do not speak about hashing)
        self.pool = pools.build_pool(name, rng, size=size, need_hash=need_hash, respell=respell)
        check_pool_against_model(name, self.pool)
        self.rng = rng
        self.rclass = S.rclass(name) or _generic_range_for(self.cls)

    def ok(self, need):
        return self.pool.n() >= need

    def mapping(self, nranks, rng=None):
        """a random strictly increasing injection of ranks 0..nranks-1 into pool classes,
        with a random member (spelling) per class"""
        rng = rng or self.rng
        idx = sorted(rng.sample(range(self.pool.n()), nranks))
        return [self.pool.rep(i, rng) for i in idx]   # list of (text, version)

    def alt(self, entry, rng=None):
        """another spelling of the same version (a different object of the same pool class), if the pool has one"""
        rng = rng or self.rng
        for cl in self.pool.classes:
            if any(v is entry[1] for _, v in cl):
                others = [(t, v) for t, v in cl if v is not entry[1]]
                return rng.choice(others) if others else entry
        return entry

    def spellings(self, entry):
        """every member (text, version) of the pool class of `entry`"""
        for cl in self.pool.classes:
            if any(v is entry[1] for _, v in cl):
                return list(cl)
        return [entry]

    def con(self, cm, ver):
        if cm == "star":
            return VersionConstraint(comparator="*", version_class=self.cls)
        return VersionConstraint(comparator=TXT[cm], version=ver)


_GENERIC = {}


def _generic_range_for(cls):
    if cls not in _GENERIC:
        _GENERIC[cls] = type("Verif%sRange" % cls.__name__, (VR.VersionRange,),
                             {"scheme": "verif-" + cls.__name__.lower(), "version_class": cls})
    return _GENERIC[cls]


def cons_line(cons):
    """cons: list of (cmpr, rank) or ("star", None)"""
    if not cons:
        return "-"
    return ",".join("star" if c == "star" else "%s:%d" % (c, r) for c, r in cons)


def parse_cons_answer(ans):
    """'ok:ge:2,lt:4' -> ('ok', [('ge',2),('lt',4)]);  'err:X' -> ('err','X'); 'none'"""
    if ans == "none":
        return ("none", None)
    kind, _, rest = ans.partition(":")
    if kind == "err":
        return ("err", rest)
    if rest == "-":
        return ("ok", [])
    out = []
    for item in rest.split(","):
        if item == "star":
            out.append(("star", None))
        else:
            c, _, r = item.partition(":")
            out.append((c, int(r)))
    return ("ok", out)


def real_cons_variants(bench, cons, m, cap=4):
    """for a pattern in which a rank occurs again: one list of constraint objects per spelling of the repeated
    version that the pool knows (at most `cap`)"""
    first = {}
    rep = None
    for i, (c, r) in enumerate(cons):
        if c == "star":
            continue
        if r in first:
            rep = i
            break
        first[r] = i
    if rep is None:
        return [real_cons(bench, cons, m)]
    out = []
    base = m[cons[rep][1]]
    for e in [x for x in bench.spellings(base) if x[1] is not base[1]][:cap] or [base]:
        objs = [bench.con(c, None if c == "star" else m[r][1]) for c, r in cons]
        objs[rep] = bench.con(cons[rep][0], e[1])
        out.append(objs)
    return out


def real_cons(bench, cons, m, respell=None):
    """constraint objects for a rank pattern under mapping m (rank -> (text, version)); with `respell`
    (an rng) a rank that occurs again is written in another spelling of the same version when there is one"""
    if respell is None:
        return [bench.con(c, None if c == "star" else m[r][1]) for c, r in cons]
    out, seen = [], set()
    for c, r in cons:
        if c == "star":
            out.append(bench.con(c, None))
            continue
        e = m[r]
        if r in seen:
            e = bench.alt(e, respell)
        seen.add(r)
        out.append(bench.con(c, e[1]))
    return out


def describe(bench, cons, m, probe=None, objs=None):
    if objs is not None:
        texts = [("*" if o.comparator == "*" else o.comparator + o.version.string) for o in objs]
    else:
        texts = [TXT[c] + ("" if c == "star" else m[r][0]) for c, r in cons]
    d = {"scheme": bench.name, "constraints": texts}
    if probe is not None:
        d["version"] = m[probe][0]
    return d


class Inv(dict):
    """version object -> rank: by identity, else (an implementation may hand back an equal object of the same
    class, which no property forbids) by class and the real `==`"""

    def __init__(self, m):
        super().__init__((id(v), r) for r, (_, v) in enumerate(m))
        self.m = m

    def rank(self, v):
        r = self.get(id(v))
        if r is not None:
            return r
        hits = [r for r, (_, w) in enumerate(self.m) if type(w) is type(v) and w == v and v == w]
        if len(hits) == 1:
            return hits[0]
        raise ForeignVersion("a constraint of the result holds %r (%s), which is none of the versions given" % (v, type(v).__name__))


class ForeignVersion(Exception):
    pass


def canon_cons(objs, m_inv):
    """implementation constraints -> list of (cmpr, rank)"""
    out = []
    for c in objs:
        if c.comparator == "*":
            out.append(("star", None))
        else:
            out.append((NAME[c.comparator], m_inv.rank(c.version) if isinstance(m_inv, Inv) else m_inv[id(c.version)]))
    return out


def all_patterns(n):
    return itertools.product(CMPRS, repeat=n)


def sorted_cons(p):
    return [(c, 2 * (i + 1)) for i, c in enumerate(p)]


SHARED_TEXTS = ["1.0.0", "1.0.0-alpha", "1.0", "1.0.0-1", "1.0.0a", "1.0.0.1", "2.0.0", "1.0.0+1", "1.0.0~rc1", "1.0.0_p1",
                "1.0.0-beta", "0.9", "1.0.0-rc1", "1.0.1", "1.0a1", "3.0.rc1"]


def cross_tables(need_hash=True):
    """for every scheme: the SHARED_TEXTS it accepts, ranked by its own order (dense ranks) — the same texts are
    ordered differently by different schemes and belong to different classes, which is what anything that
    remembers a text between calls gets wrong"""
    from harness import pools
    tables = {}
    for name in S.ALL:
        p = pools.Pool(name, need_hash)
        objs = {}
        for t in SHARED_TEXTS:
            try:
                v = S.make(name, t)
            except Exception:  # noqa: BLE001
                continue
            if p.insert(t, v):
                objs[t] = v
        rk = {}
        for i, cl in enumerate(p.classes):
            for t, _v in cl:
                if t in objs:
                    rk[t] = i
        if len(rk) >= 3:
            tables[name] = (rk, objs, p.hashable)
    return tables


# ------------------------------------------------------------------ versions the real operators cannot rank
#
# The Layer-B streams address versions by rank in a pool built with the REAL operators, and a version on which the six
# operators contradict each other cannot be ranked: the pool leaves it out (on the unchanged tree that happens only in
# the recorded regions: maven outside its documented shape, alpm with and without pkgrel, conan items of mixed kinds).
# Left out of the pool must not mean left out of the property: every such pair is put to the property's own clauses
# directly on the real objects, with no model in between.

COMPLEMENTS = [("<=", ">"), ("<", ">="), ("=", "!=")]


def unrankable_pairs(bench, cap=12):
    from harness import layera as A
    out = []
    for ta, a, tb, b in bench.pool.unrankable:
        if not A.c01_in_domain(bench.name, [ta, tb]):
            continue
        try:
            if bench.name == "maven":
                if any(d.strip() != "in" for d in common.run_model(["vdomain maven %s" % common.hx(t) for t in (ta, tb)])):
                    continue
            if bench.name == "conan":
                if common.run_model(["vcompat conan %s %s" % (common.hx(ta), common.hx(tb))])[0].strip() != "in":
                    continue
        except Exception:  # noqa: BLE001
            continue
        out.append((ta, a, tb, b))
        if len(out) >= cap:
            break
    return out


def _mem(r, v):
    try:
        return bool(v in r)
    except Exception as e:  # noqa: BLE001
        return "raise:" + exc_name(e)


def direct_clauses(pid, bench, ta, a, tb, b):
    """clauses of property `pid` on two real versions, through the real API only; yields (clause, detail) for each
    clause that fails"""
    mk = lambda c, v: VersionConstraint(comparator=c, version=v)   # noqa: E731
    R = bench.rclass
    from harness import layera as _A
    _dom = {}

    def in_domain(t):
        """a third version may join the two only inside the domain of the scheme's order theorem (alpm: all with or all
        without a pkgrel; maven: the documented shape; conan: numbers and words never share a position): outside it the
        order is not a strict weak order on the unchanged tree (recorded: K01, and the domain notes of C01)"""
        if t not in _dom:
            ok = _A.c01_in_domain(bench.name, [ta, tb, t])
            try:
                if ok and bench.name == "maven":
                    ok = common.run_model(["vdomain maven %s" % common.hx(t)])[0].strip() == "in"
                if ok and bench.name == "conan":
                    ok = all(common.run_model(["vcompat conan %s %s" % (common.hx(t), common.hx(u))])[0].strip() == "in" for u in (ta, tb))
            except Exception:  # noqa: BLE001
                ok = False
            _dom[t] = ok
        return _dom[t]
    for x, tx, y, ty in ((a, ta, b, tb), (b, tb, a, ta)):
        for c, d in COMPLEMENTS:
            rc, rd = R(constraints=[mk(c, y)]), R(constraints=[mk(d, y)])
            if pid == "C04" and c in ("<=", "<"):
                # a bound far away on the other side changes nothing: x against [>= y] and [>= y | < top], where top is
                # above both (the single-constraint shortcut and the interval scan must agree)
                reps = [cl[0] for cl in bench.pool.classes if in_domain(cl[0][0])]
                for lowc, upc, far in ((">=", "<", reps[-1:]), (">", "<=", reps[-1:]), ("<=", ">", reps[:1]), ("<", ">=", reps[:1])):
                    for tf, fv in far:
                        try:
                            inside = (x < fv and y < fv) if upc in ("<", "<=") else (x > fv and y > fv)
                            if not inside:
                                continue
                            one = R(constraints=[mk(lowc, y)])
                            two = R(constraints=[mk(lowc, y), mk(upc, fv)])
                        except Exception:  # noqa: BLE001
                            continue
                        a1, a2 = _mem(one, x), _mem(two, x)
                        if isinstance(a1, bool) and a1 != a2:
                            yield ("a bound beyond both versions changes the answer",
                                   {"version": tx, "range_1": str(one), "in_1": a1, "range_2": str(two), "in_2": a2})
            if pid == "C04":
                m1, m2 = _mem(rc, x), _mem(rd, x)
                if m1 == m2 or not isinstance(m1, bool) or not isinstance(m2, bool):
                    yield ("%s and %s split the versions in two: %s is in %s of them"
                           % (c + ty, d + ty, tx, "both" if m1 is True and m2 is True else "neither" if m1 is False and m2 is False else "?"),
                           {"version": tx, "range_1": str(rc), "in_1": m1, "range_2": str(rd), "in_2": m2})
            elif pid == "C09":
                # ... and a range of two constraints: the version against a bound of the pool on the other side
                for tm, mv in [cl[0] for cl in (bench.pool.classes[:1] + bench.pool.classes[-1:]) if in_domain(cl[0][0])]:
                    for c2 in ("<", ">=", "!="):
                        # the property speaks about ranges in which every '!=' lies inside an included interval (or
                        # there are only '!=') and every '=' lies outside all intervals
                        try:
                            low = bool(mv < y)
                            high = bool(mv > y)
                        except Exception:  # noqa: BLE001
                            continue
                        if low == high:
                            continue
                        inside = (c2 == "<" and high) or (c2 == ">=" and low)          # y inside the interval of c2 mv
                        mv_inside = (c in ("<", "<=") and low) or (c in (">", ">=") and high)   # mv inside the interval of c y
                        if c == "=" and (c2 == "!=" or inside):
                            continue
                        if c == "!=" and c2 != "!=" and not inside:
                            continue
                        if c2 == "!=" and c not in ("!=",) and not mv_inside:
                            continue
                        try:
                            r2c = R(constraints=[mk(c, y), mk(c2, mv)])
                            VersionConstraint.validate(list(r2c.constraints))
                            r2i = r2c.invert()
                        except Exception:  # noqa: BLE001 — not a well-formed pair: not this clause's business
                            continue
                        n1, n2 = _mem(r2c, x), _mem(r2i, x)
                        if isinstance(n1, bool) and isinstance(n2, bool) and n1 == n2:
                            yield ("the inverse is not the complement (range of two constraints)",
                                   {"version": tx, "range": str(r2c), "in_range": n1, "inverse": str(r2i), "in_inverse": n2})
                try:
                    ri = rc.invert()
                except Exception as e:  # noqa: BLE001
                    yield ("invert raises", {"range": str(rc), "error": exc_name(e)})
                    continue
                m1, m2 = _mem(rc, x), _mem(ri, x)
                if m1 == m2 or not isinstance(m1, bool) or not isinstance(m2, bool):
                    yield ("the inverse is not the complement", {"version": tx, "range": str(rc), "in_range": m1,
                                                                 "inverse": str(ri), "in_inverse": m2})
            elif pid == "C17":
                try:
                    r2 = VR.VersionRange.from_string(str(rc)) if S.rclass(bench.name) else rc
                    r3 = rc.invert().invert()
                except Exception as e:  # noqa: BLE001
                    yield ("a presentation-level operation raises", {"range": str(rc), "error": exc_name(e)})
                    continue
                ms = [_mem(rc, x), _mem(r2, x), _mem(r3, x)]
                if len(set(map(str, ms))) != 1:
                    yield ("membership changes under print+parse / double inversion",
                           {"version": tx, "range": str(rc), "membership": ms})
        if pid in ("C13", "C17") and x is a:
            # the same two constraints given in either order
            for c, d in ((">=", "<"), ("=", "="), ("!=", ">"), ("<=", ">")):
                try:
                    r1 = R(constraints=[mk(c, x), mk(d, y)])
                    r2 = R(constraints=[mk(d, y), mk(c, x)])
                    t1, t2 = str(r1), str(r2)
                except Exception as e:  # noqa: BLE001
                    yield ("building or printing a range of two constraints raises", {"constraints": [c + tx, d + ty], "error": exc_name(e)})
                    continue
                if t1 != t2 or not (r1 == r2):
                    yield ("two constraints given in either order do not give equal ranges with the same text",
                           {"constraints": [c + tx, d + ty], "text_one_order": t1, "text_other_order": t2})
                elif pid == "C17":
                    ms = [(_mem(r1, k), _mem(r2, k)) for k in (x, y)]
                    if any(p != q for p, q in ms):
                        yield ("membership depends on the order in which two constraints were given",
                               {"constraints": [c + tx, d + ty], "membership": ms})
        if pid == "C10" and x is a:
            # the two versions among a few ranked versions of the pool as the known versions, against ranges that
            # contain all, or all but one, of them
            reps = [cl[0] for cl in bench.pool.classes if in_domain(cl[0][0])]
            known = [(tx, x), (ty, y)] + reps[:3] + reps[-3:]
            star = VersionConstraint(comparator="*", version_class=bench.cls)
            ranges = [R(constraints=[star])]
            for _t, v in (reps[:1] + [(tx, x), (ty, y)]):
                for c in (">=", "!=", "<="):
                    try:
                        ranges.append(R(constraints=[mk(c, v)]))
                    except Exception:  # noqa: BLE001
                        pass
            for r in ranges:
                try:
                    n = r.normalize([t for t, _ in known])
                except Exception as e:  # noqa: BLE001
                    yield ("normalize raises", {"range": str(r), "known": [t for t, _ in known], "error": exc_name(e)})
                    continue
                bad = [(tk, _mem(r, k), _mem(n, k)) for tk, k in known if _mem(r, k) != _mem(n, k)]
                if bad:
                    yield ("a known version is in the normalised range but not in the original, or the reverse",
                           {"range": str(r), "known": [t for t, _ in known], "normalized": str(n), "version": bad[0][0],
                            "in_original": bad[0][1], "in_normalized": bad[0][2]})
                    break
        if pid == "C10":
            for c in (">=", "<=", "!="):
                r = R(constraints=[mk(c, y)])
                try:
                    n = r.normalize([tx, ty])
                except Exception as e:  # noqa: BLE001
                    yield ("normalize raises", {"range": str(r), "known": [tx, ty], "error": exc_name(e)})
                    continue
                for k, tk in ((x, tx), (y, ty)):
                    if _mem(r, k) != _mem(n, k):
                        yield ("a known version is in the normalised range but not in the original, or the reverse",
                               {"range": str(r), "known": [tx, ty], "normalized": str(n), "version": tk,
                                "in_original": _mem(r, k), "in_normalized": _mem(n, k)})
            try:
                fv = R.from_versions([tx, ty]) if S.rclass(bench.name) else None
            except Exception:  # noqa: BLE001
                fv = None
            if fv is not None and fv is not NotImplementedError:
                for k, tk in ((x, tx), (y, ty)):
                    if _mem(fv, k) is not True:
                        yield ("a range built from a list of versions does not contain a listed one",
                               {"versions": [tx, ty], "range": str(fv), "version": tk})
        if pid == "C08" and x is a:
            # three constraints: the two versions with a ranked version of the pool between or beside them
            mids = [cl[0] for cl in bench.pool.classes[:: max(1, bench.pool.n() // 6)]][:6]
            # ... and versions made from the two themselves (another qualifier word, the qualifier cut off): what lies
            # BETWEEN two versions that are equal without being neighbours is made this way
            import random as _random
            _r = _random.Random(len(tx) * 31 + len(ty))
            for t in pools.word_neighbours(bench.name, tx, _r) + pools.word_neighbours(bench.name, ty, _r) + pools.cut_tails(tx):
                try:
                    mids.append((t, S.make(bench.name, t)))
                except Exception:  # noqa: BLE001
                    pass
            for tm, mv in [m_ for m_ in mids if in_domain(m_[0])]:
                for cs3 in (((">=", x), ("<", mv), (">=", y)), (("<=", x), (">", mv), ("<=", y)), (("=", x), ("!=", mv), ("=", y))):
                    try:
                        cons = sorted(mk(c, v) for c, v in cs3)
                        simp = VersionConstraint.simplify(list(cons))
                        r1, r2 = R(constraints=cons), R(constraints=simp)
                    except Exception:  # noqa: BLE001
                        continue
                    for k, tk in [(x, tx), (y, ty), (mv, tm)] + [(cl[0][1], cl[0][0]) for cl in bench.pool.classes[:8] if in_domain(cl[0][0])]:
                        m1, m2 = _mem(r1, k), _mem(r2, k)
                        if isinstance(m1, bool) and m1 != m2:
                            yield ("simplification changes the membership of a version",
                                   {"constraints": [str(q) for q in cons], "simplified": [str(q) for q in simp], "version": tk,
                                    "before": m1, "after": m2})
                            break
        if pid == "C08":
            for c, d in ((">=", "<="), (">", "<"), ("<=", ">="), ("=", ">"), ("!=", ">="),
                         # one comparator on both (what a de-duplication by equality may merge), and the two upper / lower kinds
                         ("<=", "<="), (">=", ">="), ("!=", "!="), ("=", "="), ("<=", "<"), ("<", "<="), (">=", ">"), (">", ">=")):
                try:
                    cons = sorted([mk(c, x), mk(d, y)])
                    simp = VersionConstraint.simplify(list(cons))
                except Exception as e:  # noqa: BLE001
                    continue
                r1, r2 = R(constraints=cons), R(constraints=simp)
                for k, tk in ((x, tx), (y, ty)):
                    m1, m2 = _mem(r1, k), _mem(r2, k)
                    if isinstance(m1, bool) and m1 != m2:
                        yield ("simplification changes the membership of a version",
                               {"constraints": [str(q) for q in cons], "simplified": [str(q) for q in simp], "version": tk,
                                "before": m1, "after": m2})
        if pid == "C07":
            for c, d in ((">=", "<="), ("=", "="), ("!=", ">")):
                cons = [mk(c, x), mk(d, y)]
                try:
                    VersionConstraint.validate(list(cons))
                except ValueError:
                    continue
                except Exception as e:  # noqa: BLE001
                    yield ("validation fails with an error that is not a ValueError", {"constraints": [str(q) for q in cons], "error": exc_name(e)})
                    continue
                try:
                    # one version: equal, or not separated by the order (neither below the other)
                    same = bool(x == y) or (not (x < y) and not (y < x))
                except Exception:  # noqa: BLE001
                    same = False
                if same:
                    yield ("validation accepts a list that names one version twice", {"constraints": [str(q) for q in cons]})
                r = R(constraints=cons)
                for k, tk in ((x, tx), (y, ty)):
                    m = _mem(r, k)
                    if not isinstance(m, bool):
                        yield ("an accepted list cannot be tested for membership", {"constraints": [str(q) for q in cons], "version": tk, "error": m})


def _more_unrankable(ctx, pid, bench, extra=8):
    """a few more pools of the scheme, built only to meet versions that cannot be ranked (which pairs a pool meets is a
    matter of chance; one pool is too few for a scheme-specific slip to show on every run)"""
    seen = {(ta, tb) for ta, _a, tb, _b in bench.pool.unrankable}
    for i in range(extra):
        rng = ctx.rng(pid, "unrankable-pools", bench.name, i)
        p = pools.build_pool(bench.name, rng, size=14, respell=0.5, need_hash=False)
        for ta, a, tb, b in p.unrankable:
            if (ta, tb) not in seen:
                seen.add((ta, tb))
                bench.pool.unrankable.append((ta, a, tb, b))
        bench.pool.cycles.extend(p.cycles)
    # systematic twins of the pool's own members: a leading zero on each of the last two digit runs, one letter in the
    # other case (the pairs on which a key that strips zeros or folds case disagrees with an equality that does not)
    import re
    for cl in bench.pool.classes[:14]:
        t, v = cl[0]
        cands = []
        runs = [m.start() for m in re.finditer(r"[0-9]+", t)]
        for i in runs[-2:]:
            cands.append(t[:i] + "0" + t[i:])
        idx = [i for i, ch in enumerate(t) if ch.isalpha() and ch.isascii()]
        if idx:
            cands.append(t[:idx[-1]] + t[idx[-1]].swapcase() + t[idx[-1] + 1:])
        for t2 in cands:
            if (t2, t) in seen or (t, t2) in seen:
                continue
            try:
                v2 = S.make(bench.name, t2)
            except Exception:  # noqa: BLE001
                continue
            q = pools.Pool(bench.name, need_hash=False)
            q.insert(t, v)
            q.insert(t2, v2)
            for ta, a, tb, b in q.unrankable:
                seen.add((ta, tb))
                bench.pool.unrankable.append((ta, a, tb, b))


TRIPLE_PATTERNS = ((">=", "!=", "<"), ("=", "=", "="), ("<=", ">", "!="), ("!=", "!=", "!="), (">=", "<", ">="), ("<", ">=", "<"))


def triple_clauses(pid, bench, items):
    """clauses of `pid` on THREE real versions that the real operators order in a circle: through the real API only"""
    import itertools
    mk = lambda c, v: VersionConstraint(comparator=c, version=v)   # noqa: E731
    R = bench.rclass
    if pid == "C10":
        # "the result is the same for any ordering or duplication of the list"
        star = VersionConstraint(comparator="*", version_class=bench.cls)
        ranges = [R(constraints=[star])]
        for _t, v in items:
            for c in (">=", "!=", "<"):
                try:
                    ranges.append(R(constraints=[mk(c, v)]))
                except Exception:  # noqa: BLE001
                    pass
        texts = [t for t, _v in items]
        for r in ranges:
            seen = {}
            for order in list(itertools.permutations(texts)) + [tuple(texts) + tuple(texts[:1])]:
                try:
                    n = str(r.normalize(list(order)))
                except Exception as e:  # noqa: BLE001
                    n = "raise:" + exc_name(e)
                seen.setdefault(n, list(order))
            if len(seen) > 1:
                (n1, o1), (n2, o2) = list(seen.items())[:2]
                yield ("normalising against the same known versions in another order gives another range",
                       {"range": str(r), "known_1": o1, "normalized_1": n1, "known_2": o2, "normalized_2": n2})
                return
        if S.rclass(bench.name):
            seen = {}
            for order in itertools.permutations(texts):
                try:
                    n = str(R.from_versions(list(order)))
                except Exception as e:  # noqa: BLE001
                    n = "raise:" + exc_name(e)
                seen.setdefault(n, list(order))
            if len(seen) > 1:
                (n1, o1), (n2, o2) = list(seen.items())[:2]
                yield ("a range built from the same versions in another order is another range",
                       {"versions_1": o1, "range_1": n1, "versions_2": o2, "range_2": n2})
        return
    for pat in TRIPLE_PATTERNS:
        for assign in itertools.permutations(items):
            cons = [(c, t, v) for c, (t, v) in zip(pat, assign)]
            texts, members = {}, {}
            raised = None
            if pid == "C07":
                # validation reads the list in version order: what it answers does not depend on the order given
                answers = {}
                for order in itertools.permutations(cons):
                    try:
                        VersionConstraint.validate([mk(c, v) for c, _t, v in order])
                        a = "accepted"
                    except ValueError:
                        a = "ValueError"
                    except Exception as e:  # noqa: BLE001
                        a = "raise:" + exc_name(e)
                    answers.setdefault(a, [c + t for c, t, _v in order])
                if len(answers) > 1:
                    (a1, o1), (a2, o2) = list(answers.items())[:2]
                    yield ("validation answers differently for the same constraints given in another order",
                           {"given_1": o1, "answer_1": a1, "given_2": o2, "answer_2": a2})
                    return
                continue
            for order in itertools.permutations(cons):
                try:
                    r = R(constraints=[mk(c, v) for c, _t, v in order])
                    texts.setdefault(str(r), [c + t for c, t, _v in order])
                except Exception as e:  # noqa: BLE001
                    raised = exc_name(e)
                    break
                if pid == "C04":
                    try:
                        VersionConstraint.validate(list(r.constraints))
                    except Exception:  # noqa: BLE001 — not a well-formed range: not this clause's business
                        continue
                    for t, v in items:
                        m = _mem(r, v)
                        if not isinstance(m, bool):
                            yield ("the membership test raises on a range that validation accepts",
                                   {"range": str(r), "constraints_given": [c + t2 for c, t2, _v in order], "version": t, "answer": m})
                            return
                if pid in ("C04", "C13", "C17"):
                    members.setdefault(tuple(str(_mem(r, v)) for _t, v in items), [c + t for c, t, _v in order])
            if raised:
                continue
            if len(texts) > 1 and pid != "C04":
                (t1, o1), (t2, o2) = list(texts.items())[:2]
                yield ("the same three constraints given in another order give another canonical text",
                       {"given_1": o1, "text_1": t1, "given_2": o2, "text_2": t2})
                return
            if len(members) > 1:
                (m1, o1), (m2, o2) = list(members.items())[:2]
                yield ("the same three constraints given in another order give another membership",
                       {"given_1": o1, "membership_1": list(m1), "given_2": o2, "membership_2": list(m2), "versions": [t for t, _v in items]})
                return


def probe_cycles(ctx, pid, bench, cap=6):
    from harness import layera as A
    stream = "unrankable-three:" + bench.name
    n = 0
    for ta, a, tb, b, near in bench.pool.cycles:
        for tz, z in near:
            if n >= cap:
                return
            if not A.c01_in_domain(bench.name, [ta, tb, tz]):
                continue
            try:
                if bench.name == "maven" and any(d.strip() != "in" for d in common.run_model(["vdomain maven %s" % common.hx(t) for t in (ta, tb, tz)])):
                    continue
                if bench.name == "conan" and any(common.run_model(["vcompat conan %s %s" % (common.hx(p), common.hx(q))])[0].strip() != "in"
                                                 for p, q in ((ta, tb), (ta, tz), (tb, tz))):
                    continue
            except Exception:  # noqa: BLE001
                continue
            n += 1
            ctx.count(stream, key=(ta, tb, tz), nontrivial=True)
            try:
                fails = list(triple_clauses(pid, bench, [(ta, a), (tb, b), (tz, z)]))
            except Exception as e:  # noqa: BLE001
                fails = [("the clauses could not be evaluated", {"error": exc_name(e)})]
            for clause, detail in fails[:1]:
                rep = {"scheme": bench.name, "a": ta, "b": tb, "c": tz, "clause": clause}
                rep.update(detail)
                ctx.disagree(stream, "%s / %s / %s" % (ta, tb, tz), clause, "-", True, rep, spec="the clause holds")


def probe_unrankable(ctx, pid, bench):
    """run the direct clauses of `pid` on the versions the pool could not rank; report each failure as a violation"""
    stream = "unrankable:" + bench.name
    _more_unrankable(ctx, pid, bench)
    if pid in ("C04", "C07", "C10", "C13", "C17"):
        probe_cycles(ctx, pid, bench)
    for ta, a, tb, b in unrankable_pairs(bench):
        ctx.count(stream, key=(ta, tb), nontrivial=True)
        try:
            fails = list(direct_clauses(pid, bench, ta, a, tb, b))
        except Exception as e:  # noqa: BLE001
            fails = [("the clauses could not be evaluated", {"error": exc_name(e)})]
        for clause, detail in fails[:2]:
            rep = {"scheme": bench.name, "a": ta, "b": tb, "clause": clause}
            rep.update(detail)
            ctx.disagree(stream, "%s / %s" % (ta, tb), clause, "-", True, rep, spec="the clause holds")
