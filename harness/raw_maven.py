"""raw three-way result of the maven comparison routine: `maven.Version.__cmp__`"""


def sign(A, B):
    return A.value.__cmp__(B.value)
