"""helpers shared by the text-layer property checks (C05, C06, C13, C15, C16, C18)"""
import importlib

from harness import common


def run_corr(ctx, module, stream, n, in_domain=lambda d: False, region=lambda d: None, spec=None, **kw):
    """run an agent-written correspondence (`harness.corr_<x>.run`) and register its
    disagreements; returns its stats"""
    m = importlib.import_module("harness." + module)
    rc, stats, dis = m.run(n, ctx.seed, None, False, **kw)
    st = ctx.stream(stream)
    total = 0
    for k, v in (stats or {}).items():
        if isinstance(v, int):
            total = max(total, v) if k.startswith("n_") else total
    cnt = sum(v for k, v in (stats or {}).items() if isinstance(v, int) and (k.startswith("n_") or k in ("native", "shorthand", "cases")))
    if not cnt:
        cnt = n
    st["evaluations"] += cnt
    st["distinct_nontrivial"] += sum(v for k, v in (stats or {}).items() if isinstance(v, int) and ("ok" in k)) or cnt
    st["distribution"] = {k: v for k, v in (stats or {}).items() if isinstance(v, (int, str))}
    ctx.evaluations += cnt
    for d in dis or []:
        dd = d if isinstance(d, dict) else {"case": common.short(d)}
        ctx.disagree(stream, common.short(dd.get("line", dd)), common.short(dd.get("impl", "?")), common.short(dd.get("model", "?")),
                     in_domain(dd), {"case": common.short(dd, 600)}, region=region(dd), spec=spec)
    return stats
