"""
Layer-A checks (C01, C02, C03, C11, C12): the real version classes of every scheme against
the Lean scheme models through `vparse` / `vcmp`, plus the property-level oracles evaluated on
the real code (used to turn a broken tie into a concrete failing input, and as support).
"""
import itertools
import operator

from harness import common, schemes as S, scheme_corr as SC, pools

from univers import versions as V

ALL = list(S.ALL)


def has_model(name):
    out = common.run_model(["vparse %s %s" % (name, common.hx("1"))])
    return out[0] != "bad-op"


SHARED = ["1.0.0", "1.0.0-alpha", "1.0", "1.0.0-1", "1.0.0-2", "1.0.0a", "1.0.0.1", "2.0.0", "1.0.0+1", "1.0.0~rc1", "1.0.0_p1",
          "1.0.0-beta", "0.9", "1.0.0-rc1", "1.0.1", "1.0a1", "3.0.rc1", "1.01", "1.1", "1.10", "1.9", "1.0_p0", "1.0_p",
          "1.0-r1", "1.0-r3", "1.00-r2", "2.0_rc1", "1.0.0-RC1"]

_WARMED = [False]


def shared_pairs(name):
    ok = []
    for t in SHARED:
        try:
            S.vclass(name)(t)
            ok.append(t)
        except Exception:  # noqa: BLE001
            pass
    return [(a, b) for a in ok for b in ok]


def warm_cross(ctx):
    """history across schemes, once per process and before any per-scheme stream: the same pairs of texts are
    compared (six operators, both orders) and tested against single constraints under every scheme that accepts
    them, interleaved — whatever a comparison routine or a constraint remembers by text is then stale for the next
    scheme, and the per-scheme streams (which run the same pairs) see it"""
    if _WARMED[0]:
        return
    _WARMED[0] = True
    from univers.version_constraint import VersionConstraint
    rng = ctx.rng("layera-warm")
    objs = {}
    for name in ALL:
        for t in SHARED:
            try:
                objs[(name, t)] = S.vclass(name)(t)
            except Exception:  # noqa: BLE001
                pass
    pairs = [(a, b) for a in SHARED for b in SHARED]
    rng.shuffle(pairs)
    names = list(ALL)
    n = 0
    for a, b in pairs:
        rng.shuffle(names)
        for name in names:
            va, vb = objs.get((name, a)), objs.get((name, b))
            if va is None or vb is None:
                continue
            n += 1
            for f in (operator.lt, operator.le, operator.eq, operator.ne, operator.ge, operator.gt):
                try:
                    f(va, vb)
                except Exception:  # noqa: BLE001
                    pass
            for c in ("<", "<=", "=", "!=", ">=", ">"):
                try:
                    va in VersionConstraint(comparator=c, version=vb)
                except Exception:  # noqa: BLE001
                    pass
    ctx.stream("history:cross-scheme-warm-up")["evaluations"] = n


def corr(ctx, name, n):
    """returns (stats, disagreements)"""
    warm_cross(ctx)
    code, stats, dis = SC.run(name, n=n, seed=ctx.seed, verbose=False, structured=True, extra_pairs=shared_pairs(name))
    return stats, dis


def bits_of(impl):
    parts = impl.split(" ")
    if len(parts) != 3:
        return None
    return parts[0], parts[1], parts[2]


def ops_agree(bits):
    """the C02 oracle on the six observed operator results eq ne lt le gt ge"""
    if "E" in bits or len(bits) != 6:
        return "an operator raised"
    eq, ne, lt, le, gt, ge = [c == "1" for c in bits]
    if [lt, eq, gt].count(True) != 1:
        return "not exactly one of <, ==, > holds"
    if le != (lt or eq):
        return "<= differs from (< or ==)"
    if ge != (gt or eq):
        return ">= differs from (> or ==)"
    if ne != (not eq):
        return "!= differs from not =="
    return None


def sign_of_bits(bits):
    eq, ne, lt, le, gt, ge = [c == "1" for c in bits]
    return "lt" if lt else ("gt" if gt else "eq")


def valid_pool(name, rng, size):
    """valid versions of the scheme, with respellings, as (text, object)"""
    out = []
    seen = set()
    tries = 0
    # a few of the texts that several schemes share (the cross-scheme warm-up has already used them)
    for t in rng.sample(SHARED, len(SHARED)):
        if len(out) >= min(6, size // 3):
            break
        try:
            out.append((t, S.vclass(name)(t)))
            seen.add(t)
        except Exception:  # noqa: BLE001
            pass
    while len(out) < size and tries < size * 5:
        tries += 1
        try:
            s, v = S.gen_valid(name, rng)
        except RuntimeError:
            break
        cands = [s]
        if rng.random() < 0.5:
            try:
                cands.append(S.RESPELL[name](s, rng))
            except Exception:  # noqa: BLE001
                pass
        if rng.random() < 0.35:
            # a digit run written with a leading zero (the first one too)
            import re
            runs = [m.start() for m in re.finditer(r"[0-9]+", s)]
            if runs:
                i = rng.choice(runs[:1] + runs)
                cands.append(s[:i] + "0" + s[i:])
        lone = [i for i, ch in enumerate(s) if ch.isalpha() and ch.isascii() and (i == 0 or not s[i - 1].isalpha())
                and (i + 1 == len(s) or not s[i + 1].isalpha())]
        if rng.random() < (0.7 if lone else 0.3):
            # one letter in the other case, and the next letter in that case (1.0a / 1.0A / 1.0B: where a comparison folds
            # case in one place and not in another, a third version lies between the two); a letter that stands alone (the
            # version letter of gentoo, openssl, debian) first
            idx = lone or [i for i, ch in enumerate(s) if ch.isalpha() and ch.isascii()]
            if idx:
                i = rng.choice(idx[-2:])
                sw = s[:i] + s[i].swapcase() + s[i + 1:]
                nxt = {"z": "y", "Z": "Y"}.get(sw[i], chr(ord(sw[i]) + 1))
                cands += [sw, sw[:i] + nxt + sw[i + 1:]]
        if rng.random() < 0.4:
            # the same base with other short endings of the scheme and with a short prefix (harness/pools.py)
            from harness import pools
            nb = pools.tail_neighbours(name, s, rng)
            pref = [t for t in nb if t.endswith(s.split(":")[-1]) and t != s]       # the prefixed spellings: kept together
            rest = [t for t in nb if t not in pref]
            cands += pref + rng.sample(rest, min(3, len(rest)))
        for t in cands:
            if t in seen or any(ord(c) > 127 for c in t):
                continue
            try:
                o = S.vclass(name)(t)
            except Exception:  # noqa: BLE001
                continue
            seen.add(t)
            out.append((t, o))
    return out


# ------------------------------------------------------------------ domain restrictions of C01

def alpm_has_rel(text):
    v = "".join(text.split()).lstrip("vV")
    if ":" in v:
        v = v.split(":", 1)[1]
    return "-" in v


def conan_shape(text):
    """kinds (number / word) of the dotted items of main, pre and build"""
    v = "".join(text.split()).lstrip("vV")
    main, _, build = v.partition("+")
    main, _, pre = main.partition("-")
    def kinds(s):
        return tuple(("n" if x.lstrip("+-").replace("_", "").isdigit() else "w") for x in s.split(".")) if s != "" else ()
    return kinds(main), kinds(pre), kinds(build)


def conan_compatible(a, b):
    for ka, kb in zip(conan_shape(a), conan_shape(b)):
        for x, y in zip(ka, kb):
            if x != y:
                return False
    return True


def c01_in_domain(name, texts):
    if name == "alpm":
        return len({alpm_has_rel(t) for t in texts}) == 1
    if name == "conan":
        return all(conan_compatible(a, b) for a, b in itertools.combinations(texts, 2))
    return True
