"""Child process of the C16 termination screen: reads 'label<TAB>hex-input' lines, runs the entry point on each and
prints 'BEGIN n' before and 'END n seconds' after every input (flushed), so that the parent can tell which input
it was on when it had to be killed."""
import sys
import time

import os
sys.path.insert(0, os.path.dirname(os.path.dirname(os.path.abspath(__file__))))
from harness.props import c16  # noqa: E402


def main():
    eps = {label: fn for _kind, label, _scheme, fn in c16.entry_points()}
    n = 0
    for line in sys.stdin:
        label, _, hx = line.rstrip("\n").partition("\t")
        s = bytes.fromhex(hx).decode("utf-8")
        n += 1
        sys.stdout.write("BEGIN %d\n" % n)
        sys.stdout.flush()
        t0 = time.perf_counter()
        try:
            eps[label](s)
        except RecursionError:
            pass
        except Exception:  # noqa: BLE001
            pass
        sys.stdout.write("END %d %.4f\n" % (n, time.perf_counter() - t0))
        sys.stdout.flush()


if __name__ == "__main__":
    main()
