"""raw three-way result of the gem comparison routine: `GemVersion.__cmp__`"""


def sign(A, B):
    return A.value.__cmp__(B.value)
