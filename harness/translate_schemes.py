"""
Translator, part 2: the constant tables and the regular-expression call sites that the hand-written
scheme models mirror, regenerated from /repo on every run into lean/Univers/Gen/SchemeTables.lean.
`Univers/Scheme/TablesThm.lean` proves (by `decide`) that every hand-written table of a model agrees
with the regenerated one and that the regular expressions are the ones the recognisers were written
for: editing a table or a pattern in /repo breaks that obligation even when no sampled input shows it.
"""
import ast

from harness import common
from harness.translate import lstr, llist


def _src(rel):
    return (common.SRC / "univers" / rel).read_text()


def _literal_assign(tree, name):
    """the literal assigned to `name` anywhere in the tree (module level or inside a function)"""
    for node in ast.walk(tree):
        if isinstance(node, ast.Assign) and any(isinstance(t, ast.Name) and t.id == name for t in node.targets):
            try:
                return ast.literal_eval(node.value)
            except Exception:  # noqa: BLE001
                return None
    return None


def _dict_keys(tree, name):
    """keys (in source order) of a dict display assigned to `name`, whatever the values are"""
    for node in ast.walk(tree):
        if isinstance(node, ast.Assign) and any(isinstance(t, ast.Name) and t.id == name for t in node.targets) \
                and isinstance(node.value, ast.Dict):
            out = []
            for k in node.value.keys:
                try:
                    out.append(ast.literal_eval(k))
                except Exception:  # noqa: BLE001
                    out.append(ast.unparse(k))
            return out
    return None


def regex_sites():
    """every call re.<f>(pattern, ...) in the library: (file, enclosing scope, f, source text of the pattern)"""
    out = []
    root = common.SRC / "univers"
    for path in sorted(root.rglob("*.py")):
        rel = str(path.relative_to(root))
        try:
            tree = ast.parse(path.read_text())
        except SyntaxError:
            continue
        scopes = {}

        def walk(node, scope):
            for child in ast.iter_child_nodes(node):
                s = scope
                if isinstance(child, (ast.FunctionDef, ast.AsyncFunctionDef, ast.ClassDef)):
                    s = (scope + "." if scope else "") + child.name
                if isinstance(child, ast.Call) and isinstance(child.func, ast.Attribute) and \
                        isinstance(child.func.value, ast.Name) and child.func.value.id == "re" and child.args:
                    out.append((rel, scope or "<module>", child.func.attr, ast.unparse(child.args[0])))
                walk(child, s)
        walk(tree, "")
    return out


def compiled_patterns():
    """every compiled pattern reachable as a module or class attribute of the library (also through a bound
    `.match` / `.findall` / `.search`): (module, attribute, final pattern text, flags)"""
    import importlib
    import pkgutil
    import re
    import univers
    out = []

    def pat(v):
        if isinstance(v, re.Pattern):
            return v
        s = getattr(v, "__self__", None)
        return s if isinstance(s, re.Pattern) else None

    for mi in sorted(pkgutil.walk_packages(univers.__path__, "univers."), key=lambda m: m.name):
        try:
            mod = importlib.import_module(mi.name)
        except Exception:  # noqa: BLE001
            continue
        for k, v in sorted(vars(mod).items()):
            p = pat(v)
            if p is not None:
                out.append((mi.name, k, p.pattern if isinstance(p.pattern, str) else p.pattern.decode("latin-1"), p.flags))
            if isinstance(v, type) and v.__module__ == mi.name:
                for k2, v2 in sorted(vars(v).items()):
                    p = pat(v2)
                    if p is not None:
                        out.append((mi.name, k + "." + k2, p.pattern if isinstance(p.pattern, str) else p.pattern.decode("latin-1"), p.flags))
    return out


def _deb_operators_by_behaviour():
    """the relation texts that `debian.eval_constraint` evaluates (asked of the function: where it keeps its table, and in
    which order, is nobody's business); sorted"""
    try:
        from univers.debian import eval_constraint as f
    except Exception:  # noqa: BLE001
        return None
    out = []
    for op in ("<<", "<=", "=", ">=", ">>", "<", ">", "==", "!=", "<>", "~", "^", "lt", "le", "eq", "ge", "gt", "ne", "", " ", "=<", "=>", "<<<", ">>>", "*"):
        try:
            f("1", op, "2")
            out.append(op)
        except Exception:  # noqa: BLE001
            pass
    return sorted(out) or None


def _brackets_by_behaviour():
    """what `split_req_bracket_notation` makes of each bracket in front of, and behind, a version: asked of the function
    itself (where the tables live and what they are called is nobody's business); sorted by the bracket"""
    try:
        from univers.version_range import split_req_bracket_notation as f
    except Exception:  # noqa: BLE001
        return None, None
    front, rear = {}, {}
    for ch in "([{<)]}>":
        try:
            c, v = f(ch + "1.0")
            if v == "1.0":
                front[ch] = c
        except Exception:  # noqa: BLE001
            pass
        try:
            c, v = f("1.0" + ch)
            if v == "1.0" and ch not in front:
                rear[ch] = c
        except Exception:  # noqa: BLE001
            pass
    if not front and not rear:
        return None, None
    return dict(sorted(front.items())), dict(sorted(rear.items()))


def _legacy_bases_by_behaviour():
    """the legacy OpenSSL bases the validity check knows, found by asking it (the table moved or was renamed)"""
    try:
        from univers.versions import LegacyOpensslVersion as L
    except Exception:  # noqa: BLE001
        return ()
    out = []
    for a in range(0, 4):
        for b in range(0, 10):
            for c in range(0, 10):
                t = "%d.%d.%d" % (a, b, c)
                try:
                    if L.is_valid(t):
                        out.append(t)
                except Exception:  # noqa: BLE001
                    pass
    return tuple(out)


def generate():
    gentoo = ast.parse(_src("gentoo.py"))
    maven = ast.parse(_src("maven.py"))
    debian = ast.parse(_src("debian.py"))
    versions = ast.parse(_src("versions.py"))
    vrange = ast.parse(_src("version_range.py"))
    suffix_value = _literal_assign(gentoo, "suffix_value") or {}
    qualifiers = _literal_assign(maven, "QUALIFIERS") or []
    aliases = _literal_assign(maven, "ALIASES") or {}
    if isinstance(aliases, dict):
        aliases = dict(sorted(aliases.items()))      # a lookup table: its order says nothing
    if not qualifiers:
        try:
            from univers import maven as _m
            qualifiers = list(getattr(_m, "QUALIFIERS", []))
        except Exception:  # noqa: BLE001
            qualifiers = []
    chars = _literal_assign(debian, "characters_order") or {}
    bases = _literal_assign(versions, "all_legacy_base") or _legacy_bases_by_behaviour()
    front, rear = _brackets_by_behaviour()
    if front is None:
        front = _literal_assign(vrange, "comparators_front") or {}
        rear = _literal_assign(vrange, "comparators_rear") or {}
    deb_ops = _deb_operators_by_behaviour() or sorted(_dict_keys(debian, "operators") or [])
    sites = regex_sites()
    comp = compiled_patterns()
    pair = lambda a, b: "(%s, %s)" % (a, b)  # noqa: E731
    body = f"""/- GENERATED by harness/translate_schemes.py from /repo — do not edit -/
namespace Univers.Gen

/-- `univers.gentoo.suffix_value`, in dict order -/
def gentooSuffixValue : List (String × Int) := {llist([pair(lstr(k), "(%d : Int)" % v) for k, v in suffix_value.items()])}

/-- `univers.maven.QUALIFIERS` -/
def mavenQualifiers : List String := {llist([lstr(q) for q in qualifiers])}

/-- `univers.maven.ALIASES`, in dict order -/
def mavenAliases : List (String × String) := {llist([pair(lstr(k), lstr(v)) for k, v in aliases.items()])}

/-- `univers.debian.characters_order`, in dict order (the key `""` is the end of the string) -/
def debCharactersOrder : List (String × Nat) := {llist([pair(lstr(k), str(v)) for k, v in chars.items()], 6)}

/-- `all_legacy_base` of `LegacyOpensslVersion.parse` -/
def legacyOpensslBases : List String := {llist([lstr(b) for b in bases])}

/-- the two dicts of `split_req_bracket_notation` -/
def snykBracketFront : List (String × String) := {llist([pair(lstr(k), lstr(v)) for k, v in front.items()])}
def snykBracketRear : List (String × String) := {llist([pair(lstr(k), lstr(v)) for k, v in rear.items()])}

/-- the relation texts that `univers.debian.eval_constraint` evaluates, sorted (read by behaviour) -/
def debOperators : List String := {llist([lstr(str(k)) for k in deb_ops])}

/-- every `re.<f>(pattern, …)` call of the library: (file, enclosing scope, f, source text of the pattern) -/
def regexSites : List (String × String × String × String) := {llist(["(%s, %s, %s, %s)" % tuple(lstr(x) for x in s) for s in sites], 1)}

/-- every compiled pattern held by a module or class attribute: (module, attribute, final pattern, flags) -/
def compiledPatterns : List (String × String × String × Nat) := {llist(["(%s, %s, %s, %d)" % (lstr(a), lstr(b), lstr(c), d) for a, b, c, d in comp], 1)}

end Univers.Gen
"""
    return {"SchemeTables.lean": body}
