"""raw three-way result of the semver family: the precedence-key comparison of the value objects
(`semantic_version.Version.__lt__/__gt__` on `precedence_key`), the way
`semantic_version.Version.__cmp__` computes it.  The operators are used, not direct dunder calls:
`coerce` returns a plain `semantic_version.Version` (not an `EnhancedSemanticVersion`) for a
string that is only `N[.N[.N]]`, and `Enhanced.__lt__(plain)` is `NotImplemented` (Python then
takes the reflected method, with the same result)."""


def sign(A, B):
    a, b = A.value, B.value
    if a < b:
        return -1
    if a > b:
        return 1
    return 0
