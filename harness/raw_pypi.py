"""Raw three-way result of the pypi comparison: packaging compares the `_key` tuples."""


def sign(A, B):
    ka, kb = A.value._key, B.value._key
    return (ka > kb) - (ka < kb)
