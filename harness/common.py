"""
Shared plumbing for the checks: paths, the Lean build, the model driver (line protocol),
the axiom audit, evidence files, violation / known-finding reporting.

Runs under /venv/bin/python with /repo/src on sys.path (the real code is imported in-process
from /repo's current working tree).
"""
import fcntl
import hashlib
import json
import os
import random
import re
import subprocess
import sys
import time
from pathlib import Path

VERIF = Path(__file__).resolve().parent.parent
LEAN = VERIF / "lean"
REPO = Path(os.environ.get("UNIVERS_REPO", "/repo"))
SRC = REPO / "src"
# runs against a scratch copy of the repository (seeded changes) must not overwrite the evidence of /repo
EVIDENCE = Path(os.environ.get("VERIF_EVIDENCE_DIR") or (VERIF / "evidence"))
REPLAYS = Path(os.environ.get("VERIF_REPLAYS_DIR") or (VERIF / "replays"))
UMODEL = LEAN / ".lake" / "build" / "bin" / "umodel"

os.environ.setdefault("UNIVERS_VERIF", "1")
if str(SRC) not in sys.path:
    sys.path.insert(0, str(SRC))

ACCEPTED_AXIOMS = {"propext", "Classical.choice", "Quot.sound"}

TRUSTED_BASE = [
    "Lean 4.33.0 kernel and elaborator",
    "axioms accepted: propext, Classical.choice, Quot.sound (audited with #print axioms on every run)",
    "the Lean specs (denote, denoteR, WF, reference sort keys, notation grammars) as the reading of the property",
    "harness/translate.py: tables regenerated from /repo say what the Python objects say",
    "the correspondence (differential testing of the hand-written model against the real code)",
    "Python semantics modelled, not verified: rich-comparison dispatch, attrs, total_ordering, tuple comparison, set, sorted, str methods",
]


class Tooling(Exception):
    """a failure of the machinery itself: exit 2, never a verdict"""


def seed_from_env():
    try:
        return int(os.environ.get("VERIF_SEED", "0"))
    except ValueError:
        return 0


def rng_for(seed, *names):
    h = hashlib.sha256(("%d|" % seed + "|".join(map(str, names))).encode()).digest()
    return random.Random(int.from_bytes(h[:8], "big"))


# --------------------------------------------------------------------------- build

def sh(cmd, cwd=None, timeout=1800, env=None):
    p = subprocess.run(cmd, cwd=cwd, shell=isinstance(cmd, str), stdout=subprocess.PIPE,
                       stderr=subprocess.STDOUT, text=True, timeout=timeout, env=env)
    return p.returncode, p.stdout


class BuildResult:
    def __init__(self):
        self.ok = True
        self.log = ""
        self.failed_modules = []
        self.cmds = []
        self.tables = {}
        self.tables_changed = []


def translate():
    """regenerate lean/Univers/Gen/*.lean from /repo; returns {file: sha256}, [changed files]"""
    from harness import translate as T
    return T.run()


def new_table_words():
    """words and characters that occur in the regenerated scheme tables and regular expressions but not in those of the
    pinned tree (Gen/SchemeTables.lean against Gen.expected/SchemeTables.lean): what a changed table or pattern may
    newly admit.  Used only to aim the search when a table changed."""
    try:
        new = (LEAN / "Univers" / "Gen" / "SchemeTables.lean").read_text()
        old = (LEAN / "Univers" / "Gen.expected" / "SchemeTables.lean").read_text()
    except OSError:
        return []
    if new == old:
        return []
    tok = lambda t: set(re.findall(r"[A-Za-z]{1,12}", t)) | set(re.findall(r"[^A-Za-z0-9\s\\]", t))   # noqa: E731
    words = sorted(tok(new) - tok(old), key=lambda w: (len(w), w))
    return [w for w in words if w not in ('"', "(", ")", ",", "[", "]")][:24]


class TooLong(BaseException):
    """a call into the library under test is still running after its time limit"""


def limited(f, seconds=10.0):
    """run f() in this process; a call that is still running after `seconds` is interrupted (pure-Python loops only: a
    regular expression that backtracks for ever does not look at signals).  The timer keeps firing, so that an `except:`
    inside the library cannot swallow the interruption for good.  Limits nest: an outer limit keeps its own deadline."""
    import signal

    def onalarm(_sig, _frm):
        raise TooLong()
    t0 = time.time()
    outer_left, outer_every = signal.getitimer(signal.ITIMER_REAL)
    old = signal.signal(signal.SIGALRM, onalarm)
    signal.setitimer(signal.ITIMER_REAL, seconds if not outer_left else min(seconds, outer_left), 0.5)
    try:
        return f()
    finally:
        signal.setitimer(signal.ITIMER_REAL, 0)
        signal.signal(signal.SIGALRM, old)
        if outer_left:
            signal.setitimer(signal.ITIMER_REAL, max(0.05, outer_left - (time.time() - t0)), outer_every)


def new_comparator_keys():
    """comparator texts that the regenerated `COMPARATORS` table has and the pinned one has not, with the operator each
    names: [(text, operator name)].  Used only to aim the search when that table changed."""
    def read(path):
        try:
            t = path.read_text()
        except OSError:
            return []
        m = re.search(r"def comparators[^\[]*\[(.*?)\]\n", t, flags=re.S)
        return re.findall(r'\("([^"]*)", "([^"]*)"\)', m.group(1)) if m else []
    new = read(LEAN / "Univers" / "Gen" / "Comparators.lean")
    old = read(LEAN / "Univers" / "Gen.expected" / "Comparators.lean")
    return [kv for kv in new if kv not in old]


def function_status():
    """what the function translator said on this run (Gen/functions.json)"""
    try:
        return json.loads((LEAN / "Univers" / "Gen" / "functions.json").read_text())
    except Exception:  # noqa: BLE001
        return {}


def lake_build(targets, keep_going=True):
    """Build `targets` under a lock. Returns (ok, log, failed_modules)."""
    lock = open(LEAN / ".build.lock", "w")
    fcntl.flock(lock, fcntl.LOCK_EX)
    try:
        cmd = ["lake", "build"] + list(targets)
        rc, out = sh(cmd, cwd=LEAN, timeout=3000)
        failed = re.findall(r"^✖ \[\d+/\d+\] (?:Building|Built) (\S+)", out, flags=re.M)
        failed += re.findall(r"^- (\S+)$", out, flags=re.M)
        return rc == 0, out, sorted(set(failed)), " ".join(cmd)
    finally:
        fcntl.flock(lock, fcntl.LOCK_UN)
        lock.close()


def leanchecker(modules):
    """independent replay of the compiled modules (and what they import) by the toolchain's re-checker"""
    cmd = ["lake", "env", "leanchecker"] + list(modules)
    rc, out = sh(cmd, cwd=LEAN, timeout=3000)
    return rc == 0, out[-2000:], " ".join(cmd)


_THM_RE = re.compile(r"^(?:@\[[^\]]*\]\s*)?theorem\s+([A-Za-z_][\w.']*)", re.M)


def strip_comments(text):
    # remove /- ... -/ (nested not handled beyond one level) and -- comments
    out = []
    i = 0
    depth = 0
    n = len(text)
    while i < n:
        if text.startswith("/-", i):
            depth += 1
            i += 2
        elif depth and text.startswith("-/", i):
            depth -= 1
            i += 2
        elif depth:
            i += 1
        elif text.startswith("--", i):
            j = text.find("\n", i)
            i = n if j < 0 else j
        else:
            out.append(text[i])
            i += 1
    return "".join(out)


def theorems_of(module):
    """names of the theorems declared in a Props module, with its namespace prefix resolved
    by asking Lean (we print axioms of the fully qualified names we find)."""
    path = LEAN / (module.replace(".", "/") + ".lean")
    text = strip_comments(path.read_text())
    names = []
    ns = []
    for line in text.splitlines():
        m = re.match(r"^namespace\s+(\S+)", line)
        if m:
            ns.append(m.group(1))
            continue
        m = re.match(r"^end\s+(\S+)", line)
        if m and ns and ns[-1].split(".")[-1] == m.group(1).split(".")[-1]:
            ns.pop()
            continue
        m = _THM_RE.match(line)
        if m:
            names.append(".".join(ns + [m.group(1)]))
    return names


FORBIDDEN = re.compile(r"\b(sorry|admit|native_decide|bv_decide|implemented_by|unsafe)\b|^axiom\s|maxHeartbeats 0", re.M)


def grep_forbidden(paths):
    hits = []
    for p in paths:
        text = strip_comments(p.read_text())
        for m in FORBIDDEN.finditer(text):
            hits.append("%s: %s" % (p.relative_to(LEAN), m.group(0).strip()))
    return hits


def lean_sources():
    return [p for p in (LEAN / "Univers").rglob("*.lean")] + [LEAN / "Main.lean"]


def audit_axioms(module, names):
    """returns {theorem: [axioms]} via #print axioms, and the command used"""
    if not names:
        return {}, "", ""
    tmp = LEAN / ".audit"
    tmp.mkdir(exist_ok=True)
    f = tmp / ("Audit_%s_%d.lean" % (module.replace(".", "_"), os.getpid()))
    body = "import %s\n" % module + "".join("#print axioms %s\n" % n for n in names)
    f.write_text(body)
    try:
        cmd = ["lake", "env", "lean", str(f.relative_to(LEAN))]
        rc, out = sh(cmd, cwd=LEAN, timeout=1200)
    finally:
        try:
            f.unlink()
        except OSError:
            pass
    res = {}
    # outputs: "'name' depends on axioms: [a, b]" or "'name' does not depend on any axioms"
    flat = out.replace("\n", " ")
    for n in names:
        m = re.search(r"'%s' depends on axioms: \[([^\]]*)\]" % re.escape(n), flat)
        if m:
            res[n] = [a.strip() for a in m.group(1).split(",") if a.strip()]
        elif re.search(r"'%s' does not depend on any axioms" % re.escape(n), flat):
            res[n] = []
        else:
            res[n] = None  # unknown constant / failed
    return res, " ".join(cmd), out


# --------------------------------------------------------------------------- model driver

def run_model(lines, timeout=1800):
    """pipe `lines` to the compiled Lean driver, return the list of answers"""
    if not lines:
        return []
    if not UMODEL.exists():
        raise Tooling("model driver not built: %s" % UMODEL)
    data = "\n".join(lines) + "\n"
    p = subprocess.run([str(UMODEL)], input=data, stdout=subprocess.PIPE, stderr=subprocess.PIPE,
                       text=True, timeout=timeout)
    if p.returncode != 0:
        raise Tooling("model driver failed rc=%s: %s" % (p.returncode, p.stderr[-2000:]))
    out = p.stdout.split("\n")
    if out and out[-1] == "":
        out.pop()
    if len(out) != len(lines):
        raise Tooling("model driver answered %d lines for %d" % (len(out), len(lines)))
    return out


def hx(s):
    """hex encoding used by the line protocol: 6 hex digits per code point, '-' for empty"""
    if s == "":
        return "-"
    return "".join("%06x" % ord(c) for c in s)


def unhx(s):
    if s == "-":
        return ""
    return "".join(chr(int(s[i:i + 6], 16)) for i in range(0, len(s), 6))


# --------------------------------------------------------------------------- findings

def load_known():
    p = VERIF / "known_findings.json"
    if not p.exists():
        return []
    return json.loads(p.read_text()).get("findings", [])


class Reporter:
    """collects violations and known findings for one property run"""

    def __init__(self, pid, tier, seed):
        self.pid = pid
        self.tier = tier
        self.seed = seed
        self.t0 = time.time()
        self.violations = []      # (key, replay dict, found_input)
        self.known_hits = {}      # finding id -> example
        self.known = [k for k in load_known() if k.get("property") == pid and k.get("status") == "open"]
        self.notes = []
        REPLAYS.mkdir(exist_ok=True)
        for old in REPLAYS.glob("%s-*.json" % pid):
            try:
                old.unlink()
            except OSError:
                pass

    def known_region(self, region):
        for k in self.known:
            if k.get("region") == region:
                return k
        return None

    def fail(self, key, replay, found_input=True, region=None):
        """register a failing input (or a broken tie when found_input is False).
        `region` names the known-finding region the input falls in, if any."""
        if region is not None:
            k = self.known_region(region)
            if k is not None:
                self.known_hits.setdefault(k["id"], replay)
                return
        if len(self.violations) < 50:
            self.violations.append((key, replay, found_input))

    def finish(self, evidence):
        REPLAYS.mkdir(exist_ok=True)
        EVIDENCE.mkdir(exist_ok=True)
        for k in self.known:
            # every open finding is replayed by the property module (see `replay_known`);
            # here we only print the ones that were reproduced
            pass
        lines = []
        seen = set()
        for key, replay, found in self.violations:
            if key in seen:
                continue
            seen.add(key)
            h = hashlib.sha256(json.dumps(replay, sort_keys=True, default=str).encode()).hexdigest()[:12]
            path = REPLAYS / ("%s-%s.json" % (self.pid, h))
            replay = dict(replay)
            replay.setdefault("property", self.pid)
            replay.setdefault("key", key)
            replay.setdefault("seed", self.seed)
            replay.setdefault("tier", self.tier)
            replay["found_failing_input"] = bool(found)
            path.write_text(json.dumps(replay, indent=1, sort_keys=True, default=str))
            line = "VIOLATION property=%s replay=%s" % (self.pid, path)
            if not found:
                line += " no-failing-input-found"
            lines.append(line)
            if len(lines) >= 10:
                break
        evidence["violations"] = len(seen)
        evidence["wall_s"] = round(time.time() - self.t0, 3)
        write_evidence(self.pid, evidence)
        for l in lines:
            print(l)
        sys.stdout.flush()
        return 1 if lines else 0

    def print_known(self, fid, what):
        print("KNOWN-FINDING: property=%s %s [%s]" % (self.pid, what, fid))


def write_evidence(pid, ev):
    EVIDENCE.mkdir(exist_ok=True)
    ev = dict(ev)
    ev.setdefault("property_id", pid)
    (EVIDENCE / ("%s.json" % pid)).write_text(json.dumps(ev, indent=1, default=str))


def safe(f):
    """the value of f() as text, or what it raises: evidence samples must never crash a check"""
    try:
        return str(f())
    except Exception as e:  # noqa: BLE001
        return "raises %s" % type(e).__name__


def short(obj, n=300):
    s = obj if isinstance(obj, str) else json.dumps(obj, default=str)
    return s if len(s) <= n else s[:n] + "…"
