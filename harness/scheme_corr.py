"""
Layer-A correspondence for one versioning scheme: the real `univers.versions` class against the
Lean model of that scheme, through the driver commands

    vparse <scheme> <hex s>          → ok <hex str(version)> | invalid | raise:<ExcName>
    vcmp   <scheme> <hex a> <hex b>  → <sign> <eq><ne><lt><le><gt><ge> <h>
                                        sign ∈ lt|eq|gt   (the scheme's three-way routine)
                                        six bits (0/1)    (Version-level operators as dispatched)
                                        h ∈ 1|0|x         (hash equal / different / unhashable)
                                      | invalid

Usage:  /venv/bin/python -m harness.scheme_corr <scheme> [--n N] [--seed S] [--umodel PATH]
Exit status 0 = no disagreement.
"""
import importlib
import operator
import subprocess
import sys

from harness import common, schemes as S
from harness.common import hx, unhx

from univers import versions as V

OPS = [operator.eq, operator.ne, operator.lt, operator.le, operator.gt, operator.ge]


def impl_parse(name, s):
    try:
        v = S.vclass(name)(s)
    except V.InvalidVersion:
        return "invalid"
    except RecursionError:
        return "raise:RecursionError"
    except Exception as e:  # noqa: BLE001
        return "raise:" + type(e).__name__
    try:
        return "ok " + hx(str(v))
    except Exception as e:  # noqa: BLE001
        return "raise-str:" + type(e).__name__


def raw_sign(name):
    """optional per-scheme raw three-way function: harness/raw_<scheme>.py: sign(a_obj, b_obj) -> int"""
    try:
        m = importlib.import_module("harness.raw_%s" % name)
        return m.sign
    except ImportError:
        return None


def impl_cmp(name, a, b, rawf=None):
    try:
        A = S.vclass(name)(a)
        B = S.vclass(name)(b)
    except V.InvalidVersion:
        return "invalid"
    except Exception as e:  # noqa: BLE001
        return "raise:" + type(e).__name__
    bits = ""
    for f in OPS:
        try:
            bits += "1" if f(A, B) else "0"
        except Exception as e:  # noqa: BLE001
            bits += "E"
    try:
        h = "1" if hash(A) == hash(B) else "0"
    except TypeError:
        h = "x"
    except Exception:  # noqa: BLE001 — a hash that raises something else: reported as an operator error
        h = "E"
    if rawf is not None:
        try:
            r = rawf(A, B)
            sign = "lt" if r < 0 else ("gt" if r > 0 else "eq")
        except Exception as e:  # noqa: BLE001
            sign = "raise:" + type(e).__name__
    else:
        sign = "?"
    return "%s %s %s" % (sign, bits, h)


def agree_cmp(impl, model):
    """hash: the model speaks about hash KEYS: equal keys must give equal hashes (1 vs 1);
    different keys normally give different hashes but a collision is not a disagreement."""
    if impl == model:
        return True
    pi, pm = impl.split(" "), model.split(" ")
    if len(pi) != 3 or len(pm) != 3:
        return False
    if pi[0] != "?" and pi[0] != pm[0]:
        return False
    if pi[1] != pm[1]:
        return False
    if pi[2] == pm[2]:
        return True
    if pm[2] == "0" and pi[2] == "1":
        return True     # hash collision of different keys
    return False


MUT_CHARS = list(".-_+~:^!*<>=|, \t") + list("0123456789") + list("abzAZrv") + ["é", "²", "٣"]


def mutate(s, rng):
    if not s:
        return rng.choice(MUT_CHARS)
    r = rng.random()
    i = rng.randrange(len(s))
    if r < 0.25:
        return s[:i] + s[i + 1:]
    if r < 0.5:
        return s[:i] + rng.choice(MUT_CHARS) + s[i:]
    if r < 0.65:
        return s[:i] + s[i] + s[i:]
    if r < 0.8:
        j = rng.randrange(len(s))
        l = list(s)
        l[i], l[j] = l[j], l[i]
        return "".join(l)
    if r < 0.9:
        return s[:i] + rng.choice(MUT_CHARS) + s[i + 1:]
    return s + rng.choice(["", ".", "-", "+", "~", " ", ".0", "-r", "_p"])


def bump_number(s, rng):
    """move one run of digits (the last one, mostly) by a small amount"""
    import re
    runs = [m.span() for m in re.finditer(r"[0-9]+", s)]
    if not runs:
        return s
    i, j = runs[-1] if rng.random() < 0.6 else rng.choice(runs)
    if j - i > 18:
        return s
    v = int(s[i:j]) + rng.choice([1, 2, 2, 3, 5, 10, -1, -2])
    return s[:i] + str(max(v, 0)) + s[j:]


PURE = {}      # scheme -> strings that came straight from the documented-grammar generator


def gen_strings(name, rng, n, ascii_only=True):
    out = []
    pure = PURE.setdefault(name, set())
    for _ in range(n):
        s = S.GEN[name](rng)
        r = rng.random()
        if r < 0.55:
            out.append(s)
            pure.add(s)
        elif r < 0.75:
            try:
                out.append(S.RESPELL[name](s, rng))
            except Exception:  # noqa: BLE001
                out.append(s)
        else:
            t = s
            for _ in range(rng.randint(1, 3)):
                t = mutate(t, rng)
            out.append(t)
    out += ["", " ", "v", "0", "1", "1.0", "1.0.0", "a", "-", ".", "1.", ".1", "1..2", "01", "1.01", "1-", "-1", "1:", ":1", "v1", "V1.2.3", " 1 . 2 "]
    if ascii_only:
        out = [s for s in out if all(ord(c) < 128 for c in s)]
    return out


def gen_pairs(name, rng, n):
    pairs = []
    pool = []
    for _ in range(max(20, n // 20)):
        try:
            s, _ = S.gen_valid(name, rng)
            pool.append(s)
        except RuntimeError:
            break
    for _ in range(n):
        r = rng.random()
        try:
            a, _ = S.gen_valid(name, rng)
        except RuntimeError:
            continue
        if r < 0.30:
            try:
                b = S.RESPELL[name](a, rng)
            except Exception:  # noqa: BLE001
                b = a
        elif r < 0.38:
            # equal up to spelling, then one numeric field (mostly the last) moved by a small amount
            try:
                b = S.RESPELL[name](a, rng)
            except Exception:  # noqa: BLE001
                b = a
            b = bump_number(b, rng)
            if rng.random() < 0.3:
                a = bump_number(a, rng)
        elif r < 0.47:
            # a version against what is left of it when a tail is cut at a separator (1.0.1-beta2 / 1.0.1, 1.2.3+b / 1.2.3)
            cuts = [i for i, ch in enumerate(a) if ch in "-+~_^" and i > 0]
            if not cuts or rng.random() < 0.2:
                cuts += [i for i, ch in enumerate(a) if ch == "." and i > 0]
            if not cuts:
                b = mutate(a, rng)
            else:
                i = rng.choice(cuts)
                b = a[:i]
                q = rng.random()
                if q < 0.3:
                    # ... or when one separator is exchanged for another (1.0~rc1 / 1.0^rc1, 2.0 / 2_0)
                    b = a[:i] + rng.choice([c for c in "-+~_^." if c != a[i]]) + a[i + 1:]
                elif q < 0.65:
                    # ... or when the tail is replaced by a short one (1-2-1 / 1-10, 1.0~rc1 / 1.0~2)
                    b = a[:i + 1] + rng.choice(["0", "1", "2", "10", "3", "01", "a", "rc1", "1.1", "0.5"])
        elif r < 0.5:
            b = mutate(a, rng)
        elif r < 0.56:
            # one digit run written with a leading zero (equal where the scheme reads a number, another version where
            # it reads text)
            import re
            runs = [m.start() for m in re.finditer(r"[0-9]+", a)]
            if runs:
                i = rng.choice(runs[-2:] + runs)
                b = a[:i] + "0" + a[i:]
            else:
                b = mutate(a, rng)
        elif r < 0.75 and pool:
            b = rng.choice(pool)
        else:
            try:
                b, _ = S.gen_valid(name, rng)
            except RuntimeError:
                b = a
        if rng.random() < 0.5:
            a, b = b, a
        pairs.append((a, b))
        if r < 0.38 and rng.random() < 0.5:
            # a burst: the same two versions again with one numeric field of one side moved (a routine that remembers
            # an answer under a key that leaves that field out gives the old answer)
            a2 = bump_number(a, rng)
            pairs.append((a2, b))
            pairs.append((a, bump_number(b, rng)))
            pairs.append((b, a2))
    pairs = [(a, b) for a, b in pairs if all(ord(c) < 128 for c in a + b)]
    return pairs


def run(name, n=2000, seed=0, umodel=None, verbose=True, structured=False, extra_strings=(), extra_pairs=()):
    rng = common.rng_for(seed, "scheme_corr", name)
    strings = list(extra_strings) + gen_strings(name, rng, n)
    pairs = list(extra_pairs) + gen_pairs(name, rng, n)
    dis = []
    lines = ["vparse %s %s" % (name, hx(s)) for s in strings] + \
            ["vcmp %s %s %s" % (name, hx(a), hx(b)) for a, b in pairs]
    exe = umodel or str(common.UMODEL)
    p = subprocess.run([exe], input="\n".join(lines) + "\n", stdout=subprocess.PIPE, stderr=subprocess.PIPE, text=True)
    if p.returncode != 0:
        raise common.Tooling("driver failed: " + p.stderr[-1000:])
    out = p.stdout.split("\n")[:-1]
    if len(out) != len(lines):
        raise common.Tooling("driver answered %d lines for %d" % (len(out), len(lines)))
    rawf = raw_sign(name)
    bad = 0
    stats = {"parse_ok": 0, "parse_invalid": 0, "parse_raise": 0, "cmp": 0, "cmp_eq": 0, "cmp_invalid": 0}
    for s, ans in zip(strings, out[:len(strings)]):
        impl = impl_parse(name, s)
        stats["parse_ok" if impl.startswith("ok") else ("parse_invalid" if impl == "invalid" else "parse_raise")] += 1
        if impl != ans:
            bad += 1
            dis.append({"kind": "parse", "a": s, "impl": impl, "model": ans})
            if bad <= 15 and verbose:
                print("PARSE MISMATCH %r: impl=%s model=%s" % (s, _show(impl), _show(ans)))
    for (a, b), ans in zip(pairs, out[len(strings):]):
        impl = impl_cmp(name, a, b, rawf)
        stats["cmp"] += 1
        if impl == "invalid" or impl.startswith("raise:"):
            stats["cmp_invalid"] += 1
        elif impl.split(" ")[1][0] == "1":
            stats["cmp_eq"] += 1
        if not agree_cmp(impl, ans):
            bad += 1
            dis.append({"kind": "cmp", "a": a, "b": b, "impl": impl, "model": ans})
            if bad <= 15 and verbose:
                print("CMP MISMATCH %r vs %r: impl=%s model=%s" % (a, b, impl, ans))
    if verbose:
        print("scheme=%s strings=%d pairs=%d %s mismatches=%d" % (name, len(strings), len(pairs), stats, bad))
    if structured:
        stats["strings"] = len(strings)
        stats["pairs"] = len(pairs)
        stats["sample_pair"] = list(pairs[len(extra_pairs)]) if len(pairs) > len(extra_pairs) else None
        stats["sample_answer"] = out[len(strings) + len(extra_pairs)] if len(pairs) > len(extra_pairs) else None
        return (1 if bad else 0), stats, dis
    return 1 if bad else 0


def _show(ans):
    if ans.startswith("ok "):
        return "ok %r" % unhx(ans[3:])
    return ans


if __name__ == "__main__":
    args = sys.argv[1:]
    name = args[0]
    n = int(args[args.index("--n") + 1]) if "--n" in args else 2000
    seed = int(args[args.index("--seed") + 1]) if "--seed" in args else 0
    um = args[args.index("--umodel") + 1] if "--umodel" in args else None
    sys.exit(run(name, n, seed, um))
