"""
Correspondence for the vers text layer: the real `VersionRange.from_string`, `str(range)`,
`range.to_dict()`, `VersionConstraint.split` and the Python `str` methods against the Lean
models `Univers/Text/Vers.lean` and `Univers/Text/Str.lean`, through the driver commands

    fromstr <hex text>       → ok:<scheme>:<items> | err:<ExcName> | raw:<scheme>:<raw items>
    tostr <scheme> <items>   → <hex of str(range)>
    todict <scheme> <items>  → <hex scheme> <hex comparator>:<hex version>,…
    csplit <hex>             → <hex comparator> <hex version>
    strop <op> <hex> [<hex>] → Python string helper

`<items>`: `-` or comma-separated `star` | `<cmpr>:<hex str(version)>`, compared as multisets
(the range constructor sorts with the scheme's order, the model answers in text order).
`raw:` is the answer for a scheme whose version class has no Layer-A model wired in the
driver: every raw item is `star`, `<cmpr>:<hex text handed to version_class>` or `!<ExcName>`
(the item itself is rejected, or it is a star inside a list); the harness then finishes the job
of the loop with the REAL version class (first exception in item order wins).

Usage:  /venv/bin/python -m harness.corr_textvers [--n N] [--seed S] [--umodel PATH]
Exit status 0 = no disagreement.
"""
import collections
import subprocess
import sys

from harness import common, schemes as S
from harness.common import hx, unhx

from univers import version_range as VR
from univers.version_constraint import VersionConstraint
from univers.version_range import RANGE_CLASS_BY_SCHEMES, VersionRange

CMPR_NAME = {">=": "ge", "<=": "le", "!=": "ne", "<": "lt", ">": "gt", "=": "eq"}
NAME_CMPR = {v: k for k, v in CMPR_NAME.items()}

ASCII_WS = "\t\n\x0b\x0c\r\x1c\x1d\x1e\x1f "
NON_ASCII = ["é", "İ", "K", "中", "\U0001f600", "ß"]


def gen_name_of(vclass):
    """harness.schemes generator name for a version class"""
    for name, (vc, _rc) in S.SCHEMES.items():
        if vc is vclass:
            return name
    for name, (vc, _rc) in S.SCHEMES.items():
        if issubclass(vclass, vc):
            return name
    return "generic"


def all_range_classes():
    out = {}
    for sch, rc in RANGE_CLASS_BY_SCHEMES.items():
        out[sch] = rc
    for _name, (_vc, rc) in S.SCHEMES.items():
        if rc is not None and rc.scheme not in out:
            out[rc.scheme] = rc
    return out


RANGE_CLASSES = all_range_classes()          # includes the unregistered alpine
REGISTERED = list(RANGE_CLASS_BY_SCHEMES)


# --------------------------------------------------------------------------- real side

def item_of(c):
    if c.comparator == "*":
        return "star"
    return "%s:%s" % (CMPR_NAME[c.comparator], hx(str(c.version)))


def canon(scheme, items):
    return "ok:%s:%s" % (scheme, ",".join(sorted(items)) if items else "-")


def impl_fromstr(t):
    try:
        r = VersionRange.from_string(t)
    except RecursionError:
        return "err:RecursionError"
    except Exception as e:  # noqa: BLE001
        return "err:" + type(e).__name__
    return canon(r.scheme, [item_of(c) for c in r.constraints])


def finish_raw(ans):
    """complete a `raw:` answer with the real version class"""
    _, scheme, body = ans.split(":", 2)
    vc = RANGE_CLASS_BY_SCHEMES[scheme].version_class
    items = []
    for it in body.split(","):
        if it.startswith("!"):
            return "err:" + it[1:]
        if it == "star":
            items.append("star")
            continue
        c, h = it.split(":")
        try:
            v = vc(unhx(h))
        except RecursionError:
            return "err:RecursionError"
        except Exception as e:  # noqa: BLE001
            return "err:" + type(e).__name__
        items.append("%s:%s" % (c, hx(str(v))))
    return canon(scheme, items)


def canon_model(ans):
    if ans.startswith("raw:"):
        return finish_raw(ans), True
    if ans.startswith("ok:"):
        _, scheme, body = ans.split(":", 2)
        return canon(scheme, [] if body == "-" else body.split(",")), False
    return ans, False


# --------------------------------------------------------------------------- generators

def ws(rng, p=0.5, hi=2):
    if rng.random() < p:
        return "".join(rng.choice(ASCII_WS) for _ in range(rng.randint(1, hi)))
    return ""


def sprinkle(rng, s, p):
    """insert whitespace at random positions"""
    out = []
    for ch in s:
        if rng.random() < p:
            out.append(rng.choice(ASCII_WS))
        out.append(ch)
    if rng.random() < p:
        out.append(rng.choice(ASCII_WS))
    return "".join(out)


def randcase(rng, s):
    r = rng.random()
    if r < 0.4:
        return s
    if r < 0.6:
        return s.upper()
    if r < 0.7:
        return s.capitalize()
    return "".join(c.upper() if rng.random() < 0.5 else c for c in s)


def gen_version_text(rng, scheme):
    rc = RANGE_CLASSES.get(scheme)
    g = gen_name_of(rc.version_class) if rc is not None else rng.choice(list(S.GEN))
    r = rng.random()
    if r < 0.75:
        try:
            return S.gen_valid(g, rng)[0]
        except RuntimeError:
            return S.GEN[g](rng)
    if r < 0.92:
        return S.GEN[g](rng)
    if r < 0.96:
        return S.RESPELL[g](S.GEN[g](rng), rng)
    return rng.choice(["", "v1", "1", "0", "x", "1..2", "1.0-", "None", "1/2", "a:b", "1:2-3", "*", "1*", "1=2",
                       "1<2", "=", "1.0'", '1.0"', "1\\2", "1\x002", "1\x7f"])


COMPS = ["", "", "", "=", ">=", "<=", "!=", "<", ">"]
ODD_COMPS = ["<=<", ">>", "=>", "!", "=!", "==", "=<", "><", "<>", "~", "^", "*", ">=*", "<*", "!==", ">=>=", "===",
             "<<", "=*"]


def gen_item(rng, scheme):
    r = rng.random()
    if r < 0.06:
        return rng.choice(["*", "*", "*x", "*1.0", ">=*", "**"])
    comp = rng.choice(COMPS) if rng.random() < 0.93 else rng.choice(ODD_COMPS)
    return comp + gen_version_text(rng, scheme)


def gen_vers(rng):
    """a mostly valid vers string with decorations and structure-aware mutations"""
    r = rng.random()
    if r < 0.88:
        scheme = rng.choice(REGISTERED)
    elif r < 0.92:
        scheme = "alpine"
    else:
        scheme = rng.choice(["", "foo", "npm2", "np m", "semver", "vers", "n:pm", "deb/", "generic", "pip", "*"])
    r = rng.random()
    if r < 0.07:
        items = ["*"]
    else:
        k = rng.choice([1, 1, 1, 2, 2, 2, 3, 3, 4, 5])
        items = [gen_item(rng, scheme) for _ in range(k)]
    # separators: stray / doubled / missing
    sep = "|"
    body = ""
    for i, it in enumerate(items):
        if i:
            q = rng.random()
            body += "||" if q < 0.04 else ("" if q < 0.05 else ("," if q < 0.06 else sep))
        body += it
    q = rng.random()
    if q < 0.10:
        body = "|" * rng.randint(1, 2) + body
    q = rng.random()
    if q < 0.10:
        body = body + "|" * rng.randint(1, 2)
    uri = "vers"
    q = rng.random()
    if q < 0.04:
        uri = rng.choice(["", "ver", "verss", "vers:", "pkg", "v e r s", "VERS "])
    colon = ":" if rng.random() < 0.97 else rng.choice(["", "::", ";", " "])
    slash = "/" if rng.random() < 0.97 else rng.choice(["", "//", "\\", ":"])
    t = randcase(rng, uri) + colon + randcase(rng, scheme) + slash + body
    # whitespace decoration
    q = rng.random()
    if q < 0.35:
        t = sprinkle(rng, t, rng.choice([0.05, 0.2, 0.6]))
    elif q < 0.45:
        t = ws(rng, 1.0) + t + ws(rng, 1.0)
    # character-level mutations
    q = rng.random()
    if q < 0.05 and t:
        i = rng.randrange(len(t))
        t = t[:i] + t[i + 1:]
    elif q < 0.09 and t:
        i = rng.randrange(len(t) + 1)
        t = t[:i] + rng.choice("|*:/<>=!'\"\\\x00\x7f~^,; ") + t[i:]
    elif q < 0.105 and t:
        i = rng.randrange(len(t) + 1)
        t = t[:i] + rng.choice(NON_ASCII) + t[i:]
    elif q < 0.115:
        t = rng.choice(["", " ", "\t\n", "\x1c", "vers", "vers:", "vers:/", "vers:npm", "vers:npm/", "vers:npm/|",
                        "vers:npm/||", ":", "/", "|", "*", "vers:npm/*|", "vers:npm/|*", "vers:npm/|*|*",
                        "vers:npm/*|*", "vers:npm/ * ", "vers:npm/|*junk", "vers:npm/1.0|*", "vers:npm/*|1.0",
                        "vers:npm/|*|1.0"])
    return t


SPECIAL = [
    "vers:npm/*|", "vers:npm/|*", "vers:npm/|*|*", "vers:npm/|*|*|", "vers:npm/1.0|*", "vers:npm/|*|1.0",
    "vers:npm/|*junk", "vers:npm/*", "vers:npm/ * ", "vers:npm/**", "vers:npm/1.0'\"", "vers:npm/1.0'",
    "vers:npm/1.0\\", "vers:npm/1.0\x00", "vers:npm/1.\x1c0", "vers:npm/1.0\x7f", "vers:npm/|||", "vers:npm/",
    "vers:npm", "vers", "VERS:NPM/1.0", "vers:npm/<=<1", "vers:npm/>>1", "vers:npm/=>1", "vers:npm/!1",
    "vers:npm/>=", "vers:npm/1||2", "ve rs : n pm / > = 1 . 0 | < 2", "vers:npm:x/1.0", "vers:/1",
    "vers:alpine/1.0", "vers:npm/1.0/2", "vers:deb/1.0/2|*", "vers:npm/=*", "vers:npm/<*", "\x1c", " ", "",
    "vers:npm/é", "vers:npm/1K", "İers:npm/1", "vers:npm/1.0 ", "vers:npm/1.0|1.0",
    "vers:npm/>1|<1", "vers:gem/1.0|*", "vers:pypi/1.0|*", "vers:maven/1.0|*", "vers:nuget/*|*",
    "vers:conan/|*|*", "vers:npm/=1.0", "vers:npm/==1.0", "vers:npm/=", "vers:npm/*|*",
    "vers:npm/|*|", "vers:npm/||*||", "vers:npm/|", "vers:npm/||", "vers:npm/1.0|*junk", "vers:npm/*junk",
    "vers:npm/|1.0|", "vers:npm/||1.0|2.0||", "vers:alpine/1.0|>2.0_rc1", "vers:alpine/*",
]


def gen_strop(rng):
    alphabet = "ab1AZz.|*:/<>=! '\"\\_-" + ASCII_WS + "\x00\x7f\x1b"
    n = rng.choice([0, 1, 2, 3, 5, 8, 13])
    s = "".join(rng.choice(alphabet) for _ in range(n))
    if rng.random() < 0.08:
        i = rng.randrange(len(s) + 1)
        s = s[:i] + rng.choice(NON_ASCII + [" ", " ", "\u0085"]) + s[i:]
    return s


def strop_case(rng):
    s = gen_strop(rng)
    op = rng.choice(["removespaces", "splitws", "strip", "lstrip", "rstrip", "lower", "upper", "isascii", "isdigit",
                     "lstripset", "rstripset", "stripset", "startswith", "endswith", "partition", "split", "join"])
    ascii_only = all(ord(c) < 128 for c in s)
    if op in ("lower", "upper") and not ascii_only:
        op = "isascii"
    if op == "isdigit":
        if rng.random() < 0.6:
            s = "".join(rng.choice("0123456789") for _ in range(rng.randint(0, 4))) + (
                "" if rng.random() < 0.7 else rng.choice("a -."))
        if not ascii_only:
            op = "isascii"

    def hl(parts):
        return ",".join(hx(p) for p in parts) if parts else "[]"

    if op == "removespaces":
        return "strop %s %s" % (op, hx(s)), hx("".join(s.split()))
    if op == "splitws":
        return "strop %s %s" % (op, hx(s)), hl(s.split())
    if op == "strip":
        return "strop %s %s" % (op, hx(s)), hx(s.strip())
    if op == "lstrip":
        return "strop %s %s" % (op, hx(s)), hx(s.lstrip())
    if op == "rstrip":
        return "strop %s %s" % (op, hx(s)), hx(s.rstrip())
    if op == "lower":
        return "strop %s %s" % (op, hx(s)), hx(s.lower())
    if op == "upper":
        return "strop %s %s" % (op, hx(s)), hx(s.upper())
    if op == "isascii":
        return "strop %s %s" % (op, hx(s)), "1" if len(s) + 2 == len(ascii(s)) else "0"
    if op == "isdigit":
        return "strop %s %s" % (op, hx(s)), "1" if s.isdigit() else "0"
    chars = "".join(rng.choice("|<>=!* a") for _ in range(rng.randint(1, 3)))
    if op == "lstripset":
        return "strop %s %s %s" % (op, hx(s), hx(chars)), hx(s.lstrip(chars))
    if op == "rstripset":
        return "strop %s %s %s" % (op, hx(s), hx(chars)), hx(s.rstrip(chars))
    if op == "stripset":
        return "strop %s %s %s" % (op, hx(s), hx(chars)), hx(s.strip(chars))
    pre = s[:rng.randint(0, 2)] if rng.random() < 0.6 else chars
    if op == "startswith":
        return "strop %s %s %s" % (op, hx(s), hx(pre)), "1" if s.startswith(pre) else "0"
    if op == "endswith":
        suf = s[len(s) - rng.randint(0, min(2, len(s))):] if rng.random() < 0.6 else chars
        return "strop %s %s %s" % (op, hx(s), hx(suf)), "1" if s.endswith(suf) else "0"
    sep = rng.choice(["|", ":", "/", " ", "a", "||", " - ", "ab", "=="])
    if op == "partition":
        a, m, b = s.partition(sep)
        one = "%s %s %s" % (hx(a), hx(m), hx(b))
        return "strop %s %s %s" % (op, hx(s), hx(sep)), one + " " + one
    if op == "split":
        one = hl(s.split(sep))
        return "strop %s %s %s" % (op, hx(s), hx(sep)), one + " " + one
    # join: the fields of s.split(",") joined with sep
    s = s.replace("\\", ",")
    return "strop join %s %s" % (hx(s), hx(sep)), hx(sep.join(s.split(",")))


def csplit_case(rng):
    r = rng.random()
    if r < 0.7:
        comp = rng.choice(COMPS + ODD_COMPS)
        v = rng.choice(["1", "1.0", "2.3", "", "a", "1=", "=1", "<1", "*", "1*", "!1"])
        s = comp + v
    else:
        s = "".join(rng.choice("<>=!*1a. ") for _ in range(rng.randint(0, 6)))
    if rng.random() < 0.3:
        s = sprinkle(rng, s, 0.3)
    c, v = VersionConstraint.split(s)
    return "csplit %s" % hx(s), "%s %s" % (hx(c), hx(v))


def tostr_case(rng):
    """a real range object built from valid versions: `str` and `to_dict` against the model"""
    scheme = rng.choice(list(RANGE_CLASSES))
    rc = RANGE_CLASSES[scheme]
    vc = rc.version_class
    g = gen_name_of(vc)
    if rng.random() < 0.08:
        cons = [VersionConstraint(comparator="*", version_class=vc)]
    else:
        cons = []
        for _ in range(rng.choice([1, 1, 2, 2, 3, 4])):
            try:
                _s, v = S.gen_valid(g, rng)
            except RuntimeError:
                continue
            cons.append(VersionConstraint(comparator=rng.choice(list(CMPR_NAME)), version=v))
        if not cons:
            return None
    try:
        r = rc(constraints=cons)
        text = str(r)
        d = r.to_dict()
        items = [item_of(c) for c in r.constraints]
    except Exception:  # noqa: BLE001   (an order defect of the scheme: not this layer's business)
        return None
    its = ",".join(items) if items else "-"
    dd = ",".join("%s:%s" % (hx(e["comparator"]), hx(e["version"])) for e in d["constraints"]) or "-"
    return [("tostr %s %s" % (r.scheme, its), hx(text)),
            ("todict %s %s" % (r.scheme, its), "%s %s" % (hx(d["scheme"]), dd))]


# --------------------------------------------------------------------------- run

def run(n=3000, seed=0, umodel=None, verbose=True):
    exe = umodel or str(common.UMODEL)
    rng = common.rng_for(seed, "corr_textvers")
    lines, expect, kind, shown = [], [], [], []

    def add(line, exp, k, show):
        lines.append(line)
        expect.append(exp)
        kind.append(k)
        shown.append(show)

    texts = list(SPECIAL) + [gen_vers(rng) for _ in range(n)]
    for t in texts:
        add("fromstr " + hx(t), impl_fromstr(t), "fromstr", t)
    for _ in range(max(200, n // 2)):
        line, exp = strop_case(rng)
        add(line, exp, "strop", line)
    for _ in range(max(200, n // 4)):
        line, exp = csplit_case(rng)
        add(line, exp, "csplit", unhx(line.split()[1]))
    for _ in range(max(200, n // 4)):
        cs = tostr_case(rng)
        for line, exp in cs or []:
            add(line, exp, line.split()[0], line)

    p = subprocess.run([exe], input="\n".join(lines) + "\n", stdout=subprocess.PIPE, stderr=subprocess.PIPE,
                       text=True, timeout=3600)
    if p.returncode != 0:
        raise common.Tooling("model driver failed rc=%s: %s" % (p.returncode, p.stderr[-2000:]))
    out = p.stdout.split("\n")
    if out and out[-1] == "":
        out.pop()
    if len(out) != len(lines):
        raise common.Tooling("model driver answered %d lines for %d" % (len(out), len(lines)))

    stats = collections.Counter()
    dis = []
    for line, exp, k, show, ans in zip(lines, expect, kind, shown, out):
        stats["n_" + k] += 1
        if k == "fromstr":
            got, was_raw = canon_model(ans)
            if was_raw:
                stats["fromstr_stub_completed"] += 1
            key = exp.split(":")[0] if exp.startswith("ok:") else exp
            stats["impl_" + key] += 1
        else:
            got = ans
        if got != exp:
            dis.append({"kind": k, "input": show, "line": line, "impl": exp, "model": got, "raw_model": ans})
    stats["disagreements"] = len(dis)
    if verbose:
        for d in dis[:15]:
            print("DISAGREE [%s] %r\n   impl : %s\n   model: %s%s" % (
                d["kind"], d["input"], d["impl"], d["model"],
                "" if d["model"] == d["raw_model"] else "\n   raw  : " + d["raw_model"]))
        summ = " ".join("%s=%d" % kv for kv in sorted(stats.items()))
        print("corr_textvers seed=%d: %s" % (seed, summ))
    return (1 if dis else 0), dict(stats), dis


def main(argv):
    n = int(argv[argv.index("--n") + 1]) if "--n" in argv else 3000
    seed = int(argv[argv.index("--seed") + 1]) if "--seed" in argv else common.seed_from_env()
    um = argv[argv.index("--umodel") + 1] if "--umodel" in argv else None
    rc, _stats, _dis = run(n=n, seed=seed, umodel=um)
    return rc


if __name__ == "__main__":
    sys.exit(main(sys.argv[1:]))
