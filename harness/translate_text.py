"""
Translator, part 4: the TEXT functions of the vers notation.  `remove_spaces` (utils.py),
`VersionConstraint.split`, `.from_string`, `.__str__`, `.to_dict` (version_constraint.py) are translated,
statement by statement, into Lean definitions over the string run-time of `lean/Univers/Text/Str.lean`
(Python `str` methods on `List Char`) and written to `lean/Univers/Gen/PyText*.lean` on every run.  The
agreement theorems of `lean/Univers/Text/GenTextThm.lean` prove each equal to the hand-written model function
of `lean/Univers/Text/Vers.lean` that the theorems of C05, C13 and C16 are about.

Same machinery as `translate_layerb.py` (statements, `if`, `for` with early `return`, `raise`); what is
specific to text:

* a `str` is a `List Char`; a literal is written out character by character;
* `s.startswith(t)`, `s.lstrip(chars)`, `s.strip(chars)`, `s.strip()`, `s.lower()`, `s.split(c)`, `s.partition(c)`,
  `"".join(s.split())`, `not s`, `s == t` are the functions of `Text/Str.lean`;
* `len(s) + 2 == len(ascii(s))` is the printable-ASCII test `isAsciiRepr`;
* `COMPARATORS` (iteration, membership) is the table regenerated from /repo (`Gen.comparators`);
* `version_class(text)` is the parameter `mk` (the constructor of the scheme's version class, Layer A), a star
  constraint has no version, `cls(comparator=c, version=v, …)` is `mkTCon` (the comparator text looked up in the
  regenerated table, as `__attrs_post_init__` does).
"""
import ast

from harness import translate_layerb as L
from harness.translate_layerb import Unsupported, _src

L.LEAN_TYPE.update({
    "Dict": "List (List Char × Option (List Char))", "DictItem": "List Char × Option (List Char)", "OptPair": "Option (List Char) × List Char",
    "Cls": "String", "ClsOpt": "Option String", "VC": "String", "TRange": "String × List TCon",
    "Str": "List Char", "StrOpt": "Option (List Char)", "StrList": "List (List Char)", "StrPair": "List Char × List Char",
    "Str3": "List Char × List Char × List Char", "TCon": "TCon", "TConList": "List TCon", "Dict2": "List Char × List Char",
    "TRangeS": "List Char × List TCon", "Dict2List": "List (List Char × List Char)", "RangeDict": "List Char × List (List Char × List Char)",
})


def lit(s):
    return "[" + ", ".join("'%s'" % (c if c not in "'\\" else "\\" + c) for c in s) + "]" if s else "([] : List Char)"


class TextTr(L.Tr):
    hdr = "(mk : List Char → Except TErr (List Char))"
    hargs = "mk"
    err = "TErr"
    mkarg = "mk"

    def expr(self, node, env):
        fn = self.fn
        if isinstance(node, ast.Constant) and isinstance(node.value, str):
            return lit(node.value), "Str", True
        if isinstance(node, ast.Constant) and node.value is None:
            return "none", "None", True
        if isinstance(node, ast.Name):
            if node.id == "COMPARATORS":
                return "comparatorTexts", "StrList", True
            if node.id not in env:
                raise Unsupported("unknown name %s" % node.id)
            return node.id, env[node.id], True
        if isinstance(node, ast.Tuple) and len(node.elts) == 2:
            a, at, ap = self.expr(node.elts[0], env)
            b, bt, bp = self.expr(node.elts[1], env)
            if at == bt == "Str" and ap and bp and self.fn.ret != "OptPair":
                return "(%s, %s)" % (a, b), "StrPair", True
            if at in ("StrOpt", "Str") and bt == "Str" and ap and bp:
                return "(%s, %s)" % (a if at == "StrOpt" else "some %s" % a, b), "OptPair", True
        if isinstance(node, ast.Dict) and all(isinstance(k, ast.Constant) and isinstance(v, ast.Constant) and isinstance(k.value, str)
                                              and isinstance(v.value, str) for k, v in zip(node.keys, node.values)):
            return "[" + ", ".join("(%s, some %s)" % (lit(k.value), lit(v.value)) for k, v in zip(node.keys, node.values)) + "]", "Dict", True
        if isinstance(node, ast.Attribute) and node.attr == "version_class" and isinstance(node.value, ast.Name) and env.get(node.value.id) == "Cls":
            return "(versionClassOfE %s)" % node.value.id, "VC", False
        if isinstance(node, ast.List) and not node.elts:
            return "([] : List TCon)", "TConList", True
        if isinstance(node, ast.Call) and isinstance(node.func, ast.Name) and node.func.id == "isinstance":
            return "true", "Bool", True
        if isinstance(node, ast.Attribute) and isinstance(node.value, ast.Name) and env.get(node.value.id) == "TCon":
            if node.attr == "comparator":
                return "(tconComparator %s)" % node.value.id, "Str", True
            if node.attr == "version":
                return "(tconVersion %s)" % node.value.id, "StrOpt", True
        if isinstance(node, ast.UnaryOp) and isinstance(node.op, ast.Not):
            t, ty, pure = self.truth(node.operand, env)
            if pure:
                return "(!%s)" % t, "Bool", True
            raise Unsupported("negation of an effectful expression")
        if isinstance(node, ast.BoolOp):
            parts = [self.truth(v, env) for v in node.values]
            if all(p[2] for p in parts):
                return "(" + (" && " if isinstance(node.op, ast.And) else " || ").join(p[0] for p in parts) + ")", "Bool", True
            raise Unsupported("effectful operand of and/or")
        if isinstance(node, ast.Compare) and len(node.ops) == 1:
            left, op, right = node.left, node.ops[0], node.comparators[0]
            # len(x) + 2 == len(ascii(x))
            if isinstance(op, ast.Eq) and _src(left).startswith("len(") and "ascii(" in _src(right):
                m = _ascii_idiom(node)
                if m is not None:
                    t, ty, p = self.expr(m, env)
                    if ty == "Str" and p:
                        return "(isAsciiRepr %s)" % t, "Bool", True
            if isinstance(right, ast.Name) and right.id == "COMPARATORS" and isinstance(op, (ast.In, ast.NotIn)):
                t, ty, p = self.expr(left, env)
                if ty == "Str" and p:
                    return ("(!(inComparators %s))" if isinstance(op, ast.NotIn) else "(inComparators %s)") % t, "Bool", True
            lt_, lty, lp = self.expr(left, env)
            rt_, rty, rp = self.expr(right, env)
            if lty == rty == "Str" and lp and rp and isinstance(op, (ast.Eq, ast.NotEq)):
                return "(%s %s %s)" % (lt_, "==" if isinstance(op, ast.Eq) else "!=", rt_), "Bool", True
            raise Unsupported("comparison " + _src(node))
        if isinstance(node, ast.Call):
            f = node.func
            # "".join(x.split())
            if isinstance(f, ast.Attribute) and f.attr == "join" and isinstance(f.value, ast.Constant) and f.value.value == "" \
                    and len(node.args) == 1 and isinstance(node.args[0], ast.Call) and isinstance(node.args[0].func, ast.Attribute) \
                    and node.args[0].func.attr == "split" and not node.args[0].args:
                t, ty, p = self.expr(node.args[0].func.value, env)
                if ty == "Str" and p:
                    return "(concat (splitWs %s))" % t, "Str", True
            if isinstance(f, ast.Name) and f.id == "remove_spaces" and len(node.args) == 1:
                t, ty, p = self.expr(node.args[0], env)
                if ty == "Str" and p:
                    return "(py_remove_spaces %s %s)" % (self.mkarg, t), "Str", False
            if isinstance(f, ast.Name) and f.id == "str" and len(node.args) == 1:
                t, ty, p = self.expr(node.args[0], env)
                if ty == "Str":
                    return t, "Str", p
                if ty == "StrOpt" and p:
                    return "(strOfOpt %s)" % t, "Str", True
            if isinstance(f, ast.Name) and f.id == "dict" and not node.args and [k.arg for k in node.keywords] == ["comparator", "version"]:
                a, at, ap = self.expr(node.keywords[0].value, env)
                b, bt, bp = self.expr(node.keywords[1].value, env)
                if at == bt == "Str" and ap and bp:
                    return "(%s, %s)" % (a, b), "Dict2", True
            if isinstance(f, ast.Name) and f.id == "version_class" and len(node.args) == 1:
                t, ty, p = self.expr(node.args[0], env)
                if ty == "Str" and p:
                    return "(mk %s)" % t, "Str", False
            if isinstance(f, ast.Name) and f.id == "cls" and not node.args:
                kw = {k.arg: k.value for k in node.keywords}
                if set(kw) == {"comparator", "version", "version_class"}:
                    ct, cty, cp = self.expr(kw["comparator"], env)
                    vt, vty, vp = self.expr(kw["version"], env)
                    if cty == "Str" and vty == "StrOpt" and cp and vp:
                        return "(mkTCon %s %s)" % (ct, vt), "TCon", False
            if isinstance(f, ast.Attribute) and isinstance(f.value, ast.Name) and f.value.id == "cls" and f.attr == "split" \
                    and len(node.args) == 1:
                t, ty, p = self.expr(node.args[0], env)
                if ty == "Str" and p:
                    return "(vc_split %s %s)" % (self.mkarg, t), "StrPair", False
            if isinstance(f, ast.Attribute) and f.attr == "items" and not node.args:
                t, ty, p = self.expr(f.value, env)
                if ty == "Dict" and p:
                    return t, "Dict", True
            if isinstance(f, ast.Attribute) and f.attr == "get" and isinstance(f.value, ast.Name) and f.value.id == "RANGE_CLASS_BY_SCHEMES" \
                    and len(node.args) == 1:
                t, ty, p = self.expr(node.args[0], env)
                if ty == "Str" and p:
                    return "(registryL.lookup %s)" % t, "ClsOpt", True
            if isinstance(f, ast.Attribute) and f.attr == "from_string" and isinstance(f.value, ast.Name) and f.value.id == "VersionConstraint":
                kw = {k.arg: k.value for k in node.keywords}
                if set(kw) == {"string", "version_class"} and not node.args:
                    st, sty, sp = self.expr(kw["string"], env)
                    vt, vty, vp = self.expr(kw["version_class"], env)
                    if sty == "Str" and vty == "VC" and sp and vp:
                        return "(vc_from_string (mkVer %s) %s)" % (vt, st), "TCon", False
            if isinstance(f, ast.Attribute) and f.attr in ("simplify", "validate") and isinstance(f.value, ast.Name) \
                    and f.value.id == "VersionConstraint" and len(node.args) == 1:
                t, ty, p = self.expr(node.args[0], env)
                if ty == "TConList" and p:
                    return ("(simpT %s)" % t, "TConList", False) if f.attr == "simplify" else ("(valT %s)" % t, "Bool", False)
            if isinstance(f, ast.Attribute) and f.attr == "is_star" and not node.args:
                t, ty, p = self.expr(f.value, env)
                if ty == "TCon" and p:
                    return "(Con.isStar %s)" % t, "Bool", True
            if isinstance(f, ast.Name) and env.get(f.id) == "Cls" and len(node.args) == 1 and not node.keywords:
                # range_class(constraints): the range, as (class name, constraints)
                a = node.args[0]
                if isinstance(a, ast.List) and len(a.elts) == 1:
                    t, ty, p = self.expr(a.elts[0], env)
                    if ty == "TCon":
                        if p:
                            return "(%s, [%s])" % (f.id, t), "TRange", True
                        v = fn.tmp()
                        return "(%s >>= fun %s => .ok (%s, [%s]))" % (t, v, f.id, v), "TRange", False
                t, ty, p = self.expr(a, env)
                if ty == "TConList" and p:
                    return "(%s, %s)" % (f.id, t), "TRange", True
            if isinstance(f, ast.Attribute):
                t, ty, p = self.expr(f.value, env)
                if ty == "Str" and p and f.attr == "partition" and len(node.args) == 1 and isinstance(node.args[0], ast.Constant) \
                        and isinstance(node.args[0].value, str) and len(node.args[0].value) == 1:
                    return "(partitionChar '%s' %s)" % (node.args[0].value, t), "Str3", True
                if ty == "Str" and p and f.attr == "split" and len(node.args) == 1 and isinstance(node.args[0], ast.Constant) \
                        and isinstance(node.args[0].value, str) and len(node.args[0].value) == 1:
                    return "(splitChar '%s' %s)" % (node.args[0].value, t), "StrList", True
                if ty == "Str":
                    args = [self.expr(a, env) for a in node.args]
                    if all(a[1] == "Str" and a[2] for a in args):
                        a0 = args[0][0] if args else None
                        recv = t if p else fn.tmp()
                        out = None
                        if f.attr == "startswith" and len(args) == 1:
                            out = ("(startsWith %s %s)" % (recv, a0), "Bool")
                        elif f.attr == "lstrip" and len(args) == 1:
                            out = ("(lstripSet %s %s)" % (a0, recv), "Str")
                        elif f.attr == "strip" and len(args) == 1:
                            out = ("(stripSet %s %s)" % (a0, recv), "Str")
                        elif f.attr == "strip" and not args:
                            out = ("(stripWs %s)" % recv, "Str")
                        elif f.attr == "lower" and not args:
                            out = ("(lower %s)" % recv, "Str")
                        elif f.attr == "endswith" and len(args) == 1:
                            out = ("(endsWith %s %s)" % (recv, a0), "Bool")
                        elif f.attr == "rstrip" and len(args) == 1:
                            out = ("(rstripSet %s %s)" % (a0, recv), "Str")
                        if out is not None:
                            if p:
                                return out[0], out[1], True
                            return "(%s >>= fun %s => .ok %s)" % (t, recv, out[0]), out[1], False
            raise Unsupported("call " + _src(node))
        if isinstance(node, ast.JoinedStr):
            # f"{a}{b}": concatenation of strings
            parts = []
            for v in node.values:
                if isinstance(v, ast.Constant):
                    parts.append(lit(v.value))
                elif isinstance(v, ast.FormattedValue) and v.conversion == -1 and v.format_spec is None:
                    t, ty, p = self.expr(v.value, env)
                    if ty != "Str" or not p:
                        raise Unsupported("f-string part " + _src(v.value))
                    parts.append(t)
                else:
                    raise Unsupported("f-string " + _src(node))
            return "(" + " ++ ".join(parts) + ")", "Str", True
        raise Unsupported("expression " + _src(node))

    def truth(self, node, env):
        t, ty, pure = self.expr(node, env)
        if ty == "Bool":
            return t, ty, pure
        if ty == "Str" and pure:
            return "(!(%s).isEmpty)" % t, "Bool", True
        if ty == "ClsOpt" and pure:
            return "(%s).isSome" % t, "Bool", True
        if ty == "StrOpt" and pure:
            return "(truthyOpt %s)" % t, "Bool", True
        raise Unsupported("truth value of %s" % ty)

    def bind_target(self, target, ity, env):
        env2 = dict(env)
        if ity == "StrList" and isinstance(target, ast.Name):
            env2[target.id] = "Str"
            return env2, target.id
        if ity == "Dict" and isinstance(target, ast.Tuple) and len(target.elts) == 2:
            env2[target.elts[0].id] = "Str"
            env2[target.elts[1].id] = "StrOpt"
            return env2, "(%s, %s)" % (target.elts[0].id, target.elts[1].id)
        raise Unsupported("loop target %s over %s" % (_src(target), ity))


class RangeTextTr(TextTr):
    """`VersionRange.from_string`: the version classes are `mkVer` (class name -> constructor), sorting / simplifying /
    validating the parsed constraints are Layer B and are the parameters `sortT`, `simpT`, `valT`"""
    hdr = ("(mkVer : MkVer) (sortT simpT : List TCon → Except TErr (List TCon)) (valT : List TCon → Except TErr Bool)")
    hargs = "mkVer sortT simpT valT"
    mkarg = '(mkVer "")'     # `remove_spaces` takes no version class: any will do

    def block(self, stmts, env, fall):
        if stmts:
            s0, rest = stmts[0], stmts[1:]
            # `if not range_class: raise …` on an optional class: the rest sees the class
            if isinstance(s0, ast.If) and not s0.orelse and isinstance(s0.test, ast.UnaryOp) and isinstance(s0.test.op, ast.Not) \
                    and isinstance(s0.test.operand, ast.Name) and env.get(s0.test.operand.id) == "ClsOpt" \
                    and isinstance(s0.body[-1], ast.Raise):
                n = s0.test.operand.id
                env2 = dict(env)
                env2[n] = "Cls"
                return "match %s with\n| none =>\n%s\n| some %s =>\n%s" % (
                    n, L._ind(self.block(s0.body, env, fall)), n, L._ind(self.block(rest, env2, fall)))
            # xs.sort()
            if isinstance(s0, ast.Expr) and isinstance(s0.value, ast.Call) and isinstance(s0.value.func, ast.Attribute) \
                    and s0.value.func.attr == "sort" and isinstance(s0.value.func.value, ast.Name) \
                    and env.get(s0.value.func.value.id) == "TConList" and not s0.value.args:
                n = s0.value.func.value.id
                return "(sortT %s) >>= fun %s =>\n%s" % (n, n, self.block(rest, env, fall))
            # a call evaluated for its exception only: VersionConstraint.validate(xs)
            if isinstance(s0, ast.Expr) and isinstance(s0.value, ast.Call) and not (isinstance(s0.value.func, ast.Attribute)
                                                                                   and s0.value.func.attr in ("append", "sort")):
                t, ty, p = self.expr(s0.value, env)
                if not p:
                    return "%s >>= fun _ =>\n%s" % (t, self.block(rest, env, fall))
            # xs.append(x) for a list of constraints
            if isinstance(s0, ast.Expr) and isinstance(s0.value, ast.Call) and isinstance(s0.value.func, ast.Attribute) \
                    and s0.value.func.attr == "append" and isinstance(s0.value.func.value, ast.Name) \
                    and env.get(s0.value.func.value.id) == "TConList" and len(s0.value.args) == 1:
                n = s0.value.func.value.id
                t, ty, p = self.expr(s0.value.args[0], env)
                if ty == "TCon" and p:
                    return "let %s : List TCon := (%s ++ [%s])\n" % (n, n, t) + self.block(rest, env, fall)
        return super().block(stmts, env, fall)


class RangeStrTr(TextTr):
    """`VersionRange.__str__` and `.to_dict`: a range is its scheme and its constraint tuple; `sorted` is the Layer-B
    parameter `sortT`; `str(c)` and `c.to_dict()` are the translated methods of the constraint"""
    hdr = "(mk : List Char → Except TErr (List Char)) (sortT : List TCon → Except TErr (List TCon))"
    hargs = "mk sortT"

    def expr(self, node, env):
        fn = self.fn
        if isinstance(node, ast.Attribute) and isinstance(node.value, ast.Name) and env.get(node.value.id) == "TRangeS":
            if node.attr == "scheme":
                return "%s.1" % node.value.id, "Str", True
            if node.attr == "constraints":
                return "%s.2" % node.value.id, "TConList", True
        if isinstance(node, ast.Call):
            f = node.func
            if isinstance(f, ast.Name) and f.id == "sorted" and len(node.args) == 1 and not node.keywords:
                t, ty, p = self.expr(node.args[0], env)
                if ty == "TConList" and p:
                    return "(sortT %s)" % t, "TConList", False
            # sep.join(str(c) for c in xs)
            if isinstance(f, ast.Attribute) and f.attr == "join" and isinstance(f.value, ast.Constant) and isinstance(f.value.value, str) \
                    and len(node.args) == 1 and isinstance(node.args[0], (ast.GeneratorExp, ast.ListComp)):
                g = node.args[0]
                if len(g.generators) == 1 and not g.generators[0].ifs and isinstance(g.generators[0].target, ast.Name) \
                        and isinstance(g.elt, ast.Call) and isinstance(g.elt.func, ast.Name) and g.elt.func.id == "str" \
                        and len(g.elt.args) == 1 and isinstance(g.elt.args[0], ast.Name) and g.elt.args[0].id == g.generators[0].target.id:
                    t, ty, p = self.expr(g.generators[0].iter, env)
                    if ty == "TConList":
                        v, w = fn.tmp(), fn.tmp()
                        src = ".ok %s" % t if p else t
                        return ("(%s >>= fun %s => (%s.mapM (fun c => vc_str mk c)) >>= fun %s => .ok (join %s %s))"
                                % (src, v, v, w, lit(f.value.value), w)), "Str", False
            if isinstance(f, ast.Name) and f.id == "dict" and not node.args and [k.arg for k in node.keywords] == ["scheme", "constraints"]:
                a, at, ap = self.expr(node.keywords[0].value, env)
                b, bt, bp = self.expr(node.keywords[1].value, env)
                if at == "Str" and bt == "Dict2List" and ap and bp:
                    return "(%s, %s)" % (a, b), "RangeDict", True
        if isinstance(node, ast.ListComp) and len(node.generators) == 1 and not node.generators[0].ifs \
                and isinstance(node.generators[0].target, ast.Name) and isinstance(node.elt, ast.Call) \
                and isinstance(node.elt.func, ast.Attribute) and node.elt.func.attr == "to_dict" and not node.elt.args \
                and isinstance(node.elt.func.value, ast.Name) and node.elt.func.value.id == node.generators[0].target.id:
            t, ty, p = self.expr(node.generators[0].iter, env)
            if ty == "TConList" and p:
                return "(%s.mapM (fun c => vc_to_dict mk c))" % t, "Dict2List", False
        return super().expr(node, env)


class AdvTr(RangeTextTr):
    """The advisory converters (`build_constraint_from_github_advisory_string`, `build_range_from_github_advisory_constraint`,
    `build_range_from_snyk_advisory_string`): the scheme is looked up in the regenerated registry, the two comparator
    dicts are the regenerated tables, a `str`-or-list argument is the list (a single string is the one-element list)."""
    hdr = "(mkVer : MkVer)"
    hargs = "mkVer"
    mkarg = '(mkVer "")'
    DICTS = {"vers_by_github_native_comparators": "Advisory.githubDict", "vers_by_snyk_native_comparators": "Advisory.snykDict"}

    def expr(self, node, env):
        fn = self.fn
        if isinstance(node, ast.Subscript) and isinstance(node.value, ast.Name) and node.value.id == "RANGE_CLASS_BY_SCHEMES":
            t, ty, p = self.expr(node.slice, env)
            if ty == "Str" and p:
                return "(registryIndex %s)" % t, "Cls", False
        if isinstance(node, ast.Name) and node.id in self.DICTS and node.id not in env:
            return self.DICTS[node.id], "Dict", True
        if isinstance(node, ast.List) and not node.elts:
            return "([] : List TCon)", "TConList", True
        if isinstance(node, ast.IfExp):
            c, cty, cp = self.truth(node.test, env)
            a, at, ap = self.expr(node.body, env)
            b, bt, bp = self.expr(node.orelse, env)
            if cp and ap and bp and at == bt == "Str":
                return "(if %s then %s else %s)" % (c, a, b), "Str", True
        if isinstance(node, ast.Compare) and len(node.ops) == 1 and isinstance(node.ops[0], (ast.In, ast.NotIn)) \
                and isinstance(node.left, ast.Constant) and isinstance(node.left.value, str) and len(node.left.value) == 1:
            t, ty, p = self.expr(node.comparators[0], env)
            if ty == "Str" and p:
                r = "(%s.contains '%s')" % (t, node.left.value)
                return (r if isinstance(node.ops[0], ast.In) else "(!%s)" % r), "Bool", True
        if isinstance(node, ast.Call):
            f = node.func
            kw = {k.arg: k.value for k in node.keywords}
            if isinstance(f, ast.Name) and f.id == "any" and len(node.args) == 1 and isinstance(node.args[0], ast.GeneratorExp):
                # any(c in x for c in "…")
                g = node.args[0]
                if len(g.generators) == 1 and not g.generators[0].ifs and isinstance(g.generators[0].iter, ast.Constant) \
                        and isinstance(g.generators[0].iter.value, str) and isinstance(g.generators[0].target, ast.Name) \
                        and isinstance(g.elt, ast.Compare) and len(g.elt.ops) == 1 and isinstance(g.elt.ops[0], ast.In) \
                        and isinstance(g.elt.left, ast.Name) and g.elt.left.id == g.generators[0].target.id:
                    t, ty, p = self.expr(g.elt.comparators[0], env)
                    if ty == "Str" and p:
                        return "(anyCharIn %s %s)" % (lit(g.generators[0].iter.value), t), "Bool", True
            if isinstance(f, ast.Name) and f.id == "split_req" and not node.args and {"string", "comparators"} <= set(kw) \
                    and set(kw) <= {"string", "comparators", "default", "strip"}:
                st, sty, sp = self.expr(kw["string"], env)
                dt, dty, dp = self.expr(kw["comparators"], env)
                df, dfty, dfp = self.expr(kw["default"], env) if "default" in kw else ("none", "None", True)
                sr, srty, srp = self.expr(kw["strip"], env) if "strip" in kw else (lit(""), "Str", True)
                if dfty == "Str":
                    df, dfty = "(some %s)" % df, "StrOpt"
                if sty == "Str" and dty == "Dict" and dfty in ("None", "StrOpt") and srty == "Str" and sp and dp and dfp and srp:
                    return "(py_split_req %s %s %s %s %s)" % (self.mkarg, st, dt, df, sr), "OptPair", False
            if isinstance(f, ast.Name) and f.id == "split_req_bracket_notation" and not node.args and set(kw) == {"string"}:
                st, sty, sp = self.expr(kw["string"], env)
                if sty == "Str" and sp:
                    return "(py_split_req_bracket %s %s)" % (self.mkarg, st), "OptPair", False
            if isinstance(f, ast.Attribute) and f.attr == "version_class" and isinstance(f.value, ast.Name) \
                    and env.get(f.value.id) == "Cls" and len(node.args) == 1 and not kw:
                t, ty, p = self.expr(node.args[0], env)
                if ty == "Str" and p:
                    v = fn.tmp()
                    return "((versionClassOfE %s) >>= fun %s => mkVer %s %s)" % (f.value.id, v, v, t), "Str", False
            if isinstance(f, ast.Name) and f.id == "VersionConstraint" and not node.args and set(kw) == {"comparator", "version"}:
                ct, cty, cp = self.expr(kw["comparator"], env)
                vt, vty, vp = self.expr(kw["version"], env)
                if cty == "Str":
                    ct, cty = "(some %s)" % ct, "StrOpt"
                if cty == "StrOpt" and vty == "Str" and cp and vp:
                    return "(mkTConOpt %s %s)" % (ct, vt), "TCon", False
            if isinstance(f, ast.Name) and f.id == "build_constraint_from_github_advisory_string" and len(node.args) == 2 and not kw:
                a, at, ap = self.expr(node.args[0], env)
                b, bt, bp = self.expr(node.args[1], env)
                if at == bt == "Str" and ap and bp:
                    return "(py_github_constraint mkVer %s %s)" % (a, b), "TCon", False
            if isinstance(f, ast.Name) and env.get(f.id) == "Cls" and not node.args and set(kw) == {"constraints"}:
                t, ty, p = self.expr(kw["constraints"], env)
                if ty == "TConList" and p:
                    return "(%s, %s)" % (f.id, t), "TRange", True
            if isinstance(f, ast.Attribute) and f.attr == "replace" and len(node.args) == 2 and not kw \
                    and all(isinstance(a, ast.Constant) and isinstance(a.value, str) for a in node.args) \
                    and len(node.args[0].value) == 1 and node.args[1].value == "":
                t, ty, p = self.expr(f.value, env)
                if ty == "Str" and p:
                    return "(removeChar '%s' %s)" % (node.args[0].value, t), "Str", True
        return super().expr(node, env)

    def block(self, stmts, env, fall):
        if stmts:
            s0, rest = stmts[0], stmts[1:]
            # `if isinstance(x, str): x = [x]`: decided by the type the argument is translated at
            if isinstance(s0, ast.If) and isinstance(s0.test, ast.Call) and isinstance(s0.test.func, ast.Name) \
                    and s0.test.func.id == "isinstance" and len(s0.test.args) == 2 and isinstance(s0.test.args[0], ast.Name) \
                    and isinstance(s0.test.args[1], ast.Name) and s0.test.args[1].id == "str" and s0.test.args[0].id in env:
                taken = s0.body if env[s0.test.args[0].id] == "Str" else (s0.orelse or [])
                return self.block(list(taken) + rest, env, fall)
            # xs = []: a list of constraints held as text
            if isinstance(s0, ast.Assign) and len(s0.targets) == 1 and isinstance(s0.targets[0], ast.Name) \
                    and isinstance(s0.value, ast.List) and not s0.value.elts:
                env2 = dict(env)
                env2[s0.targets[0].id] = "TConList"
                return "let %s : List TCon := ([] : List TCon)\n" % s0.targets[0].id + self.block(rest, env2, fall)
            # xs.append(<effectful constraint>)
            if isinstance(s0, ast.Expr) and isinstance(s0.value, ast.Call) and isinstance(s0.value.func, ast.Attribute) \
                    and s0.value.func.attr == "append" and isinstance(s0.value.func.value, ast.Name) \
                    and env.get(s0.value.func.value.id) == "TConList" and len(s0.value.args) == 1:
                n = s0.value.func.value.id
                t, ty, p = self.expr(s0.value.args[0], env)
                if ty == "TCon" and not p:
                    v = self.fn.tmp()
                    return "%s >>= fun %s =>\nlet %s : List TCon := (%s ++ [%s])\n" % (t, v, n, n, v) + self.block(rest, env, fall)
        return super().block(stmts, env, fall)


class RelTr(AdvTr):
    """The relation converters of `DebianVersionRange` and `RpmVersionRange` (`split`, `build_constraint_from_string`,
    `from_native`, `from_natives`): `cls` is the class being translated (its `vers_by_native_comparators` is the
    regenerated table of that class, its `version_class` the parameter `mk`), the range built is its constraint list."""
    hdr = "(mk : List Char → Except TErr (List Char))"
    hargs = "mk"
    mkarg = "mk"
    clsname = None
    prefix = None

    def expr(self, node, env):
        fn = self.fn
        is_cls = lambda n: isinstance(n, ast.Name) and n.id == "cls" and "cls" not in env   # noqa: E731
        if isinstance(node, ast.Attribute) and is_cls(node.value) and node.attr == "vers_by_native_comparators":
            return '(nativeDictE "%s")' % self.clsname, "Dict", False
        if isinstance(node, ast.Call):
            f = node.func
            kw = {k.arg: k.value for k in node.keywords}
            if isinstance(f, ast.Name) and f.id == "split_req" and not node.args and {"string", "comparators"} <= set(kw) \
                    and set(kw) <= {"string", "comparators", "default", "strip"}:
                dt, dty, dp = self.expr(kw["comparators"], env)
                if dty == "Dict" and not dp:
                    st, sty, sp = self.expr(kw["string"], env)
                    df, dfty, dfp = self.expr(kw["default"], env) if "default" in kw else ("none", "None", True)
                    sr, srty, srp = self.expr(kw["strip"], env) if "strip" in kw else (lit(""), "Str", True)
                    if dfty == "Str":
                        df, dfty = "(some %s)" % df, "StrOpt"
                    if sty == "Str" and dfty in ("None", "StrOpt") and srty == "Str" and sp and dfp and srp:
                        v = fn.tmp()
                        return "(%s >>= fun %s => py_split_req %s %s %s %s %s)" % (dt, v, self.mkarg, st, v, df, sr), "OptPair", False
            if isinstance(f, ast.Attribute) and is_cls(f.value) and len(node.args) == 1 and not kw:
                t, ty, p = self.expr(node.args[0], env)
                if ty == "Str" and p:
                    if f.attr == "version_class":
                        return "(mk %s)" % t, "Str", False
                    if f.attr == "split":
                        return "(%s_split mk %s)" % (self.prefix, t), "OptPair", False
                    if f.attr == "build_constraint_from_string":
                        return "(%s_build_constraint mk %s)" % (self.prefix, t), "TCon", False
                    if f.attr == "from_native":
                        return "(%s_from_native mk %s)" % (self.prefix, t), "TConList", False
            if is_cls(f) and not node.args and set(kw) == {"constraints"}:
                a = kw["constraints"]
                if isinstance(a, ast.List) and len(a.elts) == 1:
                    t, ty, p = self.expr(a.elts[0], env)
                    if ty == "TCon":
                        if p:
                            return "[%s]" % t, "TConList", True
                        v = fn.tmp()
                        return "(%s >>= fun %s => .ok [%s])" % (t, v, v), "TConList", False
                t, ty, p = self.expr(a, env)
                if ty == "TConList" and p:
                    return t, "TConList", True
        if isinstance(node, ast.ListComp) and len(node.generators) == 1 and not node.generators[0].ifs \
                and isinstance(node.generators[0].target, ast.Name):
            it, ity, ip = self.expr(node.generators[0].iter, env)
            if ity == "StrList" and ip:
                env2 = dict(env)
                env2[node.generators[0].target.id] = "Str"
                t, ty, p = self.expr(node.elt, env2)
                if ty == "TCon" and not p:
                    return "(%s.mapM (fun %s => %s))" % (it, node.generators[0].target.id, t), "TConList", False
        return super().expr(node, env)


def _ascii_idiom(node):
    """`len(x) + 2 == len(ascii(x))` -> the node x, else None"""
    try:
        left, right = node.left, node.comparators[0]
        x1 = left.left.args[0]
        if not (isinstance(left, ast.BinOp) and isinstance(left.op, ast.Add) and left.right.value == 2 and left.left.func.id == "len"):
            return None
        inner = right.args[0]
        if right.func.id == "len" and inner.func.id == "ascii" and _src(inner.args[0]) == _src(x1):
            return x1
    except Exception:  # noqa: BLE001
        return None
    return None


HEADER = """/- GENERATED by harness/translate_text.py from /repo/src/univers/%s — do not edit -/
import Univers.Text.PyText
%sset_option linter.unusedVariables false
namespace Univers.Gen.Text
open Univers Univers.PyRt Univers.Text Univers.Text.Str Univers.Text.Vers Univers.Text.PyText

"""

JOBS = [
    ("utils.py", "remove_spaces", None, "PyTextRemoveSpaces", "py_remove_spaces", [("string", "Str")], "Str", []),
    ("version_constraint.py", "split", "VersionConstraint", "PyTextSplit", "vc_split", [("string", "Str")], "StrPair", ["PyTextRemoveSpaces"]),
    ("version_constraint.py", "from_string", "VersionConstraint", "PyTextConFromString", "vc_from_string", [("string", "Str")], "TCon",
     ["PyTextSplit"]),
    ("version_constraint.py", "__str__", "VersionConstraint", "PyTextConStr", "vc_str", [("self", "TCon")], "Str", []),
    ("version_constraint.py", "to_dict", "VersionConstraint", "PyTextConToDict", "vc_to_dict", [("self", "TCon")], "Dict2", []),
    ("version_range.py", "split_req", None, "PyTextSplitReq", "py_split_req",
     [("string", "Str"), ("comparators", "Dict"), ("default", "StrOpt"), ("strip", "Str")], "OptPair", ["PyTextRemoveSpaces"]),
    ("version_range.py", "split_req_bracket_notation", None, "PyTextSplitReqBracket", "py_split_req_bracket",
     [("string", "Str")], "OptPair", ["PyTextRemoveSpaces"]),
    ("version_range.py", "from_string", "VersionRange", "PyTextRangeFromString", "vr_from_string",
     [("vers", "Str"), ("simplify", "Bool"), ("validate", "Bool")], "TRange", ["PyTextConFromString"]),
    ("version_range.py", "__str__", "VersionRange", "PyTextRangeStr", "vr_str", [("self", "TRangeS")], "Str", ["PyTextConStr"]),
    ("version_range.py", "to_dict", "VersionRange", "PyTextRangeToDict", "vr_to_dict", [("self", "TRangeS")], "RangeDict", ["PyTextConToDict"]),
    ("version_range.py", "split", "DebianVersionRange", "PyTextDebSplit", "deb_split", [("string", "Str")], "OptPair", ["PyTextSplitReq", "Text.PyAdv"]),
    ("version_range.py", "build_constraint_from_string", "DebianVersionRange", "PyTextDebBuild", "deb_build_constraint", [("string", "Str")], "TCon",
     ["PyTextDebSplit"]),
    ("version_range.py", "from_native", "DebianVersionRange", "PyTextDebFromNative", "deb_from_native", [("string", "Str")], "TConList", ["PyTextDebBuild"]),
    ("version_range.py", "from_natives", "DebianVersionRange", "PyTextDebFromNatives", "deb_from_natives", [("strings", "StrList")], "TConList",
     ["PyTextDebFromNative"]),
    ("version_range.py", "build_constraint_from_string", "RpmVersionRange", "PyTextRpmBuild", "rpm_build_constraint", [("string", "Str")], "TCon",
     ["PyTextSplitReq", "Text.PyAdv"]),
    ("version_range.py", "from_native", "RpmVersionRange", "PyTextRpmFromNative", "rpm_from_native", [("string", "Str")], "TConList", ["PyTextRpmBuild"]),
    ("version_range.py", "from_natives", "RpmVersionRange", "PyTextRpmFromNatives", "rpm_from_natives", [("strings", "StrList")], "TConList",
     ["PyTextRpmFromNative"]),
    ("version_range.py", "build_constraint_from_github_advisory_string", None, "PyTextGithubCon", "py_github_constraint",
     [("scheme", "Str"), ("string", "Str")], "TCon", ["PyTextSplitReq", "Text.Advisory"]),
    ("version_range.py", "build_range_from_github_advisory_constraint", None, "PyTextGithubRange", "py_github_range",
     [("scheme", "Str"), ("string", "StrList")], "TRange", ["PyTextGithubCon"]),
    ("version_range.py", "build_range_from_snyk_advisory_string", None, "PyTextSnykRange", "py_snyk_range",
     [("scheme", "Str"), ("string", "StrList")], "TRange", ["PyTextSplitReq", "PyTextSplitReqBracket", "Text.Advisory"]),
]
ADVISORY = {"py_github_constraint", "py_github_range", "py_snyk_range"}
RANGE_STR = {"vr_str", "vr_to_dict"}
REL = {"deb": "DebianVersionRange", "rpm": "RpmVersionRange"}


def generate(src_dir):
    import os
    files, status = {}, {}
    trees = {}
    for src, pyname, cls, fname, lean, params, ret, imports in JOBS:
        key = (cls + "." if cls else "") + pyname
        out = [HEADER % (src, "".join(("import Univers.%s\n" if i.startswith("Text.") else "import Univers.Gen.%s\n") % i for i in imports))]
        try:
            if src not in trees:
                trees[src] = ast.parse(open(os.path.join(src_dir, src)).read())
            fdef = L._find(trees[src], pyname, cls)
            # parameters the typed model does not have (`cls`, `version_class`) are not Lean parameters
            trc = None
            if lean.split("_")[0] in REL and cls == REL[lean.split("_")[0]]:
                trc = type("RelTr_" + lean, (RelTr,), {"clsname": cls, "prefix": lean.split("_")[0]})
            text = L.translate_function(fdef, lean, params, ret, {}, {}, src,
                                        tr_class=trc or (RangeTextTr if lean == "vr_from_string" else (AdvTr if lean in ADVISORY else (RangeStrTr if lean in RANGE_STR else TextTr))))
            out.append(text)
            status["text:" + key] = "translated"
        except (Unsupported, StopIteration, OSError) as e:
            out.append("-- `%s` could not be translated: %s\n\n" % (pyname, e or "not found"))
            status["text:" + key] = "unsupported: %s" % (e or "function not found")
        out.append("end Univers.Gen.Text\n")
        files[fname + ".lean"] = "".join(out)
    return files, status


if __name__ == "__main__":
    import sys
    files, status = generate(sys.argv[1] if len(sys.argv) > 1 else "/repo/src/univers")
    for k, v in files.items():
        sys.stdout.write("-- ==== %s\n%s" % (k, v))
    sys.stderr.write(repr(status) + "\n")
