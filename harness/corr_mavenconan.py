"""
Layer-C correspondence for the Maven / NuGet bracket ranges and the Conan range converter:
the real functions against the Lean models `Univers/Text/MavenRange.lean`,
`Univers/Text/ConanRange.lean`, through the driver lines

    native maven <hex> | native nuget <hex>     <Class>.from_native(text)
    natives maven|nuget <hex> <hex> ...         <Class>.from_natives([texts])
    native conan <hex>                          ConanVersionRange.from_native(text)
    mavensat <hex range> <hex version>          maven.Version(v) in maven.VersionRange(r)
    conansat <hex range> <hex version>          ConanVersion(v) in conan VersionRange(r)

Answers: `ok:<items>` | `err:<ExcClassName>` (items compared as multisets: the range constructor
sorts), `true|false|err:<ExcClassName>` for the matchers.  Exceptions are compared by exact class
name.  `ConanException` is the declared error of the conan converter; any other exception outside
the `ValueError` family is reported as a witness.

Usage:  /venv/bin/python -m harness.corr_mavenconan [--n N] [--seed S] [--umodel PATH]
Exit status 0 = no disagreement.
"""
import argparse
import functools
import subprocess
import sys

from harness import common, schemes as S
from harness.common import hx

from univers import maven as M
from univers import version_range as R
from univers import versions as V
from univers.conan import version_range as CR

TAG = {">=": "ge", "<=": "le", "!=": "ne", "<": "lt", ">": "gt", "=": "eq"}
INTERNAL = ("TypeError", "IndexError", "KeyError", "AttributeError", "UnboundLocalError",
            "AssertionError", "RecursionError")
MAXLEN = 90


# ----------------------------------------------------------------------------- the real side

def canon(rng_obj):
    items = []
    for c in rng_obj.constraints:
        if c.comparator == "*":
            items.append("star")
        else:
            items.append("%s:%s" % (TAG[c.comparator], hx(str(c.version))))
    return "ok:" + (",".join(sorted(items)) if items else "-")


def canon_model(ans):
    if ans.startswith("ok:") and ans != "ok:-":
        return "ok:" + ",".join(sorted(ans[3:].split(",")))
    return ans


def real(case):
    kind = case[0]
    try:
        if kind == "native":
            cls = {"maven": R.MavenVersionRange, "nuget": R.NugetVersionRange,
                   "conan": R.ConanVersionRange}[case[1]]
            return canon(cls.from_native(case[2]))
        if kind == "natives":
            cls = {"maven": R.MavenVersionRange, "nuget": R.NugetVersionRange}[case[1]]
            return canon(cls.from_natives(list(case[2])))
        if kind == "mavensat":
            return "true" if (M.Version(case[2]) in M.VersionRange(case[1])) else "false"
        if kind == "conansat":
            return "true" if (V.ConanVersion(case[2]) in CR.VersionRange(case[1])) else "false"
        raise common.Tooling("unknown case kind %r" % (kind,))
    except common.Tooling:
        raise
    except Exception as e:  # noqa: the class name is the observation
        return "err:" + type(e).__name__


def line_of(case):
    kind = case[0]
    if kind == "native":
        return "native %s %s" % (case[1], hx(case[2]))
    if kind == "natives":
        return "natives %s %s" % (case[1], " ".join(hx(t) for t in case[2]))
    return "%s %s %s" % (kind, hx(case[1]), hx(case[2]))


# ----------------------------------------------------------------------------- generators

WS = [" ", " ", " ", "  ", "\t", "\n", " \t", "\r", "\x0b", "\x1c", "\x1f"]


def mutate(s, rng, alphabet):
    """structure-aware mutations: drop / double / swap / insert characters of the notation"""
    if not s:
        return rng.choice(["", " ", "\t", rng.choice(alphabet)])
    r = rng.random()
    i = rng.randrange(len(s))
    special = [k for k, c in enumerate(s) if c in alphabet]
    if special and r < 0.6:
        i = rng.choice(special)
    k = rng.random()
    if k < 0.25:
        return s[:i] + s[i + 1:]                          # drop
    if k < 0.45:
        return s[:i] + s[i] + s[i:]                       # double
    if k < 0.65:
        return s[:i] + rng.choice(alphabet) + s[i + 1:]   # replace
    if k < 0.8:
        return s[:i] + rng.choice(alphabet) + s[i:]       # insert
    if k < 0.9:
        return s[:i] + rng.choice(WS) + s[i:]             # whitespace
    j = rng.randrange(len(s))
    if i > j:
        i, j = j, i
    if i == j:
        return s
    return s[:i] + s[j] + s[i + 1:j] + s[i] + s[j + 1:]   # swap


def _maven_key(a, b):
    return M.Version(a).__cmp__(M.Version(b))


def maven_version(rng, scheme):
    r = rng.random()
    if r < 0.04:
        return rng.choice(["", "None", "v1", "V2.0", "1\t", "\t1", "1 .0", "abc", "-", ".", "0", "1-0.1", "1-0.2",
                           "1.0.rc", "1.x", "1", "1.0", "1.00", "01"])
    if scheme == "nuget" and rng.random() < 0.93:
        return S.gen_nuget(rng)
    v = S.gen_maven(rng)
    if rng.random() < 0.1:
        v = S.respell_maven(v, rng)
    return v


def maven_segment(rng, lo, hi):
    """one restriction between the texts lo <= hi (either may be None)"""
    r = rng.random()
    o = rng.choice("[(")
    c = rng.choice("])")
    if lo is None and hi is None:
        return rng.choice(["(,)", "[,]", "[]", "()", "[,)", "(,]"])
    if lo is None:
        return rng.choice(["(", "(", "["]) + "," + hi + c
    if hi is None:
        return o + lo + "," + rng.choice([")", ")", "]"])
    if r < 0.2:
        if rng.random() < 0.85:
            return "[" + lo + "]"
        return rng.choice(["[", "("]) + lo + rng.choice(["]", ")"])
    if r < 0.22:
        return o + lo + "," + hi + "," + lo + c
    return o + lo + "," + hi + c


def gen_maven_range(rng, scheme):
    r = rng.random()
    if r < 0.08:
        return maven_version(rng, scheme)                  # soft requirement
    if r < 0.1:
        return rng.choice(["", " ", "[", "]", "(", ")", ",", "[]", "()", "[,]", "(,)", "[)", "(]", "[[1]]", "[1]]",
                           "[1,2]]", "[(1,2)]", ")1,2(", "[1,2],[", "[1],2", "1,[2]", "[1,2)3", "[1];[2]"])
    k = rng.choice([1, 1, 1, 2, 2, 3, 4])
    vs = [maven_version(rng, scheme) for _ in range(2 * k)]
    if rng.random() < 0.85:
        try:
            vs = sorted(vs, key=functools.cmp_to_key(_maven_key))
        except Exception:
            pass
    segs = []
    for i in range(k):
        lo, hi = vs[2 * i], vs[2 * i + 1]
        q = rng.random()
        if q < 0.2 and (i == 0 or rng.random() < 0.1):
            lo = None
        elif q < 0.4 and (i == k - 1 or rng.random() < 0.1):
            hi = None
        elif q < 0.42:
            lo = hi = None
        segs.append(maven_segment(rng, lo, hi))
    sep = rng.choice([",", ",", ",", ",", ",", ",", "", ", ", " , ", ", ", ",", ",", ",", ",", ",", ",", ",,", ";"])
    s = sep.join(segs)
    if rng.random() < 0.05:
        s += rng.choice([",", " ", ",1.0", "1.0"])
    if rng.random() < 0.15:
        i = rng.randrange(len(s) + 1)
        s = s[:i] + rng.choice(WS) + s[i:]
    m = rng.random()
    if m < 0.2:
        s = mutate(s, rng, "[]().,")
        if rng.random() < 0.3:
            s = mutate(s, rng, "[]().,")
    return s[:MAXLEN]


def conan_version(rng):
    r = rng.random()
    if r < 0.12:
        return rng.choice(["0", "0.0", "0.0.0", "0.0.3", "0.1", "0.x", "0.0.x", "v1", "V1.2", "00.1", "1_0.2", "x",
                           "1.2.x", "1.*", "0.0.0.4", "-1", "+1", "1-", "1+", "1..2", ".", "1.2-pre+b", "0-rc"])
    v = S.gen_conan(rng, homogeneous=rng.random() < 0.7)
    if rng.random() < 0.1:
        v = S.respell_conan(v, rng)
    return v


def gen_conan_range(rng):
    r = rng.random()
    if r < 0.04:
        return rng.choice(["", " ", "*", "-", "||", "|", ">", "<", ">=", "<=", "=", "~", "^", "^0", "^0.0", "~-", ">-",
                           "* *", "*-", ", include_prerelease=True", "~ 1.2", "> =1", "=>1", "==1", "!=1", "~=1",
                           "^^1", "~~1", ">1,<2", "1 - 2", "^v", "~v"])
    alts = []
    for _ in range(rng.choice([1, 1, 1, 2, 2, 3])):
        conds = []
        for _ in range(rng.choice([1, 1, 2, 2, 3])):
            op = rng.choice([">", "<", ">=", "<=", "=", "~", "^", "", "", "~", "^"])
            e = op + conan_version(rng)
            if rng.random() < 0.1:
                e += "-"
            if rng.random() < 0.03:
                e = rng.choice(["*", op, "-"])
            conds.append(e)
        alts.append(rng.choice([" ", " ", "  ", "\t"]).join(conds))
    s = rng.choice(["||", " || ", "|| ", " ||"]).join(alts)
    if rng.random() < 0.15:
        s += rng.choice([", include_prerelease=True", ",include_prerelease", ", include_prerelease=False", ",",
                         ", foo", ",x,include_prerelease", ", include_prereleases"])
    if rng.random() < 0.2:
        s = mutate(s, rng, "<>=~^|-*, ")
        if rng.random() < 0.3:
            s = mutate(s, rng, "<>=~^|-*, ")
    return s[:MAXLEN]


def make_cases(n, seed):
    rng = common.rng_for(seed, "corr_mavenconan")
    cases = []
    for i in range(n):
        r = rng.random()
        if r < 0.25:
            cases.append(("native", "maven", gen_maven_range(rng, "maven")))
        elif r < 0.45:
            cases.append(("native", "nuget", gen_maven_range(rng, "nuget")))
        elif r < 0.52:
            sch = rng.choice(["maven", "nuget"])
            cases.append(("natives", sch, tuple(gen_maven_range(rng, sch) for _ in range(rng.choice([0, 1, 2, 2, 3])))))
        elif r < 0.64:
            sch = rng.choice(["maven", "maven", "nuget"])
            cases.append(("mavensat", gen_maven_range(rng, sch), maven_version(rng, sch)))
        elif r < 0.9:
            cases.append(("native", "conan", gen_conan_range(rng)))
        else:
            cases.append(("conansat", gen_conan_range(rng), conan_version(rng)))
    # the known witnesses are always part of the run
    fixed = [("native", "maven", "1.0"), ("native", "nuget", "1.0"), ("native", "maven", "[1,2,3]"),
             ("native", "nuget", "[],[1,2]"), ("native", "maven", "[1,1-0.1]"), ("mavensat", "[1,1-0.1]", "1-0.2"),
             ("native", "conan", ">"), ("native", "conan", "^0"), ("native", "conan", "^0.0.0"),
             ("native", "conan", ">="), ("native", "conan", "~1.2.3"), ("native", "conan", "^1.2.3"),
             ("native", "conan", "^0.1.2"), ("native", "conan", "-"), ("native", "conan", "~abc")]
    return fixed + cases


# ----------------------------------------------------------------------------- run

def model_lines(lines, umodel):
    exe = str(umodel or common.UMODEL)
    p = subprocess.run([exe], input="\n".join(lines) + "\n", stdout=subprocess.PIPE,
                       stderr=subprocess.PIPE, text=True, timeout=3600)
    if p.returncode != 0:
        raise common.Tooling("model driver failed rc=%s: %s" % (p.returncode, p.stderr[-2000:]))
    out = p.stdout.split("\n")
    if out and out[-1] == "":
        out.pop()
    if len(out) != len(lines):
        raise common.Tooling("model driver answered %d lines for %d" % (len(out), len(lines)))
    return out


def run(n=2000, seed=0, umodel=None, verbose=True):
    probe = model_lines(["native conan " + hx("*")], umodel)[0]
    if probe == "bad-op":
        raise common.Tooling("driver has no `native conan` handler (mavenConanCmd not wired)")
    cases = make_cases(n, seed)
    lines = [line_of(c) for c in cases]
    exp = [real(c) for c in cases]
    got = [canon_model(a) for a in model_lines(lines, umodel)]
    stats = {"total": len(cases), "ok": 0}
    per_kind = {}
    dis = []
    internal = {}
    other_undeclared = {}
    for c, l, e, g in zip(cases, lines, exp, got):
        k = c[0] + (":" + c[1] if c[0] in ("native", "natives") else "")
        pk = per_kind.setdefault(k, {"n": 0, "ok": 0})
        pk["n"] += 1
        if e.startswith("err:"):
            stats[e] = stats.get(e, 0) + 1
            name = e[4:]
            if name in INTERNAL:
                internal.setdefault((k, name), c)
            elif name not in ("ValueError", "InvalidVersion", "RestrictionParseError", "VersionRangeParseError",
                              "InvalidVersionRange", "ConanException"):
                other_undeclared.setdefault((k, name), c)
        else:
            stats["ok"] += 1
            pk["ok"] += 1
        if e != g:
            dis.append({"case": c, "line": l, "impl": e, "model": g})
    stats["per_kind"] = per_kind
    stats["disagreements"] = len(dis)
    stats["internal_error_witnesses"] = {"%s:%s" % k: repr(v) for k, v in internal.items()}
    stats["other_undeclared_witnesses"] = {"%s:%s" % k: repr(v) for k, v in other_undeclared.items()}
    if verbose:
        for d in dis[:15]:
            print("DISAGREE %r\n   impl  %s\n   model %s" % (d["case"], d["impl"], d["model"]))
        dist = ", ".join("%s=%s" % (k, v) for k, v in sorted(stats.items()) if k.startswith("err:") or k == "ok")
        print("corr_mavenconan: %d cases, %d disagreements; %s" % (len(cases), len(dis), dist))
        print("  per kind: " + ", ".join("%s %d/%d ok" % (k, v["ok"], v["n"]) for k, v in sorted(per_kind.items())))
        for k, v in stats["internal_error_witnesses"].items():
            print("  internal error %s witness %s" % (k, v))
        for k, v in stats["other_undeclared_witnesses"].items():
            print("  undeclared error %s witness %s" % (k, v))
    return (1 if dis else 0), stats, dis


def main(argv=None):
    ap = argparse.ArgumentParser()
    ap.add_argument("--n", type=int, default=2000)
    ap.add_argument("--seed", type=int, default=common.seed_from_env())
    ap.add_argument("--umodel", default=None)
    a = ap.parse_args(argv)
    rc, _, _ = run(a.n, a.seed, a.umodel, verbose=True)
    return rc


if __name__ == "__main__":
    sys.exit(main())
