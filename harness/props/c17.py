"""C17 — meaning is stable under any sequence of presentation-level operations."""
from harness import common, layerb as B, schemes as S

from univers.version_constraint import VersionConstraint
from univers.version_range import VersionRange, RANGE_CLASS_BY_SCHEMES

MODULES = ["Univers.Props.C17", "Univers.Props.Schemes"]
LEVEL = "proof"
RULE = ("per registered scheme: seeded well-formed ranges (patterns accepted by the model's validation) and seeded random walks "
        "over the operation alphabet {print+parse, permute+rebuild, simplify, validate, invert twice, parse with simplify and "
        "validate flags}; after EVERY step the membership vector of the real range over probes at, around and between all "
        "constraint versions is compared with the spec `denote` of the ORIGINAL range (Lean driver), and the canonical text must "
        "stop changing after the first simplification; the constraint tuple after EVERY step is compared with the state of the Lean "
        "state machine `C17.run` (driver `hist`), which is what the theorems are about; non-trivial = walk of length >= 3 on a range of >= 2 constraints")
ASSUMPTIONS = ["lawful operators per scheme (C02)", "well-formed start range; version texts without vers delimiters"]

OPS = ["print+parse", "permute+rebuild", "simplify", "validate", "invert-twice", "parse-flags"]


def _apply(op, r, rcls, rng):
    if op == "print+parse":
        return VersionRange.from_string(str(r))
    if op == "permute+rebuild":
        cs = list(r.constraints)
        rng.shuffle(cs)
        # any collection of constraints: a list, a tuple, or an iterator-built list
        return rcls(constraints=rng.choice([list, tuple, list])(cs))
    if op == "simplify":
        return rcls(constraints=VersionConstraint.simplify(list(r.constraints)))
    if op == "validate":
        VersionConstraint.validate(list(r.constraints))
        return r
    if op == "invert-twice":
        i = r.invert()
        if i is None:
            return r
        if rng.random() < 0.5:
            # ... with the inverse printed and parsed in between (what the inverse SAYS it is)
            i = VersionRange.from_string(str(i))
        j = i.invert()
        return r if j is None else j
    if op.startswith("parse-flags"):
        text = str(r)
        if rng.random() < 0.5 and "|" in text:
            # the same constraints written in another order (the parser sorts before it simplifies)
            head, body = text.split("/", 1)
            items = body.split("|")
            rng.shuffle(items)
            text = head + "/" + "|".join(items)
        return VersionRange.from_string(text, simplify=op[-2] == "1", validate=op[-1] == "1")
    raise AssertionError(op)


MODEL_OP = {"print+parse": "pp", "permute+rebuild": "pr:rev", "simplify": "simp:rot", "validate": "val", "invert-twice": "inv2",
            "parse-flags00": "pf00:id", "parse-flags01": "pf01:id", "parse-flags10": "pf10:rev", "parse-flags11": "pf11:rot"}


def correspondence(ctx):
    walks = 3000 if ctx.thorough else 160
    maxlen = 40 if ctx.thorough else 10
    for name in S.ALL:
        rcls = S.rclass(name)
        if rcls is None or RANGE_CLASS_BY_SCHEMES.get(rcls.scheme) is not rcls:
            continue
        rng = ctx.rng("c17", name)
        bench = B.Bench(name, rng, size=16)
        B.probe_unrankable(ctx, "C17", bench)
        # every version of the pool, in every spelling, as the bound of a one-constraint range: printing and parsing the
        # range back keeps the range and keeps the version itself on the same side
        from harness import pools as P
        import re as _re
        cands = [[tv for tv in cl[:2]] for cl in bench.pool.classes]
        for cl in bench.pool.classes[:3]:
            # ... and the first members with EVERY short ending of the scheme (a printing rule that drops or rewrites an
            # ending shows on exactly one of them)
            t0 = cl[0][0]
            mm = _re.search(r"[-+~_^]", t0.split(":")[-1])
            base = t0 if not mm else t0[:len(t0) - len(t0.split(":")[-1]) + mm.start()]
            extra = []
            for tail in P.TAILS.get(name, []):
                try:
                    extra.append((base + tail, S.vclass(name)(base + tail)))
                except Exception:  # noqa: BLE001
                    pass
            cands.append(extra)
        for cl in cands:
            for t, v in cl:
                if (not t.isascii()) or any(ch in t for ch in "|\\'\" \t\n") or t[0] in "<>=!*vV":
                    continue
                for cmp_ in (">=", "<"):
                    ctx.count("print-parse-one:" + name, key=(cmp_, t), nontrivial=True)
                    try:
                        r = rcls(constraints=[VersionConstraint(comparator=cmp_, version=v)])
                        back = VersionRange.from_string(str(r))
                        why = None
                        if not (back == r):
                            why = "parsing the printed range %r gives another range (%r)" % (str(r), str(back))
                        elif (v in back) != (v in r):
                            why = "membership of the bound itself changes: %s before, %s after" % (v in r, v in back)
                    except Exception as e:  # noqa: BLE001
                        why = "raises %s: %s" % (type(e).__name__, e)
                    if why:
                        weak = False
                        try:
                            w = S.vclass(name)(str(v))
                            weak = not (w == v) or str(w) != str(v)
                        except Exception:  # noqa: BLE001
                            weak = True
                        region = None
                        if weak and name == "rpm":
                            from harness.props.c11 import k05_text
                            region = "rpm-str-roundtrip" if k05_text(t) else None
                        ctx.disagree("print-parse-one:" + name, "%s%s" % (cmp_, t), why, "stable meaning", True,
                                     {"scheme": name, "range": "%s%s" % (cmp_, t), "clause": why}, region=region, spec="stable meaning")
                        break
                else:
                    continue
                break
        stream = "walk:" + name
        if not bench.ok(11) or not bench.pool.hashable:
            ctx.stream(stream)["skipped"] = "pool too small or unhashable"
            continue
        cand, lines = [], []
        for _ in range(walks * 4):
            k = rng.choice([1, 2, 3, 3, 4, 5])
            ranks = sorted(rng.sample(range(1, 10), k))
            if rng.random() < 0.45:
                # rich in what simplification removes: runs of '=' after a lower bound / before an upper bound
                cons = [(rng.choice(["eq", "eq", "ge", "gt", "le", "lt", "ne"]), r) for r in ranks]
            else:
                cons = [(rng.choice(B.CMPRS), r) for r in ranks]
            cand.append(cons)
            lines.append("invert %s" % B.cons_line(cons))
        good = []
        for c, a in zip(cand, common.run_model(lines)):
            parts = a.split(" ")
            if len(parts) == 3 and parts[1] == "true":     # well-formed (inverting twice gives the constraints back, vacuous ones included)
                good.append(c)
        good = good[:walks]
        dl = ["denote %s %d" % (B.cons_line(c), x) for c in good for x in range(0, 11)]
        den = dict(zip(dl, common.run_model(dl)))
        pending = []
        for cons in good:
            m = bench.mapping(11, rng)
            texts_ok = all(t and t.isascii() and not any(ch in t for ch in "|\\'\" \t\n") and t[0] not in "<>=!*vV" for t, _ in m)
            if not texts_ok:
                continue
            objs = B.real_cons(bench, cons, m)
            try:
                r = rcls(constraints=objs)
            except Exception:  # noqa: BLE001
                continue
            want = [den["denote %s %d" % (B.cons_line(cons), x)].split(" ")[0] == "true" for x in range(11)]
            hist = []
            simplified_text = None
            n = rng.randint(1, maxlen)
            ctx.count(stream, key=(tuple(cons), n), nontrivial=(n >= 3 and len(cons) >= 2))
            plan = [rng.choice(OPS) for _ in range(n)] + ["simplify", rng.choice(OPS), "simplify"]
            plan = [(op + rng.choice(["00", "01", "10", "11", "11"])) if op == "parse-flags" else op for op in plan]
            inv = B.Inv(m)
            states = []
            for op in plan:
                hist.append(op)
                try:
                    r = _apply(op, r, rcls, rng)
                    got = [(m[x][1] in r) for x in range(11)]
                    why = None
                    if got != want:
                        x = next(i for i in range(11) if got[i] != want[i])
                        why = "after %s: membership of %s is %s, the original range says %s" % (hist, m[x][0], got[x], want[x])
                    try:
                        states.append("ok:" + B.cons_line(B.canon_cons(r.constraints, inv)))
                    except B.ForeignVersion:
                        states.append("foreign")
                    text = str(r)
                    if op == "simplify" or (op.startswith("parse-flags") and op[-2] == "1"):
                        # a simplification, by either route: from here on the canonical text must not change
                        if simplified_text is None:
                            simplified_text = text
                    if why is None and simplified_text is not None and text != simplified_text:
                        why = "canonical text changed after the first simplification: %r -> %r (history %s)" % (simplified_text, text, hist)
                except Exception as e:  # noqa: BLE001
                    why = "after %s: %s raises %s: %s" % (hist[:-1], op, type(e).__name__, e)
                if why:
                    ctx.disagree(stream, "walk %s %s" % (B.cons_line(cons), hist), why, "stable meaning", True,
                                 dict(B.describe(bench, cons, m), history=hist, clause=why), spec="stable meaning")
                    break
            else:
                pending.append((cons, plan, states, m))
        # the model's state machine (`C17.run`, what the theorems are about) against the real states, step by step
        lines = ["hist %s %s" % (B.cons_line(sorted(c, key=lambda t: t[1])), ",".join(MODEL_OP[o] for o in plan)) for c, plan, _, _ in pending]
        for (cons, plan, states, m), ans in zip(pending, common.run_model(lines) if lines else []):
            ctx.count(stream + ":states", key=(tuple(cons), tuple(plan)), nontrivial=len(cons) >= 2)
            model_states = ans.split(";")
            if model_states != states:
                k = next((i for i, (a, b) in enumerate(zip(states, model_states)) if a != b), min(len(states), len(model_states)))
                ctx.disagree(stream + ":states", "hist %s %s" % (B.cons_line(cons), plan[:k + 1]),
                             states[k] if k < len(states) else "-", model_states[k] if k < len(model_states) else "-", False,
                             dict(B.describe(bench, cons, m), history=plan[:k + 1]))
        if name == "npm":
            ctx.sample({"scheme": name, "operations": OPS})
