"""C03 — each scheme orders versions the way its ecosystem's reference algorithm does."""
from harness import common, layera as A, schemes as S

from harness.known import replay_known  # noqa: F401

MODULES = ["Univers.Props.C03", "Univers.Scheme.TablesThm"]
LEVEL = "proof"
# textual tie (regular expressions of /repo as the recognisers read them): runner step 3a
TIE_THEOREMS = {"Univers.Scheme.RegexPins": ["Univers.Tables.regex_sites_pinned", "Univers.Tables.compiled_patterns_pinned"]}
RULE = ("per scheme: pairs of version texts over the scheme's full grammar (epochs, revisions, leading zeros, tildes, carets, "
        "letter suffixes, pre/post/dev tags, qualifiers and aliases, build metadata, case variants, unequal segment counts) "
        "plus respelled and mutated neighbours; the sign derived from the real '<', '==', '>' against the Lean reference sort "
        "key of the ecosystem (the model's `vercmp` equals `compare` on that key by theorem); non-trivial = both sides valid")
ASSUMPTIONS = ["the reference sort keys (Univers/Scheme/*Spec.lean) are faithful transcriptions of the ecosystems' published procedures "
               "(trusted; validated against upstream vectors where the agents had them)", "version text is ASCII"]


def _domain_lines(name, d):
    if name == "maven":
        return ["vdomain maven %s" % common.hx(d["a"]), "vdomain maven %s" % common.hx(d["b"])]
    if name in ("ebuild", "alpine"):
        return ["vdomain %s %s" % (name, common.hx(d["a"])), "vdomain %s %s" % (name, common.hx(d["b"]))]
    if name == "conan":
        return ["vcompat conan %s %s" % (common.hx(d["a"]), common.hx(d["b"]))]
    return []


def correspondence(ctx):
    n = 30000 if ctx.thorough else 1500
    for name in A.ALL:
        stream = "reference:" + name
        if not A.has_model(name):
            ctx.stream(stream)["skipped"] = "no Lean model for this scheme yet"
            continue
        stats, dis = A.corr(ctx, name, n)
        st = ctx.stream(stream)
        st["evaluations"] += stats["pairs"]
        st["distinct_nontrivial"] += stats["pairs"] - stats["cmp_invalid"]
        ctx.evaluations += stats["pairs"]
        if stats.get("sample_pair"):
            ctx.sample({"scheme": name, "line": "vcmp %s %r %r" % (name, *stats["sample_pair"]), "model": stats["sample_answer"]})
        for d in dis:
            if d["kind"] != "cmp":
                continue
            bi, bm = A.bits_of(d["impl"]), A.bits_of(d["model"])
            rep = {"scheme": name, "a": d["a"], "b": d["b"]}
            if not (bi and bm) or "E" in bi[1]:
                ctx.disagree(stream, "vcmp %s" % name, d["impl"], d["model"], False, rep)
                continue
            si, sm = A.sign_of_bits(bi[1]), bm[0]
            if si == sm and bi[0] in ("?", sm):
                continue        # same order; operator-level differences are C02's
            dom = common.run_model(_domain_lines(name, d))
            in_dom = all(x == "in" for x in dom)
            rep["observed_order"] = si
            rep["reference_order"] = sm
            ctx.disagree(stream, "vcmp %s" % name, d["impl"], d["model"], in_dom, rep, spec=sm)
    _derived_objects(ctx)


def _derived_objects(ctx):
    """a version object derived from another one (`attr.evolve(v, string=t)`, `copy.copy`, `copy.deepcopy`, a pickle round
    trip) is ordered as the version its text says: exactly like the object the constructor builds from that text"""
    import copy
    import pickle
    import attr
    from harness import schemes as S
    for name in A.ALL:
        rng = ctx.rng("c03-derived", name)
        cls = S.vclass(name)
        pool = A.valid_pool(name, rng, 8)
        stream = "derived:" + name
        for (ta, a), (tb, b), (tc, c) in zip(pool, pool[1:], pool[2:]):
            routes = [("attr.evolve(V(%r), string=%r)" % (ta, tb), lambda: attr.evolve(a, string=tb)),
                      ("copy.copy(V(%r))" % tb, lambda: copy.copy(b)), ("copy.deepcopy(V(%r))" % tb, lambda: copy.deepcopy(b)),
                      ("pickle round trip of V(%r)" % tb, lambda: pickle.loads(pickle.dumps(b)))]
            for label, mk in routes:
                ctx.count(stream, key=label, nontrivial=True, branch=label.split("(")[0])
                try:
                    d = mk()
                except Exception:  # noqa: BLE001 — a route this class does not offer
                    continue
                try:
                    same = (d == b) and not (d < b) and not (d > b) and str(d) == str(b)
                    got = ((d < c), (d > c), (d == c), (c < d))
                    want = ((b < c), (b > c), (b == c), (c < b))
                except Exception as e:  # noqa: BLE001
                    same, got, want = False, "raises %s" % type(e).__name__, "-"
                if not same or got != want:
                    ctx.disagree(stream, label, "equal to V(%r): %s; against V(%r): %s" % (tb, same, tc, got), "as V(%r): %s" % (tb, want), True,
                                 {"scheme": name, "class": cls.__name__, "derived_by": label, "third_version": tc,
                                  "clause": "a derived object is not ordered like the version its text says"}, spec="as the constructed version")
                    break

