"""C04 — range membership equals the interval-set meaning of the vers constraints."""
from harness import common, layerb as B, schemes as S

from univers.version_constraint import VersionConstraint, contains_version

MODULES = ["Univers.Props.C04", "Univers.Props.Schemes", "Univers.Text.EndToEndThm", "Univers.Text.EndToEndGem"]
LEVEL = "proof"
# function-level tie (translator + agreement theorem): see runner step 3a
TIE_THEOREMS = {"Univers.Vers.GenLayerBExact": ["Univers.Gen.LayerB.py_contains_version_eq_denote", "Univers.Gen.LayerB.py_range_contains_eq_denote"],
                "Univers.Vers.GenContainsThm": ["Univers.Gen.LayerB.contains_version_eq"], "Univers.Vers.GenRangeContainsThm": ["Univers.Gen.LayerB.range_contains_eq"]}
RULE = ("bounded-exhaustive: every comparator sequence over the six versioned comparators up to length L on "
        "version-sorted distinct versions x every probe position (at, below, above and between every constraint "
        "version), evaluated on real versions of every scheme (ranked pools built with the real operators) and on the "
        "Lean model+spec on ranks; plus seeded random lists (stars, duplicates, unsorted) through VersionRange; "
        "non-trivial = at least two constraints (not decided by the single-constraint shortcut); distinct = distinct "
        "(scheme, pattern, probe)")
ASSUMPTIONS = [
    "the scheme's six operators are the ones induced by one three-way comparison (property C02) — pool members "
    "on which the real operators disagree with each other are left out here and reported by C01/C02",
    "version text is ASCII",
]


def _L(ctx):
    return 6 if ctx.thorough else (5 if ctx.deepen else 4)


def correspondence(ctx):
    # history-sensitive stream first (a fresh process), and once more after the sweep
    _cross_scheme(ctx)
    L = _L(ctx)
    # ---------------- model side, once: lines are scheme independent
    lines = []
    index = {}
    for n in range(1, L + 1):
        for p in B.all_patterns(n):
            cons = B.sorted_cons(p)
            cl = B.cons_line(cons)
            for x in range(1, 2 * n + 2):
                index[(p, x)] = len(lines)
                lines.append("contains %s %d" % (cl, x))
    answers = common.run_model(lines)
    ctx.exhaustive = True
    for name in S.ALL:
        rng = ctx.rng("c04", name)
        bench = B.Bench(name, rng, size=2 * L + 6, need_hash=False)
        B.probe_unrankable(ctx, "C04", bench)
        if not bench.ok(2 * L + 1):
            ctx.stream("sorted-exhaustive:" + name)["skipped"] = "pool too small (%d classes)" % bench.pool.n()
            ctx.exhaustive = False
            continue
        stream = "sorted-exhaustive:" + name
        ctx.stream(stream)["pool_classes"] = bench.pool.n()
        ctx.stream(stream)["pool_rejected_unlawful"] = len(bench.pool.rejected)
        k = 0
        for n in range(1, L + 1):
            m = None
            for p in B.all_patterns(n):
                if k % 40 == 0 or m is None or len(m) != 2 * n + 2:
                    m = bench.mapping(2 * n + 2, rng)
                k += 1
                cons = B.sorted_cons(p)
                objs = tuple(B.real_cons(bench, cons, m))
                for x in range(1, 2 * n + 2):
                    # the tested version is another object, in another spelling of the same version when the pool has one
                    xt, xv = bench.alt(m[x], rng) if x % 2 == 0 else m[x]
                    impl = B.res_bool(lambda: contains_version(xv, objs))
                    model, spec, wf = answers[index[(p, x)]].split(" ")
                    ctx.count(stream, key=(p, x), nontrivial=n >= 2,
                              branch="wf" if wf == "true" else "not-wf",
                              error=impl[4:] if impl.startswith("err:") else None)
                    in_dom = wf == "true"
                    if in_dom and impl != "ok:" + spec:
                        d = B.describe(bench, cons, m, x)
                        d["version"] = xt
                        d["python"] = _oneliner(name, d)
                        ctx.disagree(stream, lines[index[(p, x)]], impl, model, True, d, spec=spec)
                    elif impl != model:
                        d = B.describe(bench, cons, m, x)
                        ctx.disagree(stream, lines[index[(p, x)]], impl, model, False, d, spec=spec)
        if name == "semver":
            ctx.sample({"line": lines[index[(("ge", "lt"), 3)]], "model spec wf": answers[index[(("ge", "lt"), 3)]],
                        "scheme": name})
    _range_stream(ctx)
    _long_and_routes(ctx)
    _end_to_end(ctx)
    _cross_scheme(ctx, "c04-cross-after")
    _copies(ctx)


def _copies(ctx):
    """the answer depends only on how the tested version compares with the constraint versions: a deep copy or a pickle
    round trip of the range, of the version, or of both gives the same answer as the objects themselves"""
    import copy
    import pickle
    for name in S.ALL:
        rcls = S.rclass(name)
        if rcls is None:
            continue
        rng = ctx.rng("c04-copies", name)
        pool = []
        from harness import layera as A
        for t, v in A.valid_pool(name, rng, 10):
            pool.append((t, v))
        pool = pool[:8]
        if len(pool) < 3:
            continue
        stream = "copies:" + name
        for _ in range(12):
            (ta, a), (tb, b) = rng.sample(pool, 2)
            try:
                lo, hi = (a, b) if a < b else (b, a)
                r = rcls(constraints=[VersionConstraint(comparator=rng.choice([">=", ">"]), version=lo),
                                      VersionConstraint(comparator=rng.choice(["<", "<="]), version=hi)]) if rng.random() < 0.6 else \
                    rcls(constraints=[VersionConstraint(comparator=rng.choice(["<", "<=", ">", ">=", "=", "!="]), version=a)])
            except Exception:  # noqa: BLE001
                continue
            for tx, x in pool:
                want = B.res_bool(lambda: x in r)
                for label, rr, xx in (("deepcopy of the range", lambda: copy.deepcopy(r), lambda: x),
                                      ("pickle round trip of the range", lambda: pickle.loads(pickle.dumps(r)), lambda: x),
                                      ("deepcopy of the version", lambda: r, lambda: copy.deepcopy(x)),
                                      ("pickle round trip of both", lambda: pickle.loads(pickle.dumps(r)), lambda: pickle.loads(pickle.dumps(x)))):
                    ctx.count(stream, key=(str(r), tx, label), nontrivial=True, branch=label)
                    got = B.res_bool(lambda: xx() in rr())
                    if got != want:
                        ctx.disagree(stream, "%s in %s (%s)" % (tx, r, label), got, want, True,
                                     {"scheme": name, "range": str(r), "version": tx, "copy": label,
                                      "clause": "the answer for a copy differs from the answer for the object"}, spec=want)
                        break
                else:
                    continue
                break


def _oneliner(name, d):
    vc = S.vclass(name).__name__
    return ("from univers.versions import %s as V; from univers.version_constraint import VersionConstraint as C, contains_version; "
            "cs=[C.from_string(s, V) for s in %r]; print(contains_version(V(%r), cs))" % (vc, d["constraints"], d["version"]))


def _range_stream(ctx):
    """random lists through VersionRange (constructor sorts), with stars, duplicates, any order"""
    N = 20000 if ctx.thorough else 600
    for name in S.ALL:
        rng = ctx.rng("c04-range", name)
        bench = B.Bench(name, rng, size=14, need_hash=False)
        if not bench.ok(9):
            continue
        stream = "range-random:" + name
        jobs = []
        lines = []
        for _ in range(N):
            n = rng.choice([0, 1, 2, 2, 3, 3, 4, 5, 6])
            m = bench.mapping(9, rng)
            cons = []
            r = rng.random()
            if r < 0.55:
                # well-formed by construction: alternate bounds, sprinkle = and != legally is hard;
                # take a random pattern and let the model say whether it is well-formed
                ranks = sorted(rng.sample(range(1, 8), min(n, 7)))
            elif r < 0.85:
                ranks = [rng.randint(1, 7) for _ in range(n)]
            else:
                ranks = [rng.randint(1, 7) for _ in range(n)]
            for rk in ranks:
                cons.append((rng.choice(B.CMPRS), rk))
            if rng.random() < 0.08:
                cons.insert(rng.randint(0, len(cons)), ("star", None))
            rng.shuffle(cons)
            x = rng.randint(0, 8)
            jobs.append((cons, m, x))
            lines.append("rcontains %s %d" % (B.cons_line(cons), x))
        answers = common.run_model(lines)
        for (cons, m, x), line, ans in zip(jobs, lines, answers):
            objs = B.real_cons(bench, cons, m)
            xv = bench.alt(m[x], rng)[1]
            def run():
                r = bench.rclass(constraints=objs)
                a = xv in r
                b = r.contains(xv)
                if a != b:
                    return "mismatch"
                return a
            impl = B.res_bool(run)
            parts = ans.split(" ")
            model = parts[0]
            wf = len(parts) == 3 and parts[2] == "true"
            spec = parts[1] if len(parts) == 3 else None
            ctx.count(stream, key=line, nontrivial=len(cons) >= 2, branch="wf" if wf else "not-wf",
                      error=impl[4:] if impl.startswith("err:") else None)
            if wf and impl != "ok:" + spec:
                d = B.describe(bench, cons, m, x)
                ctx.disagree(stream, line, impl, model, True, d, spec=spec)
            elif impl != model:
                ctx.disagree(stream, line, impl, model, False, B.describe(bench, cons, m, x), spec=spec)
        if name == "deb" and lines:
            ctx.sample({"line": lines[0], "model": answers[0], "scheme": name})


INV = {"ge": "lt", "le": "gt", "ne": "eq", "lt": "ge", "gt": "le", "eq": "ne"}


def _wf_pattern(rng, n):
    """a well-formed comparator sequence of length n (version-sorted): alternating bounds with '=' and '!=' sprinkled
    where the rules allow them; or only '=', only '!=', or '=' and '!='"""
    r = rng.random()
    if r < 0.2:
        return ["eq"] * n
    if r < 0.3:
        return ["ne"] * n
    if r < 0.4:
        return [rng.choice(["eq", "ne"]) for _ in range(n)]
    out = []
    want_lower = rng.random() < 0.5        # the next bound is a lower one
    after_eq_ok = True
    for _ in range(n):
        q = rng.random()
        if q < 0.2:
            out.append("ne")
        elif q < 0.4 and want_lower:
            out.append("eq")               # '=' only where the next bound is a lower bound (or there is none)
        elif want_lower:
            out.append(rng.choice(["gt", "ge"]))
            want_lower = False
        else:
            out.append(rng.choice(["lt", "le"]))
            want_lower = True
    return out


def _long_and_routes(ctx):
    """(1) long ranges: ten to fourteen constraints (a fast path for long lists is a plausible optimisation), tested at
    and between every constraint version, at a constraint version in another spelling of it; (2) the same range
    obtained by other routes than the constructor: by inverting the range of the inverted constraints, by printing
    and parsing"""
    from univers.version_range import VersionRange, RANGE_CLASS_BY_SCHEMES
    per = 60 if ctx.thorough else (40 if ctx.deepen else 10)
    for name in S.ALL:
        rng = ctx.rng("c04-long", name)
        bench = B.Bench(name, rng, size=34, need_hash=False, respell=0.5)
        stream = "long-ranges:" + name
        nmax = min(14, (bench.pool.n() - 2) // 2)
        if nmax < 6:
            ctx.stream(stream)["skipped"] = "pool too small (%d classes)" % bench.pool.n()
            continue
        jobs = []
        for i in range(per):
            n = rng.randint(min(10, nmax), nmax) if i % 3 else rng.randint(1, 4)
            jobs.append(B.sorted_cons(_wf_pattern(rng, n)))
        jobs.append(B.sorted_cons(["eq"] * nmax))
        jobs.append(B.sorted_cons(["ne"] * nmax))
        jobs.append(B.sorted_cons(["eq"] * min(10, nmax)))
        lines, idx = [], {}
        for j, cons in enumerate(jobs):
            for x in range(1, 2 * len(cons) + 2):
                idx[(j, x)] = len(lines)
                lines.append("contains %s %d" % (B.cons_line(cons), x))
        answers = common.run_model(lines)
        rcls = bench.rclass
        registered = S.rclass(name) is not None and RANGE_CLASS_BY_SCHEMES.get(rcls.scheme) is rcls
        for j, cons in enumerate(jobs):
            n = len(cons)
            m = bench.mapping(2 * n + 2, rng)
            objs = B.real_cons(bench, cons, m)
            routes = [("contains_version", lambda v: contains_version(v, tuple(objs)))]
            try:
                r0 = rcls(constraints=list(objs))
                routes.append(("range", lambda v, r0=r0: v in r0))
                routes.append(("range.contains()", lambda v, r0=r0: r0.contains(v)))
            except Exception:  # noqa: BLE001
                pass
            try:
                inv = [VersionConstraint(comparator=B.TXT[INV[c]], version=m[r][1]) for c, r in cons]
                r1 = rcls(constraints=inv).invert()
                if r1 is not None:
                    routes.append(("inverse of the inverted constraints", lambda v, r1=r1: v in r1))
            except Exception:  # noqa: BLE001
                pass
            if registered:
                try:
                    r2 = VersionRange.from_string(str(r0))
                    if list(r2.constraints) == list(r0.constraints):
                        routes.append(("printed and parsed", lambda v, r2=r2: v in r2))
                except Exception:  # noqa: BLE001
                    pass
            for x in range(1, 2 * n + 2):
                model, spec, wf = answers[idx[(j, x)]].split(" ")
                if wf != "true":
                    continue
                probes = [m[x]] + ([e for e in bench.spellings(m[x]) if e[1] is not m[x][1]][:3] if x % 2 == 0 else [])
                for xt, xv in probes:
                    for rname, fn in routes:
                        impl = B.res_bool(lambda: fn(xv))
                        ctx.count(stream, key=(j, x, xt, rname), nontrivial=n >= 2, branch="n>=10" if n >= 10 else "short")
                        if impl != "ok:" + spec:
                            d = B.describe(bench, cons, m, x)
                            d["version"] = xt
                            d["route"] = rname
                            d["python"] = _oneliner(name, d)
                            ctx.disagree(stream, lines[idx[(j, x)]] + " via " + rname, impl, model, True, d, spec=spec)
                            break


def search(ctx):
    """a tie is broken and the sweep found nothing.  Where the real operators rank two versions of a pool the other way
    round than the scheme's Lean model (`layerb.MISMATCHES`), the one-constraint ranges on either of them, asked about
    the other, are put to the implementation and to the end-to-end model (text layer ∘ constructor ∘ sort ∘ membership,
    with the model's order, which is the scheme's reference order): a differing answer is a concrete input on which
    membership is not the set the constraints denote."""
    from univers.version_range import VersionRange
    work = []
    for mm in B.MISMATCHES[:6]:
        name = mm["scheme"]
        rcls = S.rclass(name)
        if rcls is None:
            continue
        for x, y in ((mm["a"], mm["b"]), (mm["b"], mm["a"])):
            if any((not t) or (not t.isascii()) or any(ch in t for ch in "|\\'\" \t\n") or t[0] in "<>=!*vV" for t in (x, y)):
                continue
            for c in (">=", "<=", ">", "<"):
                work.append((name, "vers:%s/%s%s" % (rcls.scheme, c, y), x))
    if not work:
        return
    ans = common.run_model(["e2e %s %s" % (common.hx(t), common.hx(x)) for _n, t, x in work])
    for (name, t, x), a in zip(work, ans):
        if not a.startswith("ok:"):
            continue
        vcls = S.vclass(name)
        impl = B.res_bool(lambda: vcls(x) in VersionRange.from_string(t))
        ctx.count("search-order-mismatch:" + name, key=(t, x), nontrivial=True)
        if impl != a:
            ctx.disagree("search-order-mismatch:" + name, "e2e %r %r" % (t, x), impl, a, True,
                         {"scheme": name, "vers": t, "version": x,
                          "clause": "membership differs from the end-to-end model, whose order of these two versions is the scheme's reference order",
                          "python": "from univers.version_range import VersionRange as R; from univers.versions import %s as V; print(V(%r) in R.from_string(%r))"
                                    % (vcls.__name__, x, t)}, spec=a)


def _end_to_end(ctx):
    """characters in, answer out: `version_class(x) in VersionRange.from_string(t)` of the real code against the
    Lean end-to-end model (text layer ∘ constructor ∘ sort ∘ membership; theorem contains_text_eq_denote) and
    against the interval-set meaning on ranks"""
    from harness.props.c13 import _variants
    from univers.version_range import VersionRange, RANGE_CLASS_BY_SCHEMES
    per = 400 if ctx.thorough else 60
    for name in S.ALL:
        rcls = S.rclass(name)
        if rcls is None or RANGE_CLASS_BY_SCHEMES.get(rcls.scheme) is not rcls:
            continue
        rng = ctx.rng("c04-e2e", name)
        bench = B.Bench(name, rng, size=14, need_hash=False)
        stream = "end-to-end:" + name
        if not bench.ok(9):
            ctx.stream(stream)["skipped"] = "pool too small"
            continue
        jobs, vlines = [], []
        for _ in range(per * 3):
            k = rng.choice([1, 2, 2, 3, 4])
            ranks = sorted(rng.sample(range(1, 9), k))
            cons = [(rng.choice(B.CMPRS), r) for r in ranks]
            jobs.append(cons)
            vlines.append("validate %s" % B.cons_line(cons))
        wf = [c for c, a in zip(jobs, common.run_model(vlines)) if a.endswith("true")][:per]
        work = []
        for cons in wf:
            m = bench.mapping(10, rng)
            # canonical texts (what str(version) prints), safe to write in a vers string
            texts = {r: str(m[r][1]) for r in range(10)}
            if any((not t) or (not t.isascii()) or any(ch in t for ch in "|\\'\" \t\n") or t[0] in "<>=!*vV" for t in texts.values()):
                continue
            try:
                if any(not (S.vclass(name)(texts[r]) == m[r][1]) for r in range(10)):
                    continue        # version text that does not round-trip is C11's business
            except Exception:  # noqa: BLE001
                continue
            items = [(B.TXT[c] if c != "eq" else "") + texts[r] for c, r in cons]
            t = _variants(rng, rcls.scheme, items)[0]
            x = rng.randint(0, 9)
            work.append((cons, t, x, texts[x]))
        lines = ["e2e %s %s" % (common.hx(t), common.hx(xt)) for _c, t, _x, xt in work]
        dl = ["denote %s %d" % (B.cons_line(c), x) for c, _t, x, _xt in work]
        ans = common.run_model(lines) if lines else []
        den = common.run_model(dl) if dl else []
        vcls = S.vclass(name)
        for (cons, t, x, xt), a, d in zip(work, ans, den):
            if a == "nomodel":
                ctx.stream(stream)["skipped"] = "no Layer-A model wired for this version class"
                break
            impl = B.res_bool(lambda: vcls(xt) in VersionRange.from_string(t))
            spec = "ok:" + d.split(" ")[0]
            ctx.count(stream, key=(t, xt), nontrivial=len(cons) >= 2)
            rep = {"scheme": name, "vers": t, "version": xt,
                   "python": "from univers.version_range import VersionRange as R; from univers.versions import %s as V; print(V(%r) in R.from_string(%r))" % (vcls.__name__, xt, t)}
            if impl != spec:
                ctx.disagree(stream, "e2e %r %r" % (t, xt), impl, a, True, rep, spec=spec)
            elif impl != a:
                ctx.disagree(stream, "e2e %r %r" % (t, xt), impl, a, False, rep, spec=spec)


def _cross_scheme(ctx, label="c04-cross"):
    """the same constraint texts and the same tested text under several schemes, interleaved in one process"""
    rng = ctx.rng(label)
    tables = B.cross_tables(need_hash=False)
    work = []
    for _ in range(400 if ctx.thorough else 150):
        n = rng.choice([1, 2, 2, 3])
        texts = rng.sample(B.SHARED_TEXTS, n + 1)
        probe, texts = texts[0], texts[1:]
        cmps = [rng.choice(B.CMPRS) for _ in range(n)]
        names = [nm for nm in tables if all(t in tables[nm][0] for t in texts + [probe])]
        rng.shuffle(names)
        for nm in names:
            rk = tables[nm][0]
            order = sorted(zip(cmps, texts), key=lambda ct: rk[ct[1]])
            if len({rk[t] for _, t in order}) != n:
                continue
            work.append((nm, order, probe))
    lines = ["contains %s %d" % (B.cons_line([(c, 2 * tables[nm][0][t] + 2) for c, t in order]), 2 * tables[nm][0][probe] + 2)
             for nm, order, probe in work]
    answers = common.run_model(lines) if lines else []
    for (nm, order, probe), line, ans in zip(work, lines, answers):
        stream = "cross-scheme:" + nm
        objs = tables[nm][1]
        cons = tuple(VersionConstraint(comparator=B.TXT[c], version=objs[t]) for c, t in order)
        impl = B.res_bool(lambda: contains_version(objs[probe], cons))
        model, spec, wf = ans.split(" ")
        ctx.count(stream, key=line + "|" + probe + "|" + ",".join(t for _, t in order), nontrivial=len(order) >= 2,
                  branch="wf" if wf == "true" else "not-wf")
        d = {"scheme": nm, "constraints": [B.TXT[c] + t for c, t in order], "version": probe,
             "history": "the same texts were tested under other schemes earlier in this process"}
        if wf == "true" and impl != "ok:" + spec:
            d["python"] = _oneliner(nm, d)
            ctx.disagree(stream, line, impl, model, True, d, spec=spec)
        elif impl != model:
            ctx.disagree(stream, line, impl, model, False, d, spec=spec)
