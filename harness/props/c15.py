"""C15 — advisory notations convert to exactly the constraints they state."""
from harness import common, schemes as S, textcommon as T
from harness import corr_textvers as CT

from univers import version_range as VR
from univers.version_constraint import VersionConstraint
from univers.version_range import VersionRange

MODULES = ["Univers.Props.C15", "Univers.Text.AdvisoryTables"]
_A = "Univers.Text.Advisory."
THEOREMS = {"Univers.Text.AdvisoryThm": [_A + n for n in (
    "github_exact", "github_exact_scheme", "snyk_exact", "snyk_exact_scheme", "gitlab_exact", "gitlab_exact_dict",
    "notations_agree", "split_req_order_ok_github", "split_req_order_ok_snyk")]}
LEVEL = "proof"
# function-level tie (translator + agreement theorems, on ASCII text): see runner step 3a
TIE_THEOREMS = {"Univers.Text.GenSplitReqThm": ["Univers.Gen.Text.py_split_req_eq", "Univers.Gen.Text.py_split_req_bracket_eq"],
                "Univers.Text.GenAdvisoryThm": ["Univers.Gen.Text.py_github_constraint_eq", "Univers.Gen.Text.py_github_range_eq",
                                                "Univers.Gen.Text.py_snyk_range_eq"],
                "Univers.Text.GenAdvisoryExact": ["Univers.Gen.Text.py_github_exact", "Univers.Gen.Text.py_snyk_exact"]}
RULE = ("(1) the advisory converters of the real code against the Lean model on generated and mutated expressions of each "
        "notation; (2) the property's oracle on the real code: a seeded logical range (list of comparator/version pairs over "
        "versions of the scheme's grammar) is rendered in the GitHub notation, the three Snyk notations (comma, space, bracket "
        "interval), the GitLab notation of every supported package type ('||' alternatives, every comparator spelling, optional "
        "spaces, list or string input) and as vers text; every conversion must give a range of the right scheme whose constraints "
        "are exactly the stated pairs, all equal to one another; non-trivial = two or more clauses")
ASSUMPTIONS = ["version text does not begin with a comparator character and contains no separator of the notation", "ASCII"]

TXT = {"ge": ">=", "le": "<=", "ne": "!=", "lt": "<", "gt": ">", "eq": "="}
GITLAB = {"gem": "gem", "go": "golang", "npm": "npm", "pypi": "pypi", "packagist": "composer"}


def _safe(t):
    return t and t.isascii() and t[0] not in "<>=!*~^([" and not any(c in t for c in " \t\n,|()[]\\'\"")


def _expected(rc, pairs):
    return rc(constraints=[VersionConstraint(comparator=TXT[c], version=rc.version_class(v)) for c, v in pairs])


def _spell(rng, c, native):
    """a native spelling of comparator c from the dict `native` (native text -> vers text)"""
    opts = [k for k, v in native.items() if v == TXT[c]]
    return rng.choice(opts) if opts else None


def _gitlab_delegated(ctx):
    """GitLab ranges of the package types that are handed to the native converters (maven, nuget, conan): the result is
    a range of that scheme whose constraints are the stated pairs, on versions of that scheme's own class"""
    import itertools
    for gl, scheme in (("maven", "maven"), ("nuget", "nuget"), ("conan", "conan")):
        rc = VR.RANGE_CLASS_BY_SCHEMES[scheme]
        rng = ctx.rng("c15-delegated", scheme)
        stream = "notations:" + scheme
        for _ in range(30):
            a, b = sorted([(rng.randint(0, 9), rng.randint(0, 9), rng.randint(0, 9)) for _ in range(2)])
            if a == b:
                continue
            ta, tb = "%d.%d.%d" % a, "%d.%d.%d" % b
            if scheme == "conan":
                cases = [(">=%s <%s" % (ta, tb), [("ge", ta), ("lt", tb)]), ("=%s" % ta, [("eq", ta)]), (">%s" % ta, [("gt", ta)]),
                         (">=%s <%s || =%s" % (ta, ta[:-1] + str(a[2] + 1), tb), None)]
            else:
                cases = [("[%s]" % ta, [("eq", ta)]), ("[%s,%s)" % (ta, tb), [("ge", ta), ("lt", tb)]), ("(%s,%s]" % (ta, tb), [("gt", ta), ("le", tb)]),
                         ("[%s],[%s,)" % (ta, tb), [("eq", ta), ("ge", tb)]), ("(,%s]" % ta, [("le", ta)])]
            for expr, pairs in cases:
                ctx.count(stream, key=("gitlab", expr), nontrivial=True, branch="delegated")
                why = None
                try:
                    got = VR.from_gitlab_native(gl, expr)
                    if type(got) is not rc:
                        why = "result has type %s" % type(got).__name__
                    elif any(type(c.version) is not rc.version_class for c in got.constraints if c.version is not None):
                        why = "a constraint holds a %s, the scheme's versions are %s" % (
                            next(type(c.version).__name__ for c in got.constraints if type(c.version) is not rc.version_class), rc.version_class.__name__)
                    elif pairs is not None:
                        want = _expected(rc, pairs)
                        if not (got == want) or str(got) != str(want):
                            why = "result %s differs from the stated constraints %s" % (got, want)
                    if why is None:
                        back = VersionRange.from_string(str(got))
                        if not (back == got):
                            why = "the result %s does not equal the range its own text says" % got
                        rc.version_class(ta) in got
                except Exception as e:  # noqa: BLE001
                    why = "raises %s: %s" % (type(e).__name__, e)
                if why:
                    ctx.disagree(stream, "gitlab %s %r" % (gl, expr), why, "the stated constraints", True,
                                 {"scheme": scheme, "notation": "gitlab", "expression": expr, "clause": why}, spec="the stated constraints")
                    break


def _gitlab_unsupported(ctx):
    """a comparator the package type's table does not translate (PyPI '~=' and '==='): the converter refuses the
    expression; it does not answer with another comparator"""
    for gl, scheme, ops in (("pypi", "pypi", ["~=", "==="]),):
        rc = VR.RANGE_CLASS_BY_SCHEMES[scheme]
        for op in ops:
            if rc.vers_by_native_comparators.get(op, "missing") not in (None, "missing"):
                continue      # the table translates it now: then it is an ordinary comparator
            for expr in ("%s1.2.3" % op, ">=1.0,%s1.2.3" % op, "%s 1.2.3" % op):
                ctx.count("notations:" + scheme, key=("gitlab-unsupported", expr), nontrivial=True, branch="unsupported")
                try:
                    got = VR.from_gitlab_native(gl, expr)
                except ValueError:
                    continue
                except Exception as e:  # noqa: BLE001
                    ctx.disagree("notations:" + scheme, "gitlab %s %r" % (gl, expr), "raises %s" % type(e).__name__, "ValueError", True,
                                 {"scheme": scheme, "expression": expr, "clause": "an unsupported comparator raises %s" % type(e).__name__},
                                 spec="ValueError")
                    continue
                ctx.disagree("notations:" + scheme, "gitlab %s %r" % (gl, expr), "answers %s" % got, "ValueError", True,
                             {"scheme": scheme, "expression": expr,
                              "clause": "the comparator %r is not one the notation translates, yet the converter answers %s" % (op, got)},
                             spec="ValueError")


def correspondence(ctx):
    n = 40000 if ctx.thorough else 2000
    T.run_corr(ctx, "corr_advisory", "advisory-model", n)
    per = 1000 if ctx.thorough else 50
    schemes = [k for k in VR.RANGE_CLASS_BY_SCHEMES]
    for scheme in schemes:
        rc = VR.RANGE_CLASS_BY_SCHEMES[scheme]
        gname = CT.gen_name_of(rc.version_class)
        rng = ctx.rng("c15", scheme)
        stream = "notations:" + scheme
        for _ in range(per):
            k = rng.choice([1, 2, 2, 3, 3, 4])
            pairs = []
            tries = 0
            while len(pairs) < k and tries < 30:
                tries += 1
                try:
                    s, _v = S.gen_valid(gname, rng)
                    v = rc.version_class(s)
                except Exception:  # noqa: BLE001
                    continue
                t = str(v)
                if not _safe(t) or not _safe(s):
                    continue
                try:
                    if rc.version_class(t) != v:
                        continue
                except Exception:  # noqa: BLE001
                    continue
                pairs.append((rng.choice(list(TXT)), t))
            if not pairs:
                continue
            try:
                want = _expected(rc, pairs)
            except TypeError:
                continue
            ctx.count(stream, key=tuple(pairs), nontrivial=len(pairs) >= 2)
            results = {}
            # insignificant blanks: a space mostly, now and then another blank (tab, line end of a folded YAML value)
            sp = lambda: rng.choice(["", "", "", " ", " ", " ", "\t", "\n", "\r\n", " \t"])  # noqa: E731
            # GitHub
            items = ["%s%s%s%s%s" % (sp(), _spell(rng, c, VR.vers_by_github_native_comparators), sp(), v, sp()) for c, v in pairs]
            gh = ",".join(items)
            results["github"] = lambda: VR.build_range_from_github_advisory_constraint(scheme, gh)
            results["github-list"] = lambda: VR.build_range_from_github_advisory_constraint(scheme, items)
            # the items given as a tuple, and as a one-shot iterable (an iterator, map()): lists like any other
            results["github-tuple"] = lambda: VR.build_range_from_github_advisory_constraint(scheme, tuple(items))
            results["github-iterator"] = lambda: VR.build_range_from_github_advisory_constraint(scheme, iter(list(items)))
            results["github-map"] = lambda: VR.build_range_from_github_advisory_constraint(scheme, map(str, items))
            # Snyk comma / space
            sk = [(_spell(rng, c, VR.vers_by_snyk_native_comparators), v) for c, v in pairs]
            sc = "".join(("," + (sp() or " ") if i else "") + "%s%s" % (o, v) for i, (o, v) in enumerate(sk))
            if len(sk) > 1:
                results["snyk-comma"] = lambda: VR.build_range_from_snyk_advisory_string(scheme, sc)
            ss = " ".join("%s%s" % (o, v) for o, v in sk)
            results["snyk-space"] = lambda: VR.build_range_from_snyk_advisory_string(scheme, ss)
            # Snyk list input, each item in its own notation
            if len(sk) > 1:
                cut = rng.randint(1, len(sk) - 1)
                chunks = [sk[:cut], sk[cut:]]
                def item(ch, pr):
                    if len(ch) == 1 and pr[0][0] in ("lt", "le", "gt", "ge") and rng.random() < 0.6:
                        c, v = pr[0]
                        return {"lt": "(,%s)", "le": "(,%s]", "gt": "(%s,)", "ge": "[%s,)"}[c] % v
                    return rng.choice([", ", " ", " ", ","]).join("%s%s" % (o, v) for o, v in ch)
                mixed = [item(chunks[0], pairs[:cut]), item(chunks[1], pairs[cut:])]
                results["snyk-list"] = lambda mixed=mixed: VR.build_range_from_snyk_advisory_string(scheme, mixed)
                results["snyk-iterator"] = lambda mixed=mixed: VR.build_range_from_snyk_advisory_string(scheme, iter(list(mixed)))
            # Snyk bracket interval for a lower+upper pair
            if len(pairs) == 2 and pairs[0][0] in ("gt", "ge") and pairs[1][0] in ("lt", "le"):
                br = ("[" if pairs[0][0] == "ge" else "(") + pairs[0][1] + "," + pairs[1][1] + ("]" if pairs[1][0] == "le" else ")")
                results["snyk-bracket"] = lambda: VR.build_range_from_snyk_advisory_string(scheme, br)
            # GitLab
            for gl, purl in GITLAB.items():
                if purl != scheme:
                    continue
                native = rc.vers_by_native_comparators
                ops = [(_spell(rng, c, native), v) for c, v in pairs]
                if any(o is None for o, _ in ops):
                    continue
                sep = "," if purl == "pypi" else " "
                if rng.random() < 0.5 and sep == " ":
                    g = "||".join("%s%s" % (o, v) for o, v in ops)
                elif sep == ",":
                    g = "".join(("," + sp() if i else "") + "%s%s%s" % (o, sp(), v) for i, (o, v) in enumerate(ops))
                else:
                    g = sep.join("%s%s" % (o, v) for o, v in ops)
                results["gitlab"] = lambda g=g, gl=gl: VR.from_gitlab_native(gl, g)
                if sep == " ":
                    # every comparator written as an item of its own (`== 1.0.0 >= 2.0.0`)
                    g3 = " ".join("%s %s" % (o, v) if o else v for o, v in ops)
                    results["gitlab-spaced-comparators"] = lambda g3=g3, gl=gl: VR.from_gitlab_native(gl, g3)
                # the purl type is accepted in place of the GitLab name
                results["gitlab-purl-name"] = lambda g=g, purl=purl: VR.from_gitlab_native(purl, g)
                if purl == "composer":
                    g2 = "".join(("," + sp() if i else "") + "%s%s" % (o, v) for i, (o, v) in enumerate(ops))
                    results["gitlab-comma"] = lambda g2=g2, gl=gl: VR.from_gitlab_native(gl, g2)
                    results["gitlab-comma-purl-name"] = lambda g2=g2, purl=purl: VR.from_gitlab_native(purl, g2)
            # vers
            vt = "vers:%s/%s" % (scheme, "|".join((TXT[c] if c != "eq" else "") + v for c, v in pairs))
            results["vers"] = lambda: VersionRange.from_string(vt)
            for kind, f in results.items():
                try:
                    got = f()
                    why = None
                    if type(got) is not rc:
                        why = "result has type %s" % type(got).__name__
                    elif not (got == want) or str(got) != str(want):
                        why = "result %s differs from the stated constraints %s" % (got, want)
                except Exception as e:  # noqa: BLE001
                    why = "raises %s: %s" % (type(e).__name__, e)
                    if kind.endswith(("-iterator", "-map", "-tuple")):
                        why = None      # refusing such an argument is an answer of its own, not a wrong conversion
                if why:
                    ctx.disagree(stream, "%s %s" % (kind, pairs), why, str(want), True,
                                 {"scheme": scheme, "notation": kind, "pairs": pairs, "clause": why,
                                  "texts": {"github": gh, "snyk-comma": sc, "snyk-space": ss, "vers": vt}}, spec=str(want))
    _gitlab_delegated(ctx)
    _gitlab_unsupported(ctx)
    ctx.sample({"github": ">= 1.0.0, < 2.0.0", "scheme": "npm",
                "result": common.safe(lambda: VR.build_range_from_github_advisory_constraint("npm", ">= 1.0.0, < 2.0.0"))})
