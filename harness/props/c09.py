"""C09 — inverting a range yields its complement, and inverting twice yields the original."""
from harness import common, layerb as B, schemes as S

from univers.version_constraint import VersionConstraint

MODULES = ["Univers.Props.C09", "Univers.Props.Schemes"]
LEVEL = "proof"
# function-level tie (translator + agreement theorems): see runner step 3a
TIE_THEOREMS = {"Univers.Vers.GenLayerBExact": ["Univers.Gen.LayerB.py_invert_complement"],
                "Univers.Vers.GenConInvertThm": ["Univers.Gen.LayerB.con_is_star_eq", "Univers.Gen.LayerB.con_invert_eq"], "Univers.Vers.GenRangeInvertThm": ["Univers.Gen.LayerB.range_is_star_eq", "Univers.Gen.LayerB.range_invert_eq"]}
RULE = ("bounded-exhaustive: every comparator sequence up to length L on version-sorted distinct versions; the real "
        "range.invert() is compared constraint by constraint with the Lean model, its membership with the complement "
        "of the spec `denote` at every probe position, and invert().invert() with the original; single constraints: "
        "all six comparators x three probe positions; non-trivial = well-formed, non-vacuous, two or more constraints")
ASSUMPTIONS = [
    "lawful operators per scheme (C02)",
    "the empty range is excluded (its inverse is empty again; it has no vers text)",
]


def _twins(ctx):
    """one version in two spellings under a lower and an upper bound (`<1.2|>=0:1.2`): such a list names one version twice,
    so validation refuses it; where it does not, the range and its inverse both hold every version -- the complement law
    fails on a range that validation calls well-formed"""
    from harness import schemes as S, layerb as B
    from univers.version_constraint import VersionConstraint
    for name in S.ALL:
        rng = ctx.rng("c09-twins", name)
        pool = B.Bench(name, rng, size=14, need_hash=False, respell=0.7).pool
        R = S.rclass(name) or B._generic_range_for(S.vclass(name))
        done = 0
        for cl in pool.classes:
            if len(cl) < 2 or done >= 6:
                continue
            (t1, v1), (t2, v2) = cl[0], cl[1]
            done += 1
            for c1, c2 in (("<", ">="), ("<=", ">"), (">=", "<")):
                cons = [VersionConstraint(comparator=c1, version=v1), VersionConstraint(comparator=c2, version=v2)]
                ctx.count("twins:" + name, key=(c1 + t1, c2 + t2), nontrivial=True)
                try:
                    VersionConstraint.validate(list(cons))
                except Exception:  # noqa: BLE001 — refused: as it should be
                    continue
                if name == "maven":
                    continue        # K09: validation accepts maven twins (hash of the text), recorded
                try:
                    r = R(constraints=cons)
                    inv = r.invert()
                    both = [(t, (v in r), (v in inv)) for t, v in ((t1, v1), (t2, v2))]
                except Exception:  # noqa: BLE001
                    continue
                bad = [b for b in both if b[1] == b[2]]
                if bad:
                    ctx.disagree("twins:" + name, "%s%s|%s%s" % (c1, t1, c2, t2), "validation accepts it; %s is in the range: %s, in its inverse: %s" % bad[0],
                                 "refused, or complemented", True,
                                 {"scheme": name, "constraints": [c1 + t1, c2 + t2], "inverse": str(inv),
                                  "clause": "a range that validation accepts holds a version together with its inverse (or neither does)"},
                                 spec="refused, or complemented")
                    break


def _extra_fields_survive(ctx):
    """"inverting it again gives back a range equal to the original": also for a range class that carries more than its
    constraints (an attrs field a subclass adds): whatever the class compares in `==` must come back after two inversions"""
    import attr
    from univers import version_range as VR
    from univers.version_constraint import VersionConstraint
    for scheme, rc in sorted(VR.RANGE_CLASS_BY_SCHEMES.items()):
        try:
            extra = [f for f in attr.fields(rc) if f.name != "constraints" and f.init]
        except Exception:  # noqa: BLE001
            continue
        ctx.count("extra-fields", key=scheme, nontrivial=bool(extra))
        if not extra or rc.version_class is None:
            continue
        try:
            vs = [rc.version_class(t) for t in ("1.0.0", "2.0.0")]
        except Exception:  # noqa: BLE001
            try:
                vs = [rc.version_class(t) for t in ("1.0", "2.0")]
            except Exception:  # noqa: BLE001
                continue
        cons = [VersionConstraint(comparator=">=", version=vs[0]), VersionConstraint(comparator="<", version=vs[1])]
        for sample in ("libfoo", 7, ("a", "b")):
            kw = {f.name: sample for f in extra}
            try:
                r = rc(constraints=cons, **kw)
                back = r.invert().invert()
            except Exception:  # noqa: BLE001 — a field that does not take this value
                continue
            if not (back == r) or hash(back) != hash(r):
                ctx.disagree("extra-fields", "%s(%s)" % (rc.__name__, ", ".join("%s=%r" % kv for kv in kw.items())),
                             "invert().invert() != range", "equal", True,
                             {"range_class": rc.__name__, "fields": sorted(kw), "range": repr(r), "twice_inverted": repr(back),
                              "clause": "a field of the range class is lost by inversion: inverting twice does not give back an equal range"},
                             spec="equal")
            break


def correspondence(ctx):
    _extra_fields_survive(ctx)
    _twins(ctx)
    L = 6 if ctx.thorough else (5 if ctx.deepen else 4)
    jobs = []
    for n in range(1, L + 1):
        for p in B.all_patterns(n):
            jobs.append(B.sorted_cons(p))
    jobs.append([("star", None)])
    lines = ["invert %s" % B.cons_line(c) for c in jobs]
    answers = common.run_model(lines)
    # complement lines for the in-domain patterns
    dom = []
    for cons, ans in zip(jobs, answers):
        model, wf, nv = ans.split(" ")
        dom.append(wf == "true" and nv == "true" and cons != [("star", None)])
    dlines = []
    dindex = {}
    for i, cons in enumerate(jobs):
        if dom[i]:
            for x in range(1, 2 * len(cons) + 2):
                dindex[(i, x)] = len(dlines)
                dlines.append("denote %s %d" % (B.cons_line(cons), x))
    danswers = common.run_model(dlines)
    ctx.exhaustive = True
    for name in S.ALL:
        rng = ctx.rng("c09", name)
        bench = B.Bench(name, rng, size=2 * L + 6, need_hash=False)
        B.probe_unrankable(ctx, "C09", bench)
        stream = "invert:" + name
        if not bench.ok(2 * L + 2):
            ctx.stream(stream)["skipped"] = "pool too small"
            continue
        m = None
        for i, (cons, line, ans) in enumerate(zip(jobs, lines, answers)):
            if i % 40 == 0:
                m = bench.mapping(2 * L + 2, rng)
            objs = B.real_cons(bench, cons, m)
            inv_of = B.Inv(m)
            model = ans.split(" ")[0]
            try:
                # any collection, in any order: a list, or a tuple in another order than the version order
                arg = list(objs)
                if i % 2:
                    rng.shuffle(arg)
                    arg = tuple(arg)
                r = bench.rclass(constraints=arg)
                if dom[i]:
                    # history: the range answers membership questions BEFORE it is inverted (anything it remembers
                    # about them must not travel into the inverse)
                    for x in range(1, 2 * len(cons) + 2):
                        try:
                            m[x][1] in r
                        except Exception:  # noqa: BLE001
                            pass
                ri = r.invert()
                if ri is None:
                    impl = "none"
                else:
                    impl = "ok:" + B.cons_line(B.canon_cons(ri.constraints, inv_of))
            except Exception as e:  # noqa: BLE001
                impl = "err:" + B.exc_name(e)
                ri = None
            ctx.count(stream, key=line, nontrivial=dom[i] and len(cons) >= 2,
                      branch="in-domain" if dom[i] else "outside", error=impl[4:] if impl.startswith("err:") else None)
            indom = dom[i] or cons == [("star", None)]
            if impl != model:
                ctx.disagree(stream, line, impl, model, indom, B.describe(bench, cons, m), spec=model)
                continue
            if dom[i] and ri is not None:
                for x in range(1, 2 * len(cons) + 2):
                    # the same object that was put to the original, then another spelling of the same version
                    xv = m[x][1]
                    got = B.res_bool(lambda: xv in ri)
                    if x % 2 == 0 and got == B.res_bool(lambda: xv in ri):
                        xv = bench.alt(m[x], rng)[1]
                        got = B.res_bool(lambda: xv in ri)
                    den = danswers[dindex[(i, x)]].split(" ")[0]
                    want = "ok:false" if den == "true" else "ok:true"
                    ctx.count(stream + ":complement", key=(line, x), nontrivial=len(cons) >= 2)
                    if got != want:
                        ctx.disagree(stream + ":complement", "%s @%d" % (line, x), got, want, True,
                                     B.describe(bench, cons, m, x), spec=want)
                try:
                    back = ri.invert()
                    same = back == r and str(back) == str(r)
                except Exception as e:  # noqa: BLE001
                    same = "err:" + B.exc_name(e)
                ctx.count(stream + ":involution", key=line, nontrivial=len(cons) >= 2)
                if same is not True:
                    ctx.disagree(stream + ":involution", line, str(same), "equal", True, B.describe(bench, cons, m), spec="equal")
        # single constraints flip membership
        m = bench.mapping(3, rng)
        for c in B.CMPRS:
            con = bench.con(c, m[1][1])
            ic = con.invert()
            for x in range(3):
                a = B.res_bool(lambda: m[x][1] in con)
                b = B.res_bool(lambda: m[x][1] in ic)
                ctx.count(stream + ":single", key=(c, x), nontrivial=True)
                if not (a.startswith("ok:") and b.startswith("ok:") and a != b):
                    ctx.disagree(stream + ":single", "%s @%d" % (c, x), b, "not " + a, True,
                                 {"scheme": name, "constraint": B.TXT[c] + m[1][0], "version": m[x][0]}, spec="flipped")
        if name == "gem":
            ctx.sample({"line": lines[30], "model wf nonvacuous": answers[30], "scheme": name})
    _shared_version_class(ctx, jobs, answers, dom)


def _shared_version_class(ctx, jobs, answers, dom):
    """range classes that share one version class (npm, cargo, hex, github, generic, apache, mozilla, mattermost all
    hold SemverVersion): the same constraint objects inverted under each of them, in one process — the inverse must be
    of the class it was asked of, and inverting it again must give the original back"""
    from univers import version_range as VR
    by_vc = {}
    for scheme, rc in VR.RANGE_CLASS_BY_SCHEMES.items():
        if rc.version_class is not None:
            by_vc.setdefault(rc.version_class, []).append(rc)
    rng = ctx.rng("c09-shared")
    for vc, rcs in by_vc.items():
        if len(rcs) < 2:
            continue
        name = next((n for n in S.ALL if S.vclass(n) is vc), None)
        if name is None:
            continue
        need = max([r for c in jobs for _k, r in c if r is not None] + [8]) + 2
        bench = B.Bench(name, rng, size=need + 4)
        if not bench.ok(need):
            continue
        stream = "invert-shared:" + vc.__name__
        idx = [i for i in range(len(jobs)) if dom[i]]
        for i in rng.sample(idx, min(len(idx), 200 if ctx.thorough else 60)):
            cons = jobs[i]
            m = bench.mapping(need, rng)
            objs = B.real_cons(bench, cons, m)
            order = list(rcs)
            rng.shuffle(order)
            for rc in order:
                ctx.count(stream, key=(i, rc.__name__), nontrivial=len(cons) >= 2)
                try:
                    r = rc(constraints=list(objs))
                    ri = r.invert()
                    why = None
                    if type(ri) is not rc:
                        why = "the inverse of a %s is a %s" % (rc.__name__, type(ri).__name__)
                    elif not (ri.invert() == r) or str(ri.invert()) != str(r):
                        why = "inverting twice gives %s, not %s" % (ri.invert(), r)
                except Exception as e:  # noqa: BLE001
                    why = "raises %s" % B.exc_name(e)
                if why:
                    ctx.disagree(stream, "invert %s as %s" % (B.cons_line(cons), rc.__name__), why, "inverse of the same class; involution", True,
                                 dict(B.describe(bench, cons, m), range_class=rc.__name__,
                                      history="the same constraints were inverted under %s earlier in this process" % ", ".join(c.__name__ for c in order)),
                                 spec="involution")
                    break
