"""C07 — validation accepts exactly the well-formed constraint sequences."""
import itertools

from harness import common, layerb as B, schemes as S
from harness.known import replay_known  # noqa: F401

from univers.version_constraint import VersionConstraint

MODULES = ["Univers.Props.C07", "Univers.Props.Schemes"]
LEVEL = "proof"
# function-level tie (translator + agreement theorem): see runner step 3a
TIE_THEOREMS = {"Univers.Vers.GenLayerBExact": ["Univers.Gen.LayerB.py_validate_iff_wf", "Univers.Gen.LayerB.py_validate_rejects_with_ValueError"],
                "Univers.Vers.GenValidateThm": ["Univers.Gen.LayerB.validate_comparators_eq"], "Univers.Vers.GenConValidateThm": ["Univers.Gen.LayerB.con_validate_eq"]}
RULE = ("bounded-exhaustive: every comparator sequence up to length L over distinct versions, presented in a "
        "seeded random order, plus variants with one duplicated version and with stars, on real versions of every "
        "scheme, against the Lean model `validate` and the spec `WF` on ranks; accepted lists are then probed for "
        "membership at every position; non-trivial = two or more constraints; distinct = distinct (scheme, list)")
ASSUMPTIONS = [
    "the scheme's six operators are lawful and hash agrees with == (C02, C12): pool members violating this are left out and reported there",
    "a constraint is the star (no version) or one of the six comparators with a version",
]


def _lines(ctx, L):
    rng = ctx.rng("c07-lines")
    jobs = []
    for n in range(0, L + 1):
        for p in B.all_patterns(n):
            cons = B.sorted_cons(p)
            rng.shuffle(cons)
            jobs.append(list(cons))
            if n >= 2 and rng.random() < 0.35:
                # duplicate one version
                d = list(cons)
                i, j = rng.sample(range(n), 2)
                d[j] = (d[j][0], d[i][1])
                jobs.append(d)
            if rng.random() < 0.08:
                d = list(cons)
                d.insert(rng.randint(0, len(d)), ("star", None))
                jobs.append(d)
    jobs += [[("star", None)], [("star", None), ("star", None)], [("star", None), ("eq", 2)], [("eq", 2), ("star", None)]]
    return jobs


def correspondence(ctx):
    # the history-sensitive stream first, while nothing has been validated in this process yet (a memo with a size cap
    # is full after the sweep below), and once more after it
    _cross_scheme(ctx)
    L = 6 if ctx.thorough else (5 if ctx.deepen else 4)
    jobs = _lines(ctx, L)
    lines = ["validate %s" % B.cons_line(c) for c in jobs]
    answers = common.run_model(lines)
    ctx.exhaustive = True
    for name in S.ALL:
        rng = ctx.rng("c07", name)
        # need_hash=False: versions whose hash disagrees with == stay in the pool (validate's set() is then wrong:
        # maven, K09)
        bench = B.Bench(name, rng, size=2 * L + 6, need_hash=False, respell=0.6)
        B.probe_unrankable(ctx, "C07", bench)
        stream = "validate:" + name
        if not bench.ok(2 * L + 2):
            ctx.stream(stream)["skipped"] = "pool too small"
            continue
        if not bench.pool.hashable:
            ctx.stream(stream)["skipped"] = "versions of this scheme are unhashable (reported by C12): set() in validate raises"
            continue
        m = None
        for k, (cons, line, ans) in enumerate(zip(jobs, lines, answers)):
            if k % 40 == 0:
                m = bench.mapping(2 * L + 2, rng)
            model, wf = ans.split(" ")
            expected = "ok:true" if wf == "true" else "err:ValueError"
            # a version that occurs again is tried in every other spelling the pool knows
            for objs in B.real_cons_variants(bench, cons, m):
                arg = list(objs)
                impl = B.res_bool(lambda: VersionConstraint.validate(arg))
                ctx.count(stream, key=line, nontrivial=len(cons) >= 2, branch=expected,
                          error=impl[4:] if impl.startswith("err:") else None)
                if impl != expected:
                    d = B.describe(bench, cons, m, objs=objs)
                    d["python"] = ("from univers.versions import %s as V; from univers.version_constraint import VersionConstraint as C; "
                                   "print(C.validate([C.from_string(s, V) for s in %r]))" % (S.vclass(name).__name__, d["constraints"]))
                    region = "maven-hash-of-text" if (name == "maven" and impl == "ok:true" and len({r for c, r in cons if c != "star"}) < len([1 for c, r in cons if c != "star"])) else None
                    ctx.disagree(stream, line, impl, model, True, d, region=region, spec=expected)
                    break
                elif impl != model:
                    ctx.disagree(stream, line, impl, model, False, B.describe(bench, cons, m), spec=expected)
                    break
            _through_from_string(ctx, name, bench, cons, objs, expected, line, m)
            if impl == "ok:true" and len(cons) <= 4:
                # third clause: an accepted list can be tested for membership of any version
                r = bench.rclass(constraints=objs)
                for x in range(0, 2 * L + 2, 1):
                    out = B.res_bool(lambda: m[x][1] in r)
                    ctx.count(stream + ":member", key=(line, x), nontrivial=len(cons) >= 2)
                    if out.startswith("err:"):
                        d = B.describe(bench, cons, m, x)
                        ctx.disagree(stream + ":member", line + " @%d" % x, out, "ok:_", True, d, spec="no error")
        if name == "pypi":
            ctx.sample({"line": lines[50], "model wf": answers[50], "scheme": name})
    _cross_scheme(ctx, "c07-cross-after")
    _duplicate_spellings(ctx)
    _not_a_list(ctx)


def _through_from_string(ctx, name, bench, cons, objs, expected, line, m):
    """the same list through the parser: `VersionRange.from_string(text, validate=True)` must accept exactly what
    `validate` accepts, and with `simplify=True, validate=True` exactly what validation says about the simplified list"""
    from univers.version_range import VersionRange
    if S.rclass(name) is None or not cons:
        return
    stream = "from_string:" + name
    if any(c == "star" for c, _ in cons) and len(cons) >= 2:
        # a star among other constraints: the parser itself must refuse the text with a ValueError, under any flags
        try:
            text = "vers:%s/%s" % (S.rclass(name).scheme, "|".join(str(o) for o in objs))
        except Exception:  # noqa: BLE001
            return
        # ... and the star written with something behind it (`*5`, `*1.0`: the constraint parser reads any piece that
        # begins with `*` as the star)
        texts = [text]
        if "|*" in text or text.endswith("/*") is False:
            texts.append(text.replace("|*", "|*5", 1) if "|*" in text else text)
            texts.append(text.replace("|*", "|*1.0", 1) if "|*" in text else text)
        for text in dict.fromkeys(texts):
          for kw in ({}, {"validate": True}, {"simplify": True}, {"simplify": True, "validate": True}):
            got = B.res_bool(lambda: VersionRange.from_string(text, **kw) is not None)
            ctx.count(stream + ":star", key=(line, text, tuple(sorted(kw))), nontrivial=True)
            if got != "err:ValueError" and not (got == "ok:true" and all(c == "star" for c, _ in cons)):
                d = B.describe(bench, cons, m, objs=objs)
                d.update({"text": text, "flags": kw, "clause": "a star among other constraints: from_string %s, expected a ValueError" % got,
                          "python": "from univers.version_range import VersionRange as R; print(R.from_string(%r, **%r))" % (text, kw)})
                ctx.disagree(stream + ":star", line, got, "err:ValueError", True, d, spec="err:ValueError")
                return
        return
    try:
        text = "vers:%s/%s" % (S.rclass(name).scheme, "|".join(str(o) for o in objs))
        # every constraint's own text says that constraint (judged one by one: what the parser does with the LIST is
        # what is being tested)
        for o in objs:
            t1 = str(o)
            if "|" in t1 or VersionConstraint.from_string(t1, S.vclass(name)) != o:
                raise ValueError("the text does not say the same constraint")
    except Exception:  # noqa: BLE001
        ctx.count(stream, key=line, nontrivial=False, branch="text not usable")
        return
    got = B.res_bool(lambda: VersionRange.from_string(text, validate=True) is not None)
    ctx.count(stream, key=line, nontrivial=len(cons) >= 2, branch=expected)
    if got != expected and not (name == "maven" and got == "ok:true"):
        d = B.describe(bench, cons, m, objs=objs)
        d.update({"text": text, "clause": "from_string(validate=True) %s, validate() on the same list %s" % (got, expected),
                  "python": "from univers.version_range import VersionRange as R; print(R.from_string(%r, validate=True))" % text})
        ctx.disagree(stream, line, got, expected, True, d, spec=expected)
        return
    try:
        simp = VersionConstraint.simplify(sorted(objs))
        exp2 = B.res_bool(lambda: VersionConstraint.validate(list(simp)))
    except Exception:  # noqa: BLE001
        return
    got2 = B.res_bool(lambda: VersionRange.from_string(text, simplify=True, validate=True) is not None)
    ctx.count(stream + ":simplify+validate", key=line, nontrivial=len(cons) >= 2, branch=exp2)
    if got2 != exp2:
        d = B.describe(bench, cons, m, objs=objs)
        d.update({"text": text, "simplified": [str(c) for c in simp],
                  "clause": "from_string(simplify=True, validate=True) %s, validate() on the simplified list %s" % (got2, exp2),
                  "python": "from univers.version_range import VersionRange as R; print(R.from_string(%r, simplify=True, validate=True))" % text})
        ctx.disagree(stream + ":simplify+validate", line, got2, exp2, True, d, spec=exp2)


def _not_a_list(ctx):
    """"every other list is rejected with a ValueError": an argument that is not a list or tuple of constraints (an empty
    or non-empty str / bytes / range, a number, None, a list holding something that is not a constraint) is refused with a
    ValueError; the empty list and the empty tuple are accepted.  (Other collections of constraints -- a set, an iterator -- are
    left alone: accepting them would be a feature, not a violation.)"""
    from univers.versions import SemverVersion
    c = VersionConstraint(comparator=">=", version=SemverVersion("1.0.0"))
    cases = [("''", "", "err:ValueError"), ("b''", b"", "err:ValueError"), ("range(0)", range(0), "err:ValueError"), ("'abc'", "abc", "err:ValueError"),
             ("b'ab'", b"ab", "err:ValueError"), ("range(2)", range(2), "err:ValueError"), ("5", 5, "err:ValueError"), ("None", None, "err:ValueError"),
             ("[c, 'x']", [c, "x"], "err:ValueError"),
             ("[None]", [None], "err:ValueError"), ("()", (), "ok:true"), ("[]", [], "ok:true"), ("(c,)", (c,), "ok:true"), ("[c]", [c], "ok:true")]
    for label, arg, want in cases:
        got = B.res_bool(lambda: VersionConstraint.validate(arg))
        ctx.count("not-a-list", key=label, nontrivial=True, branch=want)
        if got != want:
            ctx.disagree("not-a-list", "validate(%s)" % label, got, want, True,
                         {"argument": label, "clause": "validate(%s) gives %s, expected %s" % (label, got, want)}, spec=want)


def search(ctx):
    """a tie is broken and the sweep found nothing.  If the table of comparators changed, the texts it newly admits are
    written into vers strings in the place of the comparator whose operator they name (the regenerated table says which):
    `from_string(text, validate=True)` must accept exactly the lists the specification accepts, and every accepted one can
    be tested for membership."""
    from univers.version_range import VersionRange
    new = [(t, n) for t, n in common.new_comparator_keys() if n in B.CMPRS and t and not any(ch in t for ch in "|/: ")]
    if not new:
        return
    for name in ("semver", "pypi", "deb", "maven"):
        if S.rclass(name) is None:
            continue
        rng = ctx.rng("c07-search", name)
        bench = B.Bench(name, rng, size=12, need_hash=False)
        if not bench.ok(9):
            continue
        stream = "search-new-comparators:" + name
        jobs = []
        for _ in range(250 if ctx.thorough else 120):
            k = rng.choice([1, 2, 2, 3, 3, 4])
            ranks = sorted(rng.sample(range(1, 9), k))
            kt, kn = rng.choice(new)
            cons = [(rng.choice(B.CMPRS), r) for r in ranks]
            i = rng.randrange(k)
            cons[i] = (kn, cons[i][1])
            jobs.append((cons, i, kt))
        answers = common.run_model(["validate %s" % B.cons_line(c) for c, _i, _kt in jobs])
        for (cons, i, kt), a in zip(jobs, answers):
            m = bench.mapping(10, rng)
            texts = {r: str(m[r][1]) for r in range(10)}
            if any((not t) or (not t.isascii()) or any(ch in t for ch in "|\\'\" \t\n") or t[0] in "<>=!*vV" for t in texts.values()):
                continue
            items = [((kt if j == i else (B.TXT[c] if c != "eq" else "")) + texts[r]) for j, (c, r) in enumerate(cons)]
            text = "vers:%s/%s" % (S.rclass(name).scheme, "|".join(items))
            expected = a.split(" ")[0]
            got = B.res_bool(lambda: VersionRange.from_string(text, validate=True) is not None)
            ctx.count(stream, key=text, nontrivial=True, branch=expected)
            rep = {"scheme": name, "text": text, "new_comparator": kt, "names_the_operator_of": B.TXT[cons[i][0]],
                   "python": "from univers.version_range import VersionRange as R; print(R.from_string(%r, validate=True))" % text}
            if got != expected:
                rep["clause"] = "from_string(validate=True) %s; the specification of validation says %s about this list" % (got, expected)
                ctx.disagree(stream, text, got, expected, True, rep, spec=expected)
                continue
            if got == "ok:true":
                r = VersionRange.from_string(text, validate=True)
                for q in range(10):
                    mem = B.res_bool(lambda: m[q][1] in r)
                    if not mem.startswith("ok:"):
                        rep.update({"version": texts[q], "clause": "an accepted list cannot be tested for membership: %s" % mem})
                        ctx.disagree(stream, text + " @" + texts[q], mem, "an answer", True, rep, spec="an answer")
                        break


SHARED_TEXTS = ["1.0.0", "1.0.0-alpha", "1.0", "1.0.0-1", "1.0.0a", "1.0.0.1", "2.0.0", "1.0.0+1", "1.0.0~rc1", "1.0.0_p1",
                "1.0.0-beta", "0.9", "1.0.0-rc1", "1.0.1"]


def _cross_scheme(ctx, label="c07-cross"):
    """the same constraint texts under several schemes, interleaved: the same text is well-formed in one scheme and
    not in another (1.0.0-alpha sorts after 1.0.0 in deb, before it in semver), so anything remembered about a
    list from one scheme must not leak into the next"""
    from harness import pools
    rng = ctx.rng(label)
    ranks = {}
    for name in S.ALL:
        p = pools.Pool(name)
        objs = {}
        for t in SHARED_TEXTS:
            try:
                v = S.make(name, t)
            except Exception:  # noqa: BLE001
                continue
            if p.insert(t, v):
                objs[t] = v
        if not p.hashable:
            continue
        rk = {}
        for i, cl in enumerate(p.classes):
            for t, _v in cl:
                if t in objs:
                    rk[t] = 2 * (i + 1)
        if len(rk) >= 3:
            ranks[name] = (rk, objs)
    jobs = []
    for _ in range(400 if ctx.thorough else 150):
        n = rng.choice([2, 2, 3, 3, 4])
        texts = rng.sample(SHARED_TEXTS, n)
        cmps = [rng.choice(B.CMPRS) for _ in range(n)]
        jobs.append(list(zip(cmps, texts)))
    work = []
    for job in jobs:
        names = [nm for nm in ranks if all(t in ranks[nm][0] for _, t in job)]
        rng.shuffle(names)
        for nm in names:
            work.append((nm, job, "validate %s" % B.cons_line([(c, ranks[nm][0][t]) for c, t in job])))
    answers = common.run_model([w[2] for w in work])
    for (nm, job, line), ans in zip(work, answers):
        stream = "cross-scheme:" + nm
        rk, objs = ranks[nm]
        arg = [VersionConstraint(comparator=B.TXT[c], version=objs[t]) for c, t in job]
        impl = B.res_bool(lambda: VersionConstraint.validate(arg))
        model, wf = ans.split(" ")
        expected = "ok:true" if wf == "true" else "err:ValueError"
        ctx.count(stream, key=line + "|" + ",".join(t for _, t in job), nontrivial=True, branch=expected)
        if impl != expected:
            cons = [B.TXT[c] + t for c, t in job]
            ctx.disagree(stream, line, impl, model, True,
                         {"scheme": nm, "constraints": cons,
                          "history": "the same texts were validated under other schemes earlier in this process",
                          "python": "from univers.versions import %s as V; from univers.version_constraint import VersionConstraint as C; "
                                    "print(C.validate([C.from_string(s, V) for s in %r]))" % (S.vclass(nm).__name__, cons)},
                         spec=expected)


def _duplicate_spellings(ctx):
    """one version named twice in two spellings (the respelling stream of the scheme correspondences): validation
    must reject the list whatever the comparators"""
    from harness import scheme_corr as SC
    n = 4000 if ctx.thorough else 700
    for name in S.ALL:
        rng = ctx.rng("c07-dups", name)
        stream = "duplicate-spellings:" + name
        cls = S.vclass(name)
        for a, b in SC.gen_pairs(name, rng, n):
            if a == b:
                continue
            try:
                va, vb = cls(a), cls(b)
                if not (va == vb) or (va < vb) or (vb < va):
                    continue
            except Exception:  # noqa: BLE001
                continue
            c1, c2 = rng.choice(B.CMPRS), rng.choice(B.CMPRS)
            arg = [VersionConstraint(comparator=B.TXT[c1], version=va), VersionConstraint(comparator=B.TXT[c2], version=vb)]
            impl = B.res_bool(lambda: VersionConstraint.validate(arg))
            ctx.count(stream, key=(a, b), nontrivial=True)
            if impl != "err:ValueError":
                ctx.disagree(stream, "validate %s%s|%s%s" % (B.TXT[c1], a, B.TXT[c2], b), impl, "err:ValueError", True,
                             {"scheme": name, "constraints": [B.TXT[c1] + a, B.TXT[c2] + b],
                              "clause": "the two versions are equal (==) but the list is accepted"},
                             region="maven-hash-of-text" if name == "maven" else None, spec="err:ValueError")
                break
