"""C10 — ranges built from explicit version sets contain exactly what they should."""
from harness import common, layerb as B, schemes as S

from univers.version_constraint import VersionConstraint

MODULES = ["Univers.Props.C10", "Univers.Props.Schemes"]
LEVEL = "proof"
# function-level tie (translator + agreement theorems): see runner step 3a
TIE_THEOREMS = {"Univers.Vers.GenLayerBExact": ["Univers.Gen.LayerB.py_normalize_accepted_and_members"],
                "Univers.Vers.GenRangeNormalizeThm": ["Univers.Gen.LayerB.range_normalize_eq", "Univers.Gen.LayerB.range_from_versions_eq"], "Univers.Vers.GenRangeContainsThm": ["Univers.Gen.LayerB.range_contains_eq"]}
RULE = ("per scheme: seeded well-formed ranges (patterns accepted by the model's validation) x seeded lists of known versions "
        "(any order, with duplicates, with or without the range's own bound versions); the real range.normalize(known) and "
        "RangeClass.from_versions(list) against the Lean model on ranks, and the property's clauses evaluated on the real result: "
        "accepted by validation (empty iff no known member), same membership on every known version, bounds are known versions, "
        "each maximal run collapsed to one closed interval or one exact version, invariant under permutation and duplication of "
        "the list, from_versions contains exactly the listed versions; non-trivial = at least two known versions are members")
ASSUMPTIONS = ["lawful operators per scheme (C02)", "well-formed ranges"]


def _canon_by_text(objs, text_rank):
    out = []
    for c in objs:
        if c.comparator == "*":
            out.append(("star", None))
        else:
            out.append((B.NAME[c.comparator], text_rank[c.version.string]))
    return out


def correspondence(ctx):
    per = 2500 if ctx.thorough else 100
    for name in S.ALL:
        rcls = S.rclass(name) or B._generic_range_for(S.vclass(name))
        rng = ctx.rng("c10", name)
        bench = B.Bench(name, rng, size=16, need_hash=False, respell=0.5)
        B.probe_unrankable(ctx, "C10", bench)
        stream = "normalize:" + name
        if not bench.ok(11):
            ctx.stream(stream)["skipped"] = "pool too small"
            continue
        cand = []
        lines = []
        for _ in range(per * 3):
            k = rng.choice([1, 2, 2, 3, 4])
            ranks = sorted(rng.sample(range(1, 10), k))
            cons = [(rng.choice(B.CMPRS), r) for r in ranks]
            cand.append(cons)
            lines.append("validate %s" % B.cons_line(cons))
        ok = [c for c, a in zip(cand, common.run_model(lines)) if a.startswith("ok:true")][:per]
        ok.append([("star", None)])
        jobs = []
        lines = []
        for cons in ok:
            ks = [rng.randint(0, 10) for _ in range(rng.randint(0, 9) if rng.random() < 0.8 else rng.randint(12, 20))]
            if rng.random() < 0.4:
                ks += [r for c, r in cons if c != "star"]
            rng.shuffle(ks)
            jobs.append((cons, ks))
            lines.append("normalize %s %s" % (B.cons_line(cons), ",".join(map(str, ks)) if ks else "-"))
        answers = common.run_model(lines)
        dl = []
        for (cons, ks) in jobs:
            for k in sorted(set(ks)):
                dl.append("contains %s %d" % (B.cons_line(cons), k))
        dans = dict(zip(dl, common.run_model(dl)))
        for (cons, ks), line, ans in zip(jobs, lines, answers):
            m = bench.mapping(11, rng)
            text_rank = {t: r for r in range(11) for t, _v in bench.spellings(m[r])}
            objs = B.real_cons(bench, cons, m)
            r = rcls(constraints=objs)
            # a known version listed again is written in another spelling of the same version when the pool has one
            texts, seen_k = [], set()
            for k in ks:
                texts.append(bench.alt(m[k], rng)[0] if k in seen_k else m[k][0])
                seen_k.add(k)
            members = sum(1 for k in set(ks) if dans["contains %s %d" % (B.cons_line(cons), k)].startswith("ok:true"))
            ctx.count(stream, key=line, nontrivial=members >= 2, branch="members=%d" % min(members, 3))
            try:
                out = r.normalize(texts)
                impl_c = _canon_by_text(out.constraints, text_rank)
                impl = "ok:" + B.cons_line(impl_c)
            except Exception as e:  # noqa: BLE001
                impl, impl_c, out = "err:" + B.exc_name(e), None, None
            if impl == ans:
                # permutation / duplication invariance on the real code
                t2 = list(texts) + ([texts[0]] if texts else [])
                rng.shuffle(t2)
                try:
                    out2 = r.normalize(t2)
                    # equal ranges: the same comparators on EQUAL versions (which spelling of a version that is listed
                    # in two spellings becomes the bound depends on the order: theorem normalize_order_and_duplicates)
                    if not (out2 == out):
                        ctx.disagree(stream, line, str(out2), str(out), True,
                                     dict(B.describe(bench, cons, m), known=texts, clause="result depends on the order or duplication of the known versions"),
                                     spec="invariant")
                except Exception as e:  # noqa: BLE001
                    ctx.disagree(stream, line, "raises " + type(e).__name__, str(out), True,
                                 dict(B.describe(bench, cons, m), known=t2, clause="raises on a permuted list"), spec="invariant")
                continue
            d = dict(B.describe(bench, cons, m), known=texts)
            why = _clauses(bench, cons, ks, m, impl_c, out, dans) if impl_c is not None else "raises %s" % impl
            if why:
                d["clause"] = why
                ctx.disagree(stream, line, impl, ans, True, d, spec=ans)
            else:
                ctx.disagree(stream, line, impl, ans, False, d, spec=ans)
        # from_versions
        for i in range(per // 4):
            m = bench.mapping(11, rng)
            # short lists, and lists of ten or more versions (with repetitions, a repeated version in another spelling)
            ks = [rng.randint(0, 10) for _ in range(rng.randint(0, 6) if i % 3 else rng.randint(10, 16))]
            texts, seen_k = [], set()
            for k in ks:
                texts.append(bench.alt(m[k], rng)[0] if k in seen_k else m[k][0])
                seen_k.add(k)
            ctx.count("from_versions:" + name, key=tuple(ks), nontrivial=len(set(ks)) >= 2, branch="n>=10" if len(ks) >= 10 else "short")
            try:
                fv = rcls.from_versions(texts)
                for x in range(11):
                    # the probe is another object, in another spelling of the version when the pool has one
                    got = bench.alt(m[x], rng)[1] in fv
                    if got != (x in ks):
                        ctx.disagree("from_versions:" + name, "fromversions %s" % ks, "%s in result is %s" % (m[x][0], got), str(x in ks), True,
                                     {"scheme": name, "versions": texts, "probe": m[x][0], "clause": "membership differs from being listed"},
                                     spec="contains exactly the listed versions")
                        break
            except Exception as e:  # noqa: BLE001
                if len(ks) > 0:
                    ctx.disagree("from_versions:" + name, "fromversions %s" % ks, "raises " + type(e).__name__, "a range", True,
                                 {"scheme": name, "versions": texts, "clause": "raises"}, spec="a range")
        # a version whose text begins with a comparator character, or is not ASCII, is still a version when it is LISTED
        for t in ("*", "*1", "=1.0", "<2.0", ">1", "!=1", ">=1.0", "1.0-b\u00e9ta", "v1.0"):
            try:
                v = S.vclass(name)(t)
                other = S.vclass(name)("9.9")
            except Exception:  # noqa: BLE001 — not a version of this scheme
                continue
            ctx.count("from_versions:" + name, key=("odd", t), nontrivial=True, branch="odd first character")
            try:
                fv = rcls.from_versions([t, "9.9"])
                ok = (v in fv) and (other in fv) and all(c.comparator == "=" for c in fv.constraints) and len(fv.constraints) == 2
                got = str(fv)
            except Exception as e:  # noqa: BLE001
                ok, got = False, "raises %s" % type(e).__name__
            if not ok:
                ctx.disagree("from_versions:" + name, "fromversions [%r, '9.9']" % t, got, "two '=' constraints holding both", True,
                             {"scheme": name, "versions": [t, "9.9"], "clause": "a listed version is not kept as the version it is"},
                             spec="contains exactly the listed versions")
                break
        # a one-shot iterable (an iterator, a generator, map()) is a list of versions like any other
        for i in range(6):
            m = bench.mapping(8, rng)
            texts = [m[k][0] for k in sorted(rng.sample(range(8), rng.randint(1, 4)))]
            ctx.count("from_versions:" + name, key=("iter", tuple(texts)), nontrivial=True, branch="one-shot iterable")
            try:
                want = rcls.from_versions(list(texts))
                r0 = rcls(constraints=[VersionConstraint(comparator=">=", version=m[0][1])])
                wantn = r0.normalize(list(texts))
            except Exception:  # noqa: BLE001
                continue
            for label, mk in (("iter(list)", lambda: iter(list(texts))), ("generator", lambda: (t for t in texts)), ("map", lambda: map(str, texts))):
                try:
                    got = rcls.from_versions(mk())
                    gotn = r0.normalize(mk())
                except Exception:  # noqa: BLE001 — refusing such an argument is an answer of its own, not a wrong range
                    continue
                if not (got == want) or not (gotn == wantn):
                    ctx.disagree("from_versions:" + name, "%s of %s" % (label, texts), "%s / normalize %s" % (got, gotn), "%s / normalize %s" % (want, wantn), True,
                                 {"scheme": name, "versions": texts, "given_as": label,
                                  "clause": "the same versions given as a one-shot iterable give another range"}, spec="the same range as for the list")
                    break
        # every version of the pool that has a second spelling: the range built from ONE listed version (a single `=`
        # constraint: the one-constraint shortcut of membership) contains it in its other spelling
        for cl in bench.pool.classes:
            if len(cl) < 2:
                continue
            (t1, _v1), (t2, v2) = cl[0], cl[1]
            ctx.count("from_versions:" + name, key=("single", t1, t2), nontrivial=True, branch="one listed, other spelling")
            try:
                got = v2 in rcls.from_versions([t1])
            except Exception as e:  # noqa: BLE001
                got = "raises " + type(e).__name__
            if got is not True:
                ctx.disagree("from_versions:" + name, "fromversions [%s] probed with %s" % (t1, t2), "%s in result is %s" % (t2, got), "True", True,
                             {"scheme": name, "versions": [t1], "probe": t2, "clause": "a listed version, spelled differently, is not in the range built from the list"},
                             spec="contains exactly the listed versions")
                break
        # lists of neighbours: a version with the versions made from it by replacing one qualifier word by another of the
        # scheme's vocabulary, cutting the qualifier off, respelling: every listed version is in the range built from the list
        from harness import pools as P
        for _ in range(per // 2):
            try:
                s0, _v0 = S.gen_valid(name, rng)
            except RuntimeError:
                break
            texts = [s0] + P.word_neighbours(name, s0, rng) + P.cut_tails(s0)
            try:
                texts.append(S.RESPELL[name](s0, rng))
            except Exception:  # noqa: BLE001
                pass
            objs = []
            for t in texts:
                try:
                    objs.append((t, S.vclass(name)(t)))
                except Exception:  # noqa: BLE001
                    pass
            if len(objs) < 2:
                continue
            ctx.count("from_versions:" + name, key=tuple(t for t, _ in objs), nontrivial=True, branch="neighbours")
            try:
                fv = rcls.from_versions([t for t, _ in objs])
                missing = [t for t, v in objs if not (v in fv)]
            except Exception as e:  # noqa: BLE001
                missing = ["raises " + type(e).__name__]
            if missing:
                ctx.disagree("from_versions:" + name, "fromversions %s" % [t for t, _ in objs], "%s not in the result" % missing[0], "True", True,
                             {"scheme": name, "versions": [t for t, _ in objs], "probe": missing[0],
                              "clause": "a range built from a list of versions does not contain a listed one"},
                             spec="contains exactly the listed versions")
        if name == "pypi" and lines:
            ctx.sample({"line": lines[0], "model": answers[0], "scheme": name})


def _clauses(bench, cons, ks, m, impl_c, out, dans):
    """the property's clauses on the real result"""
    a = common.run_model(["validate %s" % B.cons_line(impl_c)])[0]
    if not a.startswith("ok:true"):
        return "result %s is not accepted by validation" % B.cons_line(impl_c)
    kset = sorted(set(ks))
    mem = {k: dans["contains %s %d" % (B.cons_line(cons), k)].startswith("ok:true") for k in kset}
    if not any(mem.values()) and impl_c:
        return "no known version is a member but the result is not empty"
    for k in kset:
        try:
            got = m[k][1] in out
        except Exception as e:  # noqa: BLE001
            return "membership in the result raises %s" % type(e).__name__
        if got != mem[k]:
            return "known version %s: member of the original is %s, of the result %s" % (m[k][0], mem[k], got)
    for c, r in impl_c:
        if c != "star" and r not in kset:
            return "bound %s is not a known version" % m[r][0]
    # maximal runs
    runs = []
    cur = []
    for k in kset:
        if mem[k]:
            cur.append(k)
        elif cur:
            runs.append(cur)
            cur = []
    if cur:
        runs.append(cur)
    exp = []
    for run in runs:
        exp += [("eq", run[0])] if len(run) == 1 else [("ge", run[0]), ("le", run[-1])]
    if impl_c != exp:
        return "runs are not collapsed to one closed interval or exact version each: expected %s" % B.cons_line(exp)
    return None


def search(ctx):
    """a tie is broken and the sweep found nothing.  Where the real operators rank two versions of a pool differently from
    the scheme's Lean model (`layerb.MISMATCHES`: the model's order is the scheme's reference order), the range built from
    ONE of the two is asked about the other: "a range built from a list of versions contains exactly the versions equal to
    a listed one"."""
    for mm in B.MISMATCHES[:8]:
        name = mm["scheme"]
        rcls = S.rclass(name)
        if rcls is None:
            continue
        vcls = S.vclass(name)
        for x, y in ((mm["a"], mm["b"]), (mm["b"], mm["a"])):
            ans = common.run_model(["vcmp %s %s %s" % (name, common.hx(x), common.hx(y))])[0].split(" ")[0]
            if ans not in ("lt", "eq", "gt"):
                continue
            want = ans == "eq"
            try:
                got = vcls(y) in rcls.from_versions([x])
            except Exception as e:  # noqa: BLE001
                got = "raises " + type(e).__name__
            ctx.count("search-order-mismatch:" + name, key=(x, y), nontrivial=True)
            if got != want:
                ctx.disagree("search-order-mismatch:" + name, "from_versions([%r]) probed with %r" % (x, y), str(got), str(want), True,
                             {"scheme": name, "versions": [x], "probe": y, "reference_order_of_the_two": ans,
                              "clause": "the range built from one listed version %s a version that is %s to it in the scheme's reference order"
                                        % ("contains" if got is True else "does not contain", "not equal" if not want else "equal"),
                              "python": "from univers.version_range import %s as R; from univers.versions import %s as V; print(V(%r) in R.from_versions([%r]))"
                                        % (rcls.__name__, vcls.__name__, y, x)}, spec=str(want))
                break

