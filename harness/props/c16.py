"""C16 — parsing untrusted text succeeds or fails with a declared error, and terminates."""
import math
import re
import time

from harness import common, layera as A, schemes as S, textcommon as T, scheme_corr as SC
from harness.known import replay_known  # noqa: F401

from univers import gem as G
from univers import versions as V
from univers import version_range as VR
from univers.conan.errors import ConanException
from univers.version_range import VersionRange

MODULES = ["Univers.Props.C16", "Univers.Scheme.TablesThm", "Univers.Text.AdvisoryTables"]
_T = "Univers.Text."
THEOREMS = {
    "Univers.Props.C11": ["Univers.C11." + n for n in (
        "generic_declared", "conan_declared", "maven_declared", "pypi_declared", "gentoo_declared", "alpm_declared",
        "legacy_openssl_declared", "deb_declared", "rpm_declared", "nuget_declared")],
    "Univers.Text.VersThm": [_T + "Vers.fromString_declared", _T + "Vers.fromString_declared'", _T + "Vers.fromString_starAlone"],
    "Univers.Text.NpmThm": [_T + "Npm.npm_declared", _T + "Npm.npm_declared'", _T + "Npm.shorthand_declared"],
    "Univers.Text.GemReqThm": [_T + "GemReq.gem_native_declared"],
    "Univers.Text.PypiNativeThm": [_T + "PypiNative.pypi_native_declared"],
    "Univers.Text.MavenRangeThm": [_T + "MavenRange.maven_native_declared", _T + "MavenRange.maven_native_declared_real",
                                   _T + "MavenRange.nuget_native_declared_real"],
    "Univers.Text.ConanRangeThm": [_T + "ConanRange.conan_declared", _T + "ConanRange.conan_declared_real"],
    "Univers.Text.AdvisoryThm": [_T + "Advisory." + n for n in (
        "deb_declared", "rpm_declared", "openssl_declared", "nginx_declared", "nginx_declared_semver", "gitlab_declared",
        "github_declared_partial", "snyk_declared_partial")],
}
LEVEL = "proof"
# textual tie (regular expressions of /repo as the recognisers read them): runner step 3a
TIE_THEOREMS = {"Univers.Scheme.RegexPins": ["Univers.Tables.regex_sites_pinned", "Univers.Tables.compiled_patterns_pinned"]}
RULE = ("(1) every parsing entry point of the real code against its Lean model on generated, mutated, empty, whitespace-only and "
        "long repetitive ASCII inputs (error classes compared by exact name); (2) the property's oracle on the real code: arbitrary "
        "text over the characters versions and ranges are made of, structure-aware mutations (dropped / doubled / swapped "
        "separators, comparators, brackets, wildcards, stars), non-ASCII characters — the outcome must be a normal return or a "
        "declared error (InvalidVersion for constructors; ValueError for vers text; ValueError family, InvalidVersionRange, "
        "ConanException, gem InvalidRequirementError for native and advisory converters); (3) timing on inputs of length 2^k, "
        "fitted exponent must stay below 3; non-trivial = the input is not a valid expression")
ASSUMPTIONS = ["the scheme argument of the advisory converters is one of the schemes the converter accepts",
               "running time is measured, not proved (regex backtracking, big-int arithmetic, recursion limit)"]

INTERNAL = (TypeError, IndexError, KeyError, AttributeError, NameError, AssertionError, RecursionError, ZeroDivisionError,
            StopIteration, RuntimeError, OverflowError, MemoryError)
ALPHABET = list("0123456789") * 3 + list(".-_+~:^!*<>=|,()[] \t") * 2 + list("abxrvVpc") + ["é", "٣", "²", "​", "İ"]


def declared_for(kind, e):
    if isinstance(e, V.InvalidVersion):
        return True
    if kind == "version":
        return False
    if isinstance(e, (VR.InvalidVersionRange, ConanException, G.InvalidRequirementError)):
        return True
    if isinstance(e, INTERNAL):
        return False
    return isinstance(e, ValueError)


def entry_points():
    eps = []
    for name in S.ALL:
        cls = S.vclass(name)
        eps.append(("version", "version:" + name, name, lambda s, cls=cls: cls(s)))
    eps.append(("vers", "from_string", None, lambda s: VersionRange.from_string(s)))
    eps.append(("vers", "from_string+flags", None, lambda s: VersionRange.from_string(s, simplify=True, validate=True)))
    for scheme, rc in sorted(VR.RANGE_CLASS_BY_SCHEMES.items()):
        if "from_native" in rc.__dict__ or any("from_native" in k.__dict__ for k in rc.__mro__[1:-2]):
            eps.append(("native", "native:" + scheme, scheme, lambda s, rc=rc: rc.from_native(s)))
    for scheme in ("npm", "pypi", "maven", "gem", "golang", "nuget", "composer", "deb", "rpm"):
        eps.append(("native", "github:" + scheme, scheme, lambda s, scheme=scheme: VR.build_range_from_github_advisory_constraint(scheme, s)))
        eps.append(("native", "snyk:" + scheme, scheme, lambda s, scheme=scheme: VR.build_range_from_snyk_advisory_string(scheme, s)))
    for gl in VR.PURL_TYPE_BY_GITLAB_SCHEME:
        eps.append(("native", "gitlab:" + gl, VR.PURL_TYPE_BY_GITLAB_SCHEME[gl], lambda s, gl=gl: VR.from_gitlab_native(gl, s)))
    return eps


def seeds_for(rng, label, scheme):
    """mostly valid expressions for an entry point"""
    gname = None
    if scheme:
        try:
            from harness import corr_textvers as CT
            rc = VR.RANGE_CLASS_BY_SCHEMES.get(scheme)
            gname = CT.gen_name_of(rc.version_class) if rc else (scheme if scheme in S.GEN else None)
        except Exception:  # noqa: BLE001
            gname = None
    gname = gname or (scheme if scheme in S.GEN else "semver")
    v = lambda: S.GEN[gname](rng)  # noqa: E731
    kind = label.split(":")[0]
    if kind == "version":
        return v()
    if kind.startswith("from_string"):
        sch = rng.choice(sorted(VR.RANGE_CLASS_BY_SCHEMES))
        g2 = "semver"
        if rng.random() < 0.7:
            try:
                from harness import corr_textvers as CT
                g2 = CT.gen_name_of(VR.RANGE_CLASS_BY_SCHEMES[sch].version_class) or "semver"
                if g2 not in S.GEN:
                    g2 = "semver"
            except Exception:  # noqa: BLE001
                g2 = "semver"
        return "vers:%s/%s" % (sch, "|".join(rng.choice([">=", "<=", "<", ">", "!=", "", "="]) + S.GEN[g2](rng) for _ in range(rng.randint(1, 4))))
    if kind == "native":
        t = rng.random()
        if scheme in ("maven", "nuget"):
            return rng.choice(["[%s,%s)", "(%s,%s]", "[%s]", "[%s,)", "(,%s]", "%s"]).replace("%s", "{}").format(v(), v())
        if scheme == "nginx":
            return rng.choice(["%s-%s", "%s+", "%s", "%s+, %s+", "all"]).replace("%s", "{}").format(v(), v())
        if scheme == "openssl":
            return ", ".join(v() for _ in range(rng.randint(1, 3)))
        op = rng.choice([">=", "<=", "<", ">", "=", "==", "!=", "~", "^", "~>", "", "<<", ">>"])
        if t < 0.5:
            return "%s%s%s" % (op, rng.choice(["", " "]), v())
        return rng.choice([", ", " ", " || ", ","]).join("%s%s" % (rng.choice([">=", "<", "^", "~", "", "!="]), v()) for _ in range(2))
    return rng.choice([", ", " ", "||"]).join("%s%s%s" % (rng.choice([">=", "<=", "<", ">", "=", "==", "!=", "[", "("]), rng.choice(["", " "]), v())
                                              for _ in range(rng.randint(1, 3)))


def correspondence(ctx):
    # prompt termination first, in a child process that can be killed: if a recogniser backtracks without end, the
    # in-process streams below would sit on the same kind of input (and a hang inside the `re` module cannot be interrupted)
    _hang_screen(ctx)
    if any(k.startswith("termination-screen") for k, _r, _f in ctx.rep.violations):
        return
    n = 25000 if ctx.thorough else 1200
    for mod, stream in (("corr_textvers", "vers-text-model"), ("corr_npm", "npm-model"), ("corr_gempypi", "gem-pypi-model"),
                        ("corr_mavenconan", "maven-nuget-conan-model"), ("corr_advisory", "advisory-model")):
        T.run_corr(ctx, mod, stream, n, in_domain=_internal_in_case, spec="declared errors only")
    for name in A.ALL:
        if A.has_model(name):
            stats, dis = A.corr(ctx, name, n // 2)
            st = ctx.stream("version-model:" + name)
            st["evaluations"] += stats["strings"]
            st["distinct_nontrivial"] += stats["parse_invalid"] + stats["parse_raise"]
            ctx.evaluations += stats["strings"]
            for d in dis:
                if d["kind"] == "parse":
                    bad = d["impl"].startswith("raise")
                    ctx.disagree("version-model:" + name, "vparse", d["impl"], d["model"], bad,
                                 {"scheme": name, "text": d["a"], "clause": "constructor lets %s escape" % d["impl"]}, spec="InvalidVersion only")
    _fuzz(ctx)
    _near_pairs(ctx)
    _timing(ctx)


def _internal_in_case(d):
    s = str(d.get("impl", ""))
    return any(("err:" + k) in s for k in ("TypeError", "IndexError", "KeyError", "AttributeError", "UnboundLocalError",
                                          "AssertionError", "RecursionError", "NameError"))


def _fuzz(ctx):
    per = 5000 if ctx.thorough else 250
    for kind, label, scheme, fn in entry_points():
        rng = ctx.rng("c16-fuzz", label)
        stream = "fuzz:" + label
        for i in range(per):
            base = seeds_for(rng, label, scheme)
            r = rng.random()
            if r < 0.22:
                s = base
            elif r < 0.30:
                # a numeric run longer than Python's int() text limit, or a non-ASCII "digit"
                runs = [m.span() for m in re.finditer(r"[0-9]+", base)]
                if runs:
                    a, b = rng.choice(runs)
                    if rng.random() < 0.5:
                        s = base[:a] + str(rng.randint(1, 9)) * rng.choice([4300, 4301, 5000]) + base[b:]
                    else:
                        j = rng.randint(a, b)
                        s = base[:j] + rng.choice(["\u00b2", "\u0663", "\uff11", "\u2167", "\u00bd", "\u2460", "\u0e53"]) + base[j:]
                else:
                    s = base + "1" * 4301
            elif r < 0.8:
                s = base
                for _ in range(rng.randint(1, 4)):
                    s = SC.mutate(s, rng)
            elif r < 0.9:
                s = "".join(rng.choice(ALPHABET) for _ in range(rng.randint(0, 12)))
            else:
                s = rng.choice(["", " ", "\t\n", "*", "|", "||", ",", "-", "+", ">", "^", "~", "()", "[]", "[,]", "vers:", "vers:npm/", "v",
                                ">=", "1" * 200, "1." * 60, "-1" * 80, "(" * 30, "a - b", "1.x.x", ">1.x", "^0", "1.2.3-1.2.3", "~=,1.0"])
            try:
                _limited(lambda: fn(s))
                out = "ok"
            except _TooLong:
                ctx.disagree(stream, s, "still running after 10 s (interrupted)", "prompt", True,
                             {"entry_point": label, "text": s, "clause": "%s does not terminate promptly on %d characters" % (label, len(s)),
                              "python": "see entry point %s on %r" % (label, s)}, spec="terminates promptly")
                break
            except RecursionError as e_:
                out = "RecursionError"
                e = e_
            except Exception as e_:  # noqa: BLE001
                e = e_
                out = type(e).__name__
            ctx.count(stream, key=s, nontrivial=out != "ok", error=None if out == "ok" else out)
            if out != "ok" and not declared_for(kind, e):
                ctx.disagree(stream, s, out, "declared error or success", True,
                             {"entry_point": label, "text": s, "clause": "%s escapes" % out,
                              "python": "see entry point %s on %r" % (label, s)},
                             region=_region(label, s, out, e), spec="declared error or success")
    ctx.sample({"entry_point": "native:npm", "text": "^1.2.x || >", "outcome": _outcome(lambda: VR.NpmVersionRange.from_native("^1.2.x || >"))})


ADVISORY_SCHEMES = ("npm", "pypi", "maven", "gem", "golang", "nuget", "composer", "deb", "rpm")
PUNCT = list("._-+~:^!,") + list("_-.~+") + ["a", "0", "rc", "\u0663"]


_TooLong = common.TooLong
_limited = common.limited


def _near_pairs(ctx):
    """vers text of every registered scheme holding two or three versions that differ in one character (inserted or
    replaced, mostly punctuation), parsed with every combination of the simplify / validate flags: the constraints are
    sorted, de-duplicated through a set and validated, so the versions are compared with each other and hashed --
    a character that the constructor lets through but the comparison or the hash cannot handle shows here and
    nowhere in a single-version test"""
    from harness import corr_textvers as CT
    per = 900 if ctx.thorough else 110
    flags = [dict(), dict(simplify=True), dict(validate=True), dict(simplify=True, validate=True)]
    # words a changed table or pattern newly admits (a new suffix, a new qualifier, a new character): glued to the
    # version with the usual separators
    words = common.new_table_words()
    extra = [sep + w + tail for w in words for sep in ("_", "-", ".", "") for tail in ("", "1", "20200101")] if words else []
    if extra:
        ctx.stream("near-pairs")["new_table_words"] = words
    for scheme, rc in sorted(VR.RANGE_CLASS_BY_SCHEMES.items()):
        gname = CT.gen_name_of(rc.version_class)
        if gname not in S.GEN:
            continue
        rng = ctx.rng("c16-pairs", scheme)
        stream = "near-pairs:" + scheme
        hung = False
        for i in range(per):
            if hung:
                break
            a = S.GEN[gname](rng)
            r0 = rng.random()
            keep_valid = 0.45
            if r0 < 0.3:
                keep_valid = 0.9      # the point of these two shapes is the comparison of two accepted versions
            if r0 < 0.15:
                # a decimal digit that is not ASCII in the place of a digit (the first one, mostly): `\d`, `str.isdigit`
                # and `int()` know it, `0-9` and `ord() - 48` do not; both versions of the pair carry it
                runs = [m.start() for m in re.finditer(r"[0-9]", a)]
                if runs:
                    j0 = runs[0] if rng.random() < 0.7 else rng.choice(runs)
                    a = a[:j0] + rng.choice(["\u0663", "\uff11", "\u0e53", "\u0967"]) + a[j0 + 1:]
            elif r0 < 0.3:
                # a word in capitals (a pattern made case-insensitive lets it in; what reads the version afterwards may not)
                ws = [m.span() for m in re.finditer(r"[a-z]{2,12}", a)] or [m.span() for m in re.finditer(r"[a-z]", a)]
                if ws:
                    i0, i1 = rng.choice(ws)
                    a = a[:i0] + a[i0:i1].upper() + a[i1:]
            vs = [a]
            for _ in range(rng.choice([1, 1, 2])):
                b = vs[-1]
                if rng.random() < keep_valid:
                    # a neighbour that is most likely still a version of the scheme (another ending, another qualifier
                    # word, the qualifier cut off, a number moved): the strict schemes refuse most one-character edits,
                    # and two versions are compared only when both are accepted
                    from harness import pools
                    cands = pools.tail_neighbours(gname, b, rng) + pools.word_neighbours(gname, b, rng) + pools.cut_tails(b)
                    try:
                        cands.append(SC.bump_number(b, rng))
                    except Exception:  # noqa: BLE001
                        pass
                    cands = [c for c in cands if c and c != b]
                    if cands:
                        vs.append(rng.choice(cands))
                        continue
                j = rng.randint(0, len(b))
                ch = rng.choice(PUNCT)
                if extra and rng.random() < 0.6:
                    ch = rng.choice(extra)
                    j = len(b) if rng.random() < 0.7 else j
                b = b[:j] + ch + (b[j + 1:] if rng.random() < 0.5 and len(ch) == 1 else b[j:])
                vs.append(b)
            if rng.random() < 0.3:
                vs.append(a)          # the same text again
            rng.shuffle(vs)
            text = "vers:%s/%s" % (scheme, "|".join(rng.choice([">=", "<=", "<", ">", "!=", ""]) + v for v in vs))
            kw = flags[i % 4]
            try:
                _limited(lambda: VersionRange.from_string(text, **kw))
                out = "ok"
            except _TooLong:
                ctx.disagree(stream, text, "still running after 10 s (interrupted)", "prompt", True,
                             {"entry_point": "VersionRange.from_string", "flags": kw, "text": text,
                              "clause": "from_string does not terminate promptly on %d characters" % len(text),
                              "python": "from univers.version_range import VersionRange as R; R.from_string(%r, **%r)" % (text, kw)},
                             spec="terminates promptly")
                break
            except RecursionError as e_:
                out, e = "RecursionError", e_
            except Exception as e_:  # noqa: BLE001
                e = e_
                out = type(e).__name__
            ctx.count(stream, key=(text, i % 4), nontrivial=out != "ok", error=None if out == "ok" else out,
                      branch=",".join(sorted(kw)) or "no flags")
            if out != "ok" and not declared_for("vers", e):
                ctx.disagree(stream, text, out, "declared error or success", True,
                             {"entry_point": "VersionRange.from_string", "flags": kw, "text": text, "clause": "%s escapes" % out,
                              "python": "from univers.version_range import VersionRange as R; R.from_string(%r, **%r)" % (text, kw)},
                             region=_region("from_string", text, out, e), spec="declared error or success")
            if hung:
                break       # one input that does not terminate is enough for this scheme
            # the same versions through the advisory notations, which do not refuse non-ASCII text before they build
            # (and sort) the constraints
            if scheme in ADVISORY_SCHEMES and (not text.isascii() or i % 4 == 0):
                adv = ", ".join(rng.choice([">=", "<=", "<", ">", "="]) + rng.choice(["", " "]) + v for v in vs)
                for label, fn in (("github:" + scheme, lambda t: VR.build_range_from_github_advisory_constraint(scheme, t)),
                                  ("snyk:" + scheme, lambda t: VR.build_range_from_snyk_advisory_string(scheme, t))):
                    try:
                        _limited(lambda: fn(adv))
                        out = "ok"
                    except _TooLong:
                        ctx.disagree(stream, label + " " + adv, "still running after 10 s (interrupted)", "prompt", True,
                                     {"entry_point": label, "text": adv, "clause": "%s does not terminate promptly on %d characters" % (label, len(adv)),
                                      "python": "see entry point %s on %r" % (label, adv)}, spec="terminates promptly")
                        hung = True
                        break
                    except RecursionError as e_:
                        out, e = "RecursionError", e_
                    except Exception as e_:  # noqa: BLE001
                        e = e_
                        out = type(e).__name__
                    ctx.count(stream, key=(label, adv), nontrivial=out != "ok", error=None if out == "ok" else out, branch=label.split(":")[0])
                    if out != "ok" and not declared_for("native", e):
                        ctx.disagree(stream, label + " " + adv, out, "declared error or success", True,
                                     {"entry_point": label, "text": adv, "clause": "%s escapes" % out,
                                      "python": "see entry point %s on %r" % (label, adv)},
                                     region=_region(label, adv, out, e), spec="declared error or success")


def _outcome(f):
    try:
        f()
        return "ok"
    except Exception as e:  # noqa: BLE001
        return type(e).__name__


def _in_maven(e):
    import traceback
    tb = e.__traceback__
    n = 0
    while tb is not None and n < 4000:
        if tb.tb_frame.f_code.co_filename.endswith("maven.py"):
            return True
        tb = tb.tb_next
        n += 1
    return False


def _region(label, s, out, e=None):
    if out == "RecursionError" and (("maven" in label) or (e is not None and _in_maven(e))):
        return "maven-recursion-depth"
    return None


def _hang_screen(ctx):
    """prompt termination on SHORT adversarial inputs (a regular expression that backtracks exponentially hangs on a
    few dozen characters): every entry point on runs of a unit followed by a character that makes the match fail,
    in a child process that is killed when one input takes longer than the limit"""
    import os
    import subprocess
    import sys
    import threading
    limit = 10.0
    units = ["a", "1", "1.", "1-", "a1", "-a", ".a", "a.", "1a", "a-", "0", "x", "_p", "~", "+a", ".0"]
    jobs = []
    for kind, label, scheme, fn in entry_points():
        if label.startswith(("github:", "snyk:")) and scheme not in ("npm", "maven", "gem", "pypi"):
            continue
        head = "vers:%s/" % (scheme or "npm") if kind == "vers" else ""
        for u in units:
            for n in ((24, 40) if not ctx.thorough else (24, 32, 48, 64)):
                for pre in ("", "1-", "1.", ">=1."):
                    for suf in ("!", "", " x", "-", "+"):
                        jobs.append((label, head + pre + u * n + suf))
    env = dict(os.environ, PYTHONPATH=str(common.SRC))
    p = subprocess.Popen([sys.executable, str(common.VERIF / "harness" / "timing_probe.py")], stdin=subprocess.PIPE,
                         stdout=subprocess.PIPE, stderr=subprocess.DEVNULL, text=True, env=env)
    state = {"begun": 0, "ended": 0, "t": time.time(), "slow": None}

    def feed():
        try:
            for label, s in jobs:
                p.stdin.write("%s\t%s\n" % (label, s.encode("utf-8").hex()))
            p.stdin.close()
        except Exception:  # noqa: BLE001
            pass

    def read():
        for line in p.stdout:
            parts = line.split()
            if parts[0] == "BEGIN":
                state["begun"] = int(parts[1])
                state["t"] = time.time()
            elif parts[0] == "END":
                state["ended"] = int(parts[1])
                if float(parts[2]) > limit / 2 and state["slow"] is None:
                    state["slow"] = (int(parts[1]), float(parts[2]))
    tf = threading.Thread(target=feed, daemon=True)
    tr = threading.Thread(target=read, daemon=True)
    tf.start()
    tr.start()
    hung = None
    while tr.is_alive():
        tr.join(0.5)
        if state["begun"] > state["ended"] and time.time() - state["t"] > limit:
            hung = state["begun"]
            p.kill()
            break
    p.wait()
    st = ctx.stream("termination-screen")
    st["evaluations"] += state["ended"]
    st["distinct_nontrivial"] += state["ended"]
    ctx.evaluations += state["ended"]
    bad = hung or (state["slow"][0] if state["slow"] else None)
    if bad:
        label, s = jobs[bad - 1]
        took = "more than %.0f s (killed)" % limit if hung else "%.1f s" % state["slow"][1]
        ctx.disagree("termination-screen", "%s on %d characters" % (label, len(s)), took, "prompt", True,
                     {"entry_point": label, "text": s, "length": len(s),
                      "clause": "%s takes %s on %d characters" % (label, took, len(s)),
                      "python": "see entry point %s on %r" % (label, s)}, spec="terminates promptly")


def _timing(ctx):
    if ctx.rep.violations:
        return          # the scaling probes below may sit on the same input
    kmax = 15 if ctx.thorough else 12
    shapes = {
        "version": ["1.", "1-", "0", "a1", "1~", "1_p", ".", "1+"],
        "vers": [">=1|", "1|", " ", "|", "<=<"],
        "native": [">=1 ", "1,", "1||", "^", "~", "[1,2),", "1-", "(", "1.x "],
    }
    for kind, label, scheme, fn in entry_points():
        if label.startswith(("github:", "snyk:")) and scheme not in ("npm", "maven"):
            continue
        worst = 0.0
        worst_shape = None
        for unit in shapes["version" if kind == "version" else ("vers" if kind == "vers" else "native")]:
            pts = []
            for k in range(8, kmax + 1, 2):
                nrep = (2 ** k) // len(unit)
                s = ("vers:npm/" if kind == "vers" else "") + unit * nrep
                t0 = time.perf_counter()
                try:
                    fn(s)
                except RecursionError as e:
                    ctx.disagree("timing:" + label, "len=%d of %r" % (len(s), unit), "RecursionError", "terminates", True,
                                 {"entry_point": label, "unit": unit, "length": len(s), "clause": "RecursionError"},
                                 region=_region(label, s, "RecursionError", e), spec="terminates")
                    break
                except Exception:  # noqa: BLE001
                    pass
                dt = time.perf_counter() - t0
                pts.append((len(s), max(dt, 1e-6)))
                if dt > 20:
                    break
            ctx.count("timing:" + label, key=unit, nontrivial=True)
            big = [(n, t) for n, t in pts if t > 0.02]
            if len(big) >= 2:
                (n1, t1), (n2, t2) = big[0], big[-1]
                if n2 > n1:
                    slope = math.log(t2 / t1) / math.log(n2 / n1)
                    if slope > worst:
                        worst, worst_shape = slope, (unit, pts[-1])
        st = ctx.stream("timing:" + label)
        st["worst_exponent"] = round(worst, 2)
        if worst > 3.0:
            ctx.disagree("timing:" + label, str(worst_shape), "exponent %.2f" % worst, "<= 3", True,
                         {"entry_point": label, "unit": worst_shape[0], "exponent": worst, "clause": "running time grows faster than cubic"},
                         spec="polynomial")
