"""C06 — converting a native range to vers preserves exactly the set of matching versions."""
import itertools

import semantic_version
from packaging.specifiers import SpecifierSet
from packaging.version import Version as PV

from harness import common, schemes as S, textcommon as T
from harness.known import replay_known  # noqa: F401

from univers import gem as G
from univers import maven as M
from univers import versions as V
from univers import version_range as VR
from univers.conan.version_range import VersionRange as ConanRange
from univers.version_constraint import VersionConstraint

MODULES = ["Univers.Props.C06"]
TIE_THEOREMS = {"Univers.Text.GenRelationThm": ["Univers.Gen.Text.deb_split_eq", "Univers.Gen.Text.deb_build_constraint_eq",
                                                "Univers.Gen.Text.deb_from_natives_eq", "Univers.Gen.Text.deb_from_native_eq",
                                                "Univers.Gen.Text.rpm_build_constraint_eq", "Univers.Gen.Text.rpm_from_natives_eq",
                                                "Univers.Gen.Text.rpm_from_native_eq"],
                "Univers.Text.GenSplitReqThm": ["Univers.Gen.Text.py_split_req_eq"],
                "Univers.Text.GenAdvisoryExact": ["Univers.Gen.Text.py_deb_exact", "Univers.Gen.Text.py_rpm_exact"]}
THEOREMS = {
    "Univers.Text.NpmThm": ["Univers.Text.Npm." + n for n in (
        "npm_exact", "npm_caret_exact", "npm_tilde_exact", "npm_xrange_exact", "npm_hyphen_exact", "npm_comparators_exact")],
    "Univers.Text.GemReqThm": ["Univers.Text.GemReq." + n for n in (
        "gem_tilde_exact", "gem_native_exact", "gem_native_sound", "gem_native_sound_single", "gem_native_sound_tilde",
        "gem_satisfied_by_spec", "gem_tilde_sound_release", "gem_tilde_sound_subset")],
    "Univers.Text.PypiNativeThm": ["Univers.Text.PypiNative.pypi_native_exact"],
    "Univers.Text.MavenRangeThm": ["Univers.Text.MavenRange." + n for n in (
        "maven_interval_exact", "maven_interval_exact_real", "maven_native_sound", "maven_native_sound_real", "maven_native_sound_range")],
    "Univers.Text.ConanRangeThm": ["Univers.Text.ConanRange." + n for n in (
        "conan_native_exact", "conan_tilde_exact", "conan_caret_exact", "conan_comparators_exact", "conan_tilde_real", "conan_caret_real")],
    "Univers.Text.AdvisoryThm": ["Univers.Text.Advisory." + n for n in (
        "deb_exact", "rpm_exact", "openssl_exact", "nginx_dash", "nginx_dash_equal", "nginx_plus_stable", "nginx_plus_mainline",
        "nginx_plain", "nginx_dash_numeric", "nginx_plus_stable_numeric", "split_req_order_ok")],
}
LEVEL = "proof"
RULE = ("(1) every native converter of the real code against its Lean model on generated and mutated expressions; (2) the "
        "property's oracle on the real code: seeded native expressions of the fragment (alternatives pairwise disjoint, each one "
        "interval, one exact version, exclusions inside an interval, or one shorthand over a fully specified version) are converted; "
        "the result must be accepted by validation and contain exactly the release versions that the ecosystem's own matcher accepts "
        "(semantic_version.NpmSpec, GemRequirement.satisfied_by, packaging SpecifierSet, maven.VersionRange, conan VersionRange, "
        "hand-written nginx / deb / rpm / openssl readings), probed at, just below, just above and between every bound; "
        "non-trivial = the expression uses a shorthand, an exclusion or two alternatives")
ASSUMPTIONS = ["probes are release versions N.N.N (no pre-release, dev, post or local tags), except in the deb / rpm relation streams over "
               "any version, where what the native relation means is the order of the scheme's Lean model",
               "the third-party matchers are faithful to their ecosystems (trusted)"]


def rel(a, b, c):
    return "%d.%d.%d" % (a, b, c)


def probes_around(bounds):
    """release versions at, just below, just above and between the given (a,b,c) bounds"""
    pts = set()
    for (a, b, c) in bounds:
        for da, db, dc in ((0, 0, 0), (0, 0, 1), (0, 0, -1), (0, 1, 0), (0, -1, 0), (1, 0, 0), (-1, 0, 0), (0, 1, -1), (1, -1, 0)):
            x, y, z = a + da, b + db, c + dc
            if x >= 0 and y >= 0 and z >= 0:
                pts.add((x, y, z))
        pts.add((a, b + 1, 0))
        pts.add((a + 1, 0, 0))
        pts.add((a, b, 0))
        pts.add((a, 0, 0))
    bs = sorted(bounds)
    for p, q in zip(bs, bs[1:]):
        pts.add(((p[0] + q[0]) // 2, (p[1] + q[1]) // 2, (p[2] + q[2]) // 2))
    pts.add((0, 0, 0))
    pts.add((999, 0, 0))
    return sorted(pts)


def rv(rng, lo=0, hi=6):
    z = lambda a, b: a if rng.random() < 0.2 else rng.randint(a, b)   # noqa: E731  (zeros are where the shorthands branch)
    return (z(lo, hi), z(0, 5), z(0, 5))


ZEROS = list(itertools.product((0, 1), (0, 1), (0, 2)))


def forced(kinds):
    """every shorthand over every zero / non-zero shape of a fully specified version, before the seeded cases"""
    return [(k, a) for k in kinds for a in ZEROS]


def check(ctx, stream, native, conv, vclass, matcher, bounds, nontrivial, extra=None, region=None):
    """convert, validate, compare membership on probes.  `region` names a recorded finding about WELL-FORMEDNESS of the
    result (K11, K12); a membership difference is never inside a recorded region"""
    ctx.count(stream, key=native, nontrivial=nontrivial)
    try:
        r = conv(native)
    except Exception as e:  # noqa: BLE001
        ctx.disagree(stream, native, "raises %s: %s" % (type(e).__name__, e), "a range", True,
                     {"native": native, "clause": "conversion raises %s" % type(e).__name__}, spec="converts")
        return
    try:
        VersionConstraint.validate(list(r.constraints))
    except Exception as e:  # noqa: BLE001
        ctx.disagree(stream, native, "vers %s is not well-formed: %s" % (r, e), "well-formed", True,
                     {"native": native, "vers": str(r), "clause": "result is not accepted by validation"}, spec="well-formed", region=region)
        if region != "maven-shared-bound":
            return
    for p in probes_around(bounds):
        t = rel(*p)
        try:
            want = bool(matcher(t))
        except Exception:  # noqa: BLE001
            continue
        try:
            pv = vclass(t)
        except V.InvalidVersion:
            continue        # not a version of this scheme
        try:
            got = pv in r
        except Exception as e:  # noqa: BLE001
            got = "raises %s" % type(e).__name__
        if got != want:
            d = {"native": native, "vers": str(r), "probe": t, "native_matcher_says": want, "vers_says": got,
                 "clause": "membership of %s differs" % t}
            if extra:
                d.update(extra)
            ctx.disagree(stream, "%s @%s" % (native, t), str(got), str(want), True, d, spec=str(want))
            return
        # the same release written another way (2.0.0 / 2.0 / 2 / 2.0.0.0): where the scheme says it is the same
        # version, the answer is the same
        alts = [t + ".0"]
        u = t
        while u.endswith(".0"):
            u = u[:-2]
            alts.append(u)
        for t2 in alts:
            try:
                pv2 = vclass(t2)
                if not (pv2 == pv):
                    continue
            except Exception:  # noqa: BLE001
                continue
            try:
                got2 = pv2 in r
            except Exception as e:  # noqa: BLE001
                got2 = "raises %s" % type(e).__name__
            if got2 != want:
                d = {"native": native, "vers": str(r), "probe": t2, "same_version_as": t, "native_matcher_says": want,
                     "vers_says": got2, "clause": "membership of %s (the same version as %s) differs" % (t2, t)}
                ctx.disagree(stream, "%s @%s" % (native, t2), str(got2), str(want), True, d, spec=str(want))
                return


def _neighbours_of(s, rng):
    """texts close to a bound: one letter in the other case, `~` and `^` exchanged, a short tail after it or instead
    of its last part (where the order of a scheme turns on one character, it is between a bound and texts like these)"""
    out = []
    idx = [i for i, ch in enumerate(s) if ch.isalpha() and ch.isascii()]
    if idx:
        i = rng.choice(idx)
        out.append(s[:i] + s[i].swapcase() + s[i + 1:])
    for a, b in (("~", "^"), ("^", "~")):
        if a in s:
            i = rng.choice([k for k, ch in enumerate(s) if ch == a])
            out.append(s[:i] + b + s[i + 1:])
    base = s
    for sep in "~^":
        if sep in base.split(":")[-1]:
            base = base[:base.rindex(sep)]
    for tail in rng.sample(["~rc1", "^git1", "^20200101", "~", "^", "a", "A", "+", ".0", "-1", "-1Ubuntu1", "-1ubuntu1"], 4):
        out.append(base + tail)
        out.append(s + tail)
    return [t for t in out if t != s]


def _relations_over_any_version(ctx, per):
    """deb / rpm relations whose bound is ANY version of the scheme (letters in both cases, `~`, `^`, epochs, revisions),
    probed with other generated versions and with the bound's neighbours.  What the native relation means is
    the order of the scheme's Lean model (`Scheme/Deb.lean`: dpkg's order; `Scheme/Rpm.lean`: rpmvercmp), asked through
    the driver; the property is that the converted range has exactly that membership."""
    import operator as op
    safe_chars = set("abcdefghijklmnopqrstuvwxyzABCDEFGHIJKLMNOPQRSTUVWXYZ0123456789.+-~^:_")
    jobs = []
    for sname, rcls, vcls, ops in (("deb", VR.DebianVersionRange, V.DebianVersion, {"<<": op.lt, "<=": op.le, "=": op.eq, ">=": op.ge, ">>": op.gt}),
                                   ("rpm", VR.RpmVersionRange, V.RpmVersion, {"<": op.lt, "<=": op.le, "=": op.eq, ">=": op.ge, ">": op.gt, "!=": op.ne})):
        rng = ctx.rng("c06-rel", sname)
        for _ in range(per):
            try:
                s, _v = S.gen_valid(sname, rng)
            except RuntimeError:
                break
            if not s or set(s) - safe_chars:
                continue
            o = rng.choice(list(ops))
            e = "%s %s" % (o, s)
            if sname == "deb" and rng.random() < 0.5:
                e = "(%s)" % e
            probes = _neighbours_of(s, rng)
            for _k in range(3):
                try:
                    probes.append(S.gen_valid(sname, rng)[0])
                except RuntimeError:
                    pass
            for t in probes:
                if t and not (set(t) - safe_chars):
                    jobs.append((sname, rcls, vcls, ops[o], o, e, s, t))
    answers = common.run_model(["vcmp %s %s %s" % (j[0], common.hx(j[7]), common.hx(j[6])) for j in jobs])
    done = {}
    for (sname, rcls, vcls, f, o, e, s, t), ans in zip(jobs, answers):
        stream = sname + "-relation-any-version"
        sign = {"lt": -1, "eq": 0, "gt": 1}.get(ans.split(" ")[0])
        if sign is None:
            continue        # not two versions of the scheme for the model
        ctx.count(stream, key="%s @%s" % (e, t), nontrivial=not s.replace(".", "").isdigit(), branch=o)
        if done.get((sname, e)):
            continue
        want = bool(f(sign, 0))
        try:
            r = rcls.from_native(e)
            pv = vcls(t)
        except Exception:  # noqa: BLE001 — the conversion of such expressions is the business of the streams above
            continue
        try:
            got = pv in r
        except Exception as ex:  # noqa: BLE001
            got = "raises %s" % type(ex).__name__
        if got != want:
            done[(sname, e)] = True
            ctx.disagree(stream, "%s @%s" % (e, t), str(got), str(want), True,
                         {"native": e, "vers": str(r), "probe": t, "order_of_the_scheme_model": ans.split(" ")[0],
                          "native_relation_says": want, "vers_says": got, "clause": "membership of %s differs" % t}, spec=str(want))


def correspondence(ctx):
    n = 30000 if ctx.thorough else 1500
    T.run_corr(ctx, "corr_npm", "npm-model", n)
    T.run_corr(ctx, "corr_gempypi", "gem-pypi-model", n)
    T.run_corr(ctx, "corr_mavenconan", "maven-nuget-conan-model", n)
    T.run_corr(ctx, "corr_advisory", "deb-rpm-nginx-openssl-model", n)
    per = 1500 if ctx.thorough else 80
    # ---------------- npm
    rng = ctx.rng("c06", "npm")
    fz = forced(["caret", "tilde", "x1", "x2", "hyphen", "two", "lt"])
    for i in range(per + len(fz)):
        a = rv(rng, 0, 4)
        kind = rng.choice(["caret", "tilde", "x1", "x2", "hyphen", "interval", "exact", "two", "ge", "lt"])
        if i < len(fz):
            kind, a = fz[i]
        b = (a[0] + rng.randint(1, 2), rng.randint(0, 5), rng.randint(0, 5))
        if kind == "caret":
            e, bd = "^" + rel(*a), [a]
        elif kind == "tilde":
            e, bd = "~" + rel(*a), [a]
        elif kind == "x1":
            e, bd = "%d.x" % a[0], [(a[0], 0, 0)]
        elif kind == "x2":
            e, bd = "%d.%d.x" % a[:2], [(a[0], a[1], 0)]
        elif kind == "hyphen":
            e, bd = "%s - %s" % (rel(*a), rel(*b)), [a, b]
        elif kind == "interval":
            e, bd = ">=%s <%s" % (rel(*a), rel(*b)), [a, b]
        elif kind == "exact":
            e, bd = rel(*a), [a]
        elif kind == "ge":
            e, bd = ">=" + rel(*a), [a]
        elif kind == "lt":
            e, bd = "<" + rel(*a), [a]
        else:
            c = (b[0] + 1, 0, 0)
            e, bd = "%s || >=%s" % ("~" + rel(*a), rel(*c)), [a, c]
        if kind in ("caret", "tilde") and i % 3 == 2:
            # the shorthand over a pre-release of that version (the release versions it accepts are those of the
            # shorthand over the release itself)
            e = e + rng.choice(["-alpha.1", "-rc.2", "-0", "-beta"])
        spec = semantic_version.NpmSpec(e)
        check(ctx, "npm", e, VR.NpmVersionRange.from_native, V.SemverVersion,
              lambda t: spec.match(semantic_version.Version(t)), bd, kind not in ("exact", "ge", "lt"),
              region="npm-tilde-prerelease" if (kind == "tilde" and "-" in e) else None)
    # ---------------- gem
    rng = ctx.rng("c06", "gem")
    fz = forced(["tilde3", "tilde2", "excl"])
    for i in range(per + len(fz)):
        a = rv(rng, 0, 4)
        kind = rng.choice(["tilde3", "tilde2", "interval", "exact", "ge", "excl"])
        if i < len(fz):
            kind, a = fz[i]
        b = (a[0] + rng.randint(1, 2), rng.randint(0, 5), rng.randint(0, 5))
        # hand-written reading of the requirement on release versions first (GemRequirement is part of the code under
        # test); GemRequirement.satisfied_by as a second opinion
        if kind == "tilde3":
            e, bd, f = "~> " + rel(*a), [a], (lambda p: a <= p < (a[0], a[1] + 1, 0))
        elif kind == "tilde2":
            e, bd, f = "~> %d.%d" % a[:2], [(a[0], a[1], 0)], (lambda p: (a[0], a[1], 0) <= p < (a[0] + 1, 0, 0))
        elif kind == "interval":
            e, bd, f = ">= %s, < %s" % (rel(*a), rel(*b)), [a, b], (lambda p: a <= p < b)
        elif kind == "exact":
            e, bd, f = "= " + rel(*a), [a], (lambda p: p == a)
        elif kind == "ge":
            e, bd, f = ">= " + rel(*a), [a], (lambda p: p >= a)
        else:
            m = (a[0], a[1] + 7, 0)
            b2 = (a[0] + 3, 0, 0)
            e, bd, f = ">= %s, < %s, != %s" % (rel(*a), rel(*b2), rel(*m)), [a, b2, m], (lambda p, m=m, b2=b2: a <= p < b2 and p != m)
        check(ctx, "gem", e, VR.GemVersionRange.from_native, V.RubygemsVersion,
              lambda t, f=f: f(tuple(int(i) for i in t.split("."))), bd, kind not in ("exact", "ge"))
        try:
            req = G.GemRequirement.from_string(e)
        except Exception:  # noqa: BLE001 — the vendored matcher itself fails: no second opinion
            continue
        check(ctx, "gem-native", e, VR.GemVersionRange.from_native, V.RubygemsVersion,
              lambda t: req.satisfied_by(G.GemVersion(t)), bd, kind not in ("exact", "ge"))
    # gem `~>` on four and five numeric segments (the upper bound drops the last segment and bumps the one before it)
    rng = ctx.rng("c06", "gem-long")
    for _ in range(per // 4 + 4):
        n = rng.choice([4, 5, 5, 6])
        v = [rng.randint(0, 4) for _ in range(n)]
        e = "~> " + ".".join(map(str, v))
        ctx.count("gem-long", key=e, nontrivial=True)
        try:
            r = VR.GemVersionRange.from_native(e)
        except Exception as ex:  # noqa: BLE001
            ctx.disagree("gem-long", e, "raises %s" % type(ex).__name__, "a range", True, {"native": e, "clause": "conversion raises"}, spec="converts")
            continue
        up = v[:-2] + [v[-2] + 1]
        probes = [(v, True), (v[:-1] + [v[-1] + 3], True), (up, False), (up + [0], False), (v[:-2] + [v[-2], 9, 9], True),
                  (v[:-3] + [v[-3] + 1], False)] + ([(v[:-1] + [v[-1] - 1], False)] if v[-1] > 0 else [])
        for pv, want in probes:
            t = ".".join(map(str, pv))
            try:
                got = V.RubygemsVersion(t) in r
            except Exception as ex:  # noqa: BLE001
                got = "raises %s" % type(ex).__name__
            if got != want:
                ctx.disagree("gem-long", "%s @%s" % (e, t), str(got), str(want), True,
                             {"native": e, "vers": str(r), "probe": t, "clause": "membership of %s differs" % t}, spec=str(want))
                break
    # ---------------- pypi
    rng = ctx.rng("c06", "pypi")
    for _ in range(per):
        a = rv(rng, 0, 4)
        b = (a[0] + rng.randint(1, 2), rng.randint(0, 5), rng.randint(0, 5))
        kind = rng.choice(["interval", "exact", "ge", "le", "excl", "gt"])
        if kind == "interval":
            e, bd = ">=%s,<%s" % (rel(*a), rel(*b)), [a, b]
        elif kind == "exact":
            e, bd = "==" + rel(*a), [a]
        elif kind == "ge":
            e, bd = ">=" + rel(*a), [a]
        elif kind == "gt":
            e, bd = ">" + rel(*a), [a]
        elif kind == "le":
            e, bd = "<=" + rel(*a), [a]
        else:
            m = (a[0], a[1] + 7, 0)
            b2 = (a[0] + 3, 0, 0)
            e, bd = ">=%s,<%s,!=%s" % (rel(*a), rel(*b2), rel(*m)), [a, b2, m]
        ss = SpecifierSet(e)
        check(ctx, "pypi", e, VR.PypiVersionRange.from_native, V.PypiVersion, lambda t: ss.contains(PV(t)), bd, kind in ("interval", "excl"))
    # ---------------- maven / nuget
    for sname, rcls, vcls in (("maven", VR.MavenVersionRange, V.MavenVersion), ("nuget", VR.NugetVersionRange, V.NugetVersion)):
        rng = ctx.rng("c06", sname)
        for _ in range(per):
            a = rv(rng, 0, 4)
            b = (a[0] + rng.randint(1, 2), rng.randint(0, 5), rng.randint(0, 5))
            c = (b[0] + 1, rng.randint(0, 5), 0)
            d = (c[0] + 1, 0, 0)
            lo, hi = rng.choice("[("), rng.choice("])")
            kind = rng.choice(["interval", "exact", "lower", "upper", "two", "shared", "shared", "hole"])
            inlo = (lambda p, x: p >= x) if lo == "[" else (lambda p, x: p > x)
            inhi = (lambda p, x: p <= x) if hi == "]" else (lambda p, x: p < x)
            # the shared bound written a second way on the other side (1.1.0 / 1.1 / 1.1.0.0: the same version)
            b_alt = rel(*b)
            if rng.random() < 0.5:
                b_alt = b_alt + ".0" if rng.random() < 0.4 else b_alt
                while b_alt.endswith(".0") and rng.random() < 0.7:
                    b_alt = b_alt[:-2]
            if rng.random() < 0.5:
                b_alt, b_txt = rel(*b), b_alt
            else:
                b_txt = rel(*b)
            if kind == "interval":
                e, bd, f = "%s%s,%s%s" % (lo, rel(*a), rel(*b), hi), [a, b], (lambda p: inlo(p, a) and inhi(p, b))
            elif kind == "exact":
                e, bd, f = "[%s]" % rel(*a), [a], (lambda p: p == a)
            elif kind == "lower":
                e, bd, f = "%s%s,)" % (lo, rel(*a)), [a], (lambda p: inlo(p, a))
            elif kind == "upper":
                e, bd, f = "(,%s%s" % (rel(*a), hi), [a], (lambda p: inhi(p, a))
            elif kind == "shared":
                # two intervals that share the bound b, each side inclusive or not: (a,b),(b,c] excludes exactly b
                l2 = rng.choice("[(")
                in2 = (lambda p, x: p >= x) if l2 == "[" else (lambda p, x: p > x)
                e, bd, f = "[%s,%s%s,%s%s,%s]" % (rel(*a), b_txt, hi, l2, b_alt, rel(*c)), [a, b, c], \
                    (lambda p, in2=in2: (p >= a and inhi(p, b)) or (in2(p, b) and p <= c))
            elif kind == "hole":
                # the idiom for "every version but b"
                e, bd, f = "(,%s),(%s,)" % (b_txt, b_alt), [b], (lambda p: p != b)
            else:
                e, bd, f = "%s%s,%s%s,[%s,%s)" % (lo, rel(*a), rel(*b), hi, rel(*c), rel(*d)), [a, b, c, d], \
                    (lambda p: (inlo(p, a) and inhi(p, b)) or c <= p < d)
            # hand-written reading of the interval notation first (maven.VersionRange is part of the code under test)
            reg = "maven-shared-bound" if kind in ("shared", "hole") else None
            check(ctx, sname, e, rcls.from_native, vcls, lambda t, f=f: f(tuple(int(i) for i in t.split("."))), bd,
                  kind in ("interval", "two", "shared", "hole"), region=reg)
            try:
                mr = M.VersionRange(e)
            except Exception:  # noqa: BLE001 — the vendored matcher itself fails: no second opinion
                continue
            check(ctx, sname + "-native", e, rcls.from_native, vcls, lambda t: M.Version(t) in mr, bd,
                  kind in ("interval", "two", "shared", "hole"), region=reg)
    # ---------------- conan
    rng = ctx.rng("c06", "conan")
    fz = forced(["tilde", "caret"])
    for i in range(per + len(fz)):
        a = rv(rng, 0, 4)
        kind = rng.choice(["tilde", "caret", "interval", "exact", "ge", "alts", "alts"])
        if i < len(fz):
            kind, a = fz[i]
        b = (a[0] + rng.randint(1, 2), rng.randint(0, 5), rng.randint(0, 5))
        # hand-written reading of conan's notation on release versions (the library's own conan VersionRange is the
        # code under test, so it cannot be the oracle; it is run as a second opinion below)
        if kind == "tilde":
            e, bd, f = "~" + rel(*a), [a], (lambda p: a <= p < (a[0], a[1] + 1, 0))
        elif kind == "caret":
            up = (a[0] + 1, 0, 0) if a[0] > 0 else ((0, a[1] + 1, 0) if a[1] > 0 else (0, 0, a[2] + 1))
            e, bd, f = "^" + rel(*a), [a, up], (lambda p, up=up: a <= p < up)
        elif kind == "interval":
            e, bd, f = ">=%s <%s" % (rel(*a), rel(*b)), [a, b], (lambda p: a <= p < b)
        elif kind == "exact":
            e, bd, f = "=" + rel(*a), [a], (lambda p: p == a)
        elif kind == "alts":
            # alternatives in any written order: an open-ended or exact one first, an interval after it
            c = (b[0] + 1, rng.randint(0, 3), 0)
            first = rng.choice([">=%s" % rel(*c), "=%s" % rel(*c), ">%s" % rel(*c)])
            fin = {">=": (lambda p: p >= c), "=": (lambda p: p == c), ">": (lambda p: p > c)}[first.rstrip("0123456789.")]
            second = rng.choice([">=%s <%s" % (rel(*a), rel(*b)), "<%s" % rel(*a)])
            sin = (lambda p: a <= p < b) if second.startswith(">=") else (lambda p: p < a)
            parts = [first, second]
            if rng.random() < 0.4:
                parts.reverse()
            e, bd, f = " || ".join(parts), [a, b, c], (lambda p, fin=fin, sin=sin: fin(p) or sin(p))
        else:
            e, bd, f = ">=" + rel(*a), [a], (lambda p: p >= a)
        check(ctx, "conan", e, VR.ConanVersionRange.from_native, V.ConanVersion,
              lambda t, f=f: f(tuple(int(i) for i in t.split("."))), bd, kind in ("tilde", "caret", "interval", "alts"))
        try:
            cr = ConanRange(e)
        except Exception:  # noqa: BLE001 — the vendored matcher itself fails: no second opinion
            continue
        check(ctx, "conan-native", e, VR.ConanVersionRange.from_native, V.ConanVersion, lambda t: V.ConanVersion(t) in cr, bd,
              kind in ("tilde", "caret", "interval"))
    # ---------------- nginx (hand-written reading of the notation)
    rng = ctx.rng("c06", "nginx")
    fz = forced(["dash", "plus", "two"])
    for i in range(per + len(fz)):
        a = rv(rng, 0, 3)
        kind = rng.choice(["dash", "plus", "plain", "two"])
        if i < len(fz):
            kind, a = fz[i]
        b = (a[0] + rng.randint(0, 1), a[1] + rng.randint(1, 4), rng.randint(0, 5))
        def plus(x):
            return (lambda p: p >= x and (x[1] % 2 == 1 or (p[0], p[1]) == (x[0], x[1])))
        if kind == "dash":
            e, bd, f = "%s-%s" % (rel(*a), rel(*b)), [a, b], (lambda p: a <= p <= b)
        elif kind == "plus":
            e, bd, f = rel(*a) + "+", [a], plus(a)
        elif kind == "plain":
            e, bd, f = rel(*a), [a], (lambda p: p == a)
        else:
            x = (a[0], 2 * a[1], a[2])           # a stable branch
            y = (a[0], 2 * a[1] + 3, b[2])       # mainline, above
            e, bd, f = "%s+, %s+" % (rel(*y), rel(*x)), [x, y], (lambda p: plus(x)(p) or plus(y)(p))
        check(ctx, "nginx", e, VR.NginxVersionRange.from_native, V.NginxVersion,
              lambda t, f=f: f(tuple(int(i) for i in t.split("."))), bd, kind != "plain")
    # ---------------- deb / rpm relations, openssl lists
    import operator as op
    for sname, rcls, vcls, ops in (("deb", VR.DebianVersionRange, V.DebianVersion, {"<<": op.lt, "<=": op.le, "=": op.eq, ">=": op.ge, ">>": op.gt}),
                                   ("rpm", VR.RpmVersionRange, V.RpmVersion, {"<": op.lt, "<=": op.le, "=": op.eq, ">=": op.ge, ">": op.gt, "!=": op.ne, "<>": op.ne})):
        rng = ctx.rng("c06", sname)
        for _ in range(per):
            a = rv(rng, 0, 4)
            o = rng.choice(list(ops))
            e = "%s %s" % (o, rel(*a))
            if sname == "deb" and rng.random() < 0.5:
                e = "(%s)" % e
            check(ctx, sname, e, rcls.from_native, vcls, lambda t, o=o: ops[o](tuple(map(int, t.split("."))), a), [a], o in ("!=", "<>"))
    _relations_over_any_version(ctx, per)
    rng = ctx.rng("c06", "openssl")
    for _ in range(per // 2):
        vs = sorted({(3, rng.randint(0, 3), rng.randint(0, 5)) for _ in range(rng.randint(1, 3))})
        e = ", ".join(rel(*v) for v in vs)
        check(ctx, "openssl", e, VR.OpensslVersionRange.from_native, V.OpensslVersion,
              lambda t: tuple(map(int, t.split("."))) in vs, list(vs), len(vs) >= 2)
    ctx.sample({"native": "^1.2.3", "vers": common.safe(lambda: VR.NpmVersionRange.from_native("^1.2.3"))})
