"""C05 — vers text and range objects round-trip losslessly and canonically."""
from harness import common, layerb as B, schemes as S, textcommon as T
from harness import corr_textvers as CT
from harness.known import replay_known  # noqa: F401

from univers import version_range as VR
from univers.version_constraint import VersionConstraint
from univers.version_range import VersionRange

MODULES = ["Univers.Props.C05"]
LEVEL = "proof"
# function-level tie for the text layer (translator + agreement theorems): see runner step 3a
TIE_THEOREMS = {"Univers.Text.GenTextThm": ["Univers.Gen.Text.py_remove_spaces_eq", "Univers.Gen.Text.vc_split_eq", "Univers.Gen.Text.vc_from_string_eq", "Univers.Gen.Text.vc_str_eq", "Univers.Gen.Text.vc_to_dict_eq"], "Univers.Text.GenRangeTextThm": ["Univers.Gen.Text.vr_from_string_eq", "Univers.Gen.Text.fromStringFull_plain"],
                "Univers.Text.GenRangeStrThm": ["Univers.Gen.Text.vr_str_eq", "Univers.Gen.Text.vr_to_dict_eq"],
                "Univers.Text.GenVersExact": ["Univers.Gen.Text.py_from_string_exact", "Univers.Gen.Text.py_from_string_presentation_independent"]}
RULE = ("(1) the vers text layer of the real code against the Lean model on generated vers strings of every registered scheme "
        "(valid, decorated, mutated); (2) for every range class of the library and seeded constraint lists (any comparators, any "
        "count, any construction order, versions from the scheme's grammar without vers delimiters): str(range) parsed back "
        "equals the range, prints identically, lists constraints in version order with '=' implicit, to_dict carries the same "
        "scheme/comparators/version texts; (3) every range class's scheme is in the registry and maps back to it; "
        "non-trivial = two or more constraints")
ASSUMPTIONS = ["version texts contain no vers delimiter ('|', whitespace, leading comparator or '*')", "ASCII"]


def _safe(text):
    return text and not any(c in text for c in "|\\'\"") and not text.split() != [text] and text[0] not in "<>=!*" and text.isascii()


def _range_classes():
    out = []
    def walk(c):
        for sub in c.__subclasses__():
            if sub.__module__.startswith("univers") and sub not in out:
                out.append(sub)
            walk(sub)
    walk(VersionRange)
    return out


NATIVES = {
    "NpmVersionRange": ["*", "^1.2.3", "~1.2", "1.x", ">=1.0.0 <2.0.0", "1.2.3 - 2.3.4", "<1.0.0 || >=2.0.0", "1.2.3"],
    "NginxVersionRange": ["all", "1.2.3", "1.1.0-1.2.0", "1.5.0+", "1.5.10+, 1.4.7+"],
    "GemVersionRange": ["~> 2.1", ">= 1.0, < 3", "= 1.0", "!= 1.5, >= 1.0"],
    "PypiVersionRange": [">=1.0,<2.0", "==1.0", "!=1.5,>=1.0", "<=3"],
    "MavenVersionRange": ["[1.0,2.0)", "[1.0]", "(,1.0],[1.2,)", "[1.5,)", "[3.0]", "[1.0.0,2.0.0]"],
    "NugetVersionRange": ["[1.0,2.0)", "[1.0]", "(,1.0],[1.2,)", "[1.5,)", "[3.0]", "[1.0.0,2.0.0]"],
    "ConanVersionRange": ["~1.2", "^1.2.3", ">=1.0 <2.0", "1.0 || 2.0", ">1.0"],
    "DebianVersionRange": [">= 1.0", "<< 2.0-1", "= 1.0"],
    "RpmVersionRange": [">= 1.0", "< 2.0-1", "= 1.0"],
    "OpensslVersionRange": ["1.0.1a, 1.0.2b", "3.0.0", "1.1.1k, 3.0.1"],
}


def _roundtrip_clauses(rc, r):
    """the clauses of the property on one range object; returns the first that fails"""
    text = str(r)
    back = VersionRange.from_string(text)
    if type(back) is not type(r):
        return "parsed range has type %s, the original %s" % (type(back).__name__, type(r).__name__), text
    if not (back == r):
        return "parsed range is not equal to the original", text
    if str(back) != text:
        return "printing again gives %r" % str(back), text
    d = r.to_dict()
    want = [dict(comparator=c.comparator, version=str(c.version)) for c in r.constraints]
    if d.get("scheme") != rc.scheme or d.get("constraints") != want:
        return "to_dict does not carry the same scheme/comparators/version texts", text
    return None, text


def _other_routes(ctx):
    """ranges that did not come from the plain constructor or the parser: the everything range built by hand and by the
    native converters, from_native / from_natives of every class that has them (also as inherited by a subclass),
    from_versions, invert, normalize.  Each must print, parse back to an equal range of the same type, print again
    identically and carry the same dictionary form."""
    for rc in _range_classes():
        if not isinstance(rc.scheme, str) or rc.version_class is None:
            continue
        stream = "routes:" + rc.scheme
        made = []
        def add(label, f):
            try:
                r = f()
            except Exception:  # noqa: BLE001 — a route that is not offered for this class, or refuses the input
                return
            if isinstance(r, VersionRange):
                made.append((label, r))
        add("star constraint by hand", lambda: rc(constraints=[VersionConstraint(comparator="*", version_class=rc.version_class)]))
        add("from_string star", lambda: VersionRange.from_string("vers:%s/*" % rc.scheme))
        for other in (VR.NpmVersionRange, VR.DebianVersionRange, VR.PypiVersionRange):
            if other is not rc:
                add("from_string through %s" % other.__name__, lambda other=other: other.from_string("vers:%s/>=1.0.0|<2.0.0" % rc.scheme))
                add("from_string(1-1) through %s" % other.__name__, lambda other=other: other.from_string("vers:%s/>=1.0-1|<2.0.1.1" % rc.scheme))
        for e in NATIVES.get(rc.__name__, []):
            add("from_native(%r)" % e, lambda e=e: rc.from_native(e))
            add("from_natives([%r])" % e, lambda e=e: rc.from_natives([e]))
            add("from_natives(%r)" % e, lambda e=e: rc.from_natives(e))
        exprs = NATIVES.get(rc.__name__, [])
        if len(exprs) >= 2:
            add("from_natives(%r)" % exprs[1:3], lambda: rc.from_natives(exprs[1:3]))
        gname = CT.gen_name_of(rc.version_class)
        rng = ctx.rng("c05-routes", rc.__name__)
        texts = []
        for _ in range(40):
            try:
                s, v = S.gen_valid(gname, rng)
                v = rc.version_class(s)
                w = rc.version_class(str(v))
            except Exception:  # noqa: BLE001
                continue
            if _safe(str(v)) and w == v and str(w) == str(v):
                texts.append(s)
            if len(texts) >= 6:
                break
        if len(texts) >= 3:
            add("from_versions", lambda: rc.from_versions(texts[:3]))
            add("from_versions (12, repeated)", lambda: rc.from_versions((texts * 4)[:12]))
            base = None
            try:
                vs = sorted(rc.version_class(t) for t in texts[:3])
                base = rc(constraints=[VersionConstraint(comparator=">=", version=vs[0]), VersionConstraint(comparator="<", version=vs[-1])])
            except Exception:  # noqa: BLE001
                pass
            if base is not None:
                add("invert", lambda: base.invert())
                add("invert twice", lambda: base.invert().invert())
                add("normalize", lambda: base.normalize(texts))
        for label, r in made:
            ctx.count(stream, key=label, nontrivial=len(r.constraints) >= 2, branch=label.split("(")[0])
            try:
                why, text = _roundtrip_clauses(rc, r)
            except Exception as e:  # noqa: BLE001
                why, text = "parsing the printed text raises %s: %s" % (type(e).__name__, e), common.safe(lambda: str(r))
            if why and any(("None" in str(c)) for c in r.constraints):
                continue    # maven/nuget soft requirement, K07
            if why:
                ctx.disagree(stream, "%s %s" % (rc.__name__, label), why, "round trip", True,
                             {"range_class": rc.__name__, "route": label, "text": text, "clause": why}, spec="round trip")


def correspondence(ctx):
    n = 40000 if ctx.thorough else 2500
    T.run_corr(ctx, "corr_textvers", "vers-text", n)
    # registry clauses on the real objects
    for rc in _range_classes():
        ctx.count("registry", key=rc.__name__, nontrivial=True)
        if isinstance(rc.scheme, str):
            got = VR.RANGE_CLASS_BY_SCHEMES.get(rc.scheme)
            if got is not rc:
                ctx.disagree("registry", rc.__name__, str(got), rc.__name__, True,
                             {"range_class": rc.__name__, "scheme": rc.scheme,
                              "clause": "the scheme printed by this class is not registered to it"}, spec=rc.__name__)
    for k, rc in VR.RANGE_CLASS_BY_SCHEMES.items():
        ctx.count("registry", key="entry-" + k, nontrivial=True)
        if rc.scheme != k:
            ctx.disagree("registry", k, str(rc.scheme), k, True, {"scheme": k, "range_class": rc.__name__,
                         "clause": "registry entry maps to a class that prints another scheme"}, spec=k)
    # a helper subclass that keeps its parent's scheme (defined here, in this process) takes nothing over: the registry
    # still maps every scheme to the class it mapped to, and parsing a printed range gives the registered class
    before = dict(VR.RANGE_CLASS_BY_SCHEMES)
    subs = []
    for rc in _range_classes():
        try:
            subs.append(type("Advisory" + rc.__name__, (rc,), {"__doc__": "a helper subclass without a scheme of its own"}))
        except Exception:  # noqa: BLE001
            pass
    ctx.count("registry", key="after-subclassing", nontrivial=True)
    for k, rc in before.items():
        if VR.RANGE_CLASS_BY_SCHEMES.get(k) is not rc:
            ctx.disagree("registry", "after subclassing " + k, str(VR.RANGE_CLASS_BY_SCHEMES.get(k)), rc.__name__, True,
                         {"scheme": k, "clause": "defining a subclass of %s that keeps its scheme changed the registry entry of %r" % (rc.__name__, k)},
                         spec=rc.__name__)
            break
    del subs
    import gc
    gc.collect()        # the helper subclasses are gone again (they must not be met as range classes below)
    # round trip of range objects
    _roundtrip_objects(ctx, 1500 if ctx.thorough else (400 if ctx.deepen else 80), "c05-rt", "roundtrip:")
    _other_routes(ctx)
    ctx.sample({"text": "vers:npm/>=1.0.0|<2.0.0", "roundtrip": common.safe(lambda: VersionRange.from_string("vers:npm/>=1.0.0|<2.0.0"))})


def search(ctx):
    """A tie is broken and the sweep above found nothing: the same round trip on many more range objects (other
    random choices), which is where a version text newly accepted by a class, or newly printed differently, shows."""
    _roundtrip_objects(ctx, 4000 if ctx.thorough else 1200, "c05-search", "search-roundtrip:")


def _roundtrip_objects(ctx, per, label, prefix):
    for rc in _range_classes():
        if not isinstance(rc.scheme, str) or rc.version_class is None:
            continue
        gname = CT.gen_name_of(rc.version_class)
        rng = ctx.rng(label, rc.__name__)
        stream = prefix + rc.scheme
        for _ in range(per):
            k = rng.choice([1, 1, 2, 3, 4, 5])
            cons = []
            texts = []
            weak = set()
            weak_src = set()
            tries = 0
            while len(cons) < k and tries < 40:
                tries += 1
                try:
                    s, v = S.gen_valid(gname, rng)
                    if rng.random() < 0.3:
                        # a character of a wide alphabet inserted (what a loosened validity pattern may newly admit);
                        # used only when the constructor accepts the text
                        j = rng.randint(0, len(s))
                        ins = rng.choice(list(":_~+-.^") + ["0:", "1:", "0:", "00:"]) if rng.random() < 0.65 else \
                            rng.choice(["%2B", "%7E", "%41", "%", "v", "vv", "Vv", "V"])
                        if ins.endswith(":") and len(ins) > 1 and rng.random() < 0.7:
                            j = 0           # an epoch in front (of a text that may already have one)
                        if ins.lower().startswith("v"):
                            j = 0           # one or two `v` in front: what `normalize` strips must be stripped for good
                        s = s[:j] + ins + s[j:]
                    v = rc.version_class(s)
                except Exception:  # noqa: BLE001
                    continue
                if not _safe(str(v)):
                    continue
                try:
                    w = rc.version_class(str(v))
                    if not (w == v) or str(w) != str(v):
                        # the version's own text does not round-trip: then neither does a range that holds it
                        # (recorded for rpm as K05/K08; anything else is reported)
                        ctx.stream(stream)["version_text_not_roundtripping"] = \
                            ctx.stream(stream).get("version_text_not_roundtripping", 0) + 1
                        weak.add(str(v))
                        weak_src.add(s)
                except Exception:  # noqa: BLE001
                    # the version's own printed text is refused by its own class: a range holding it prints a
                    # text that cannot be parsed back (kept, so that the clause below reports it)
                    ctx.stream(stream)["version_text_refused"] = ctx.stream(stream).get("version_text_refused", 0) + 1
                    weak.add(str(v))
                    weak_src.add(s)
                cons.append(VersionConstraint(comparator=rng.choice([">=", "<=", "!=", "<", ">", "="]), version=v))
                texts.append(s)
            if not cons:
                continue
            if rng.random() < 0.15:
                # "any count": the same constraint held twice
                c0 = rng.choice(cons)
                cons.append(VersionConstraint(comparator=c0.comparator, version=c0.version))
            rng.shuffle(cons)
            try:
                r = rc(constraints=cons)
                text = str(r)
            except TypeError:
                continue    # unorderable within the class (C01/C02 business)
            ctx.count(stream, key=text, nontrivial=len(cons) >= 2)
            why = None
            try:
                back = VersionRange.from_string(text)
                if type(back) is not rc:
                    why = "parsed range has type %s" % type(back).__name__
                elif not (back == r):
                    why = "parsed range is not equal to the original"
                elif str(back) != text:
                    why = "printing again gives %r" % str(back)
                else:
                    d = r.to_dict()
                    want = [dict(comparator=c.comparator, version=str(c.version)) for c in r.constraints]
                    if d.get("scheme") != rc.scheme or d.get("constraints") != want:
                        why = "to_dict does not carry the same scheme/comparators/version texts"
                    body = text.split("/", 1)[1].split("|")
                    exp = [(str(c.version) if c.comparator == "=" else c.comparator + str(c.version)) for c in sorted(r.constraints)]
                    if why is None and body != exp:
                        why = "printed constraints are not the version-sorted constraints with '=' implicit"
                    if why is None and any((a.version > b.version) for a, b in zip(r.constraints, r.constraints[1:])):
                        why = "constraints are not in version order"
            except Exception as e:  # noqa: BLE001
                why = "parsing the printed text raises %s: %s" % (type(e).__name__, e)
            if why:
                region = None
                if weak and rc.scheme == "rpm":
                    from harness.props.c11 import k05_text
                    if all(k05_text(t) for t in weak_src):
                        region = "rpm-str-roundtrip"
                ctx.disagree(stream, text, why, "round trip", True,
                             {"range_class": rc.__name__, "text": text, "clause": why, "versions_whose_text_does_not_roundtrip": sorted(weak),
                              "python": "from univers.version_range import VersionRange as R; r=R.from_string(%r); print(str(r))" % text},
                             region=region, spec="round trip")
