"""C02 — the six comparison operators agree with one another."""
from harness import common, layera as A, schemes as S

from univers.version_constraint import VersionConstraint
import attr
import copy

MODULES = ["Univers.Props.C02", "Univers.Py.ClassPins"]
LEVEL = "proof"
RULE = ("per scheme: grammar-directed, respelled (equal-but-differently-spelled) and mutated pairs of version texts; the real "
        "six operators and hash of the public Version objects against the Lean model of the scheme (operators as Python "
        "dispatches them); every ordered pair of a pool of valid versions is also put to the property's own oracle on the "
        "real code (exactly one of <,==,>; <= is < or ==; >= is > or ==; != is not ==) and every single-comparator "
        "constraint to `version in constraint`; non-trivial = both sides valid; distinct = distinct (scheme, a, b)")
ASSUMPTIONS = ["version text is ASCII", "CPython int() limit of 4300 digits is outside the model"]
TXT = {"ge": ">=", "le": "<=", "ne": "!=", "lt": "<", "gt": ">", "eq": "="}
import operator
OPF = {"ge": operator.ge, "le": operator.le, "ne": operator.ne, "lt": operator.lt, "gt": operator.gt, "eq": operator.eq}


def correspondence(ctx):
    n = 25000 if ctx.thorough else 1200
    psize = 90 if ctx.thorough else 28
    for name in A.ALL:
        stream = "ops:" + name
        if not A.has_model(name):
            ctx.stream(stream)["skipped"] = "no Lean model for this scheme yet"
            continue
        stats, dis = A.corr(ctx, name, n)
        st = ctx.stream(stream)
        st["evaluations"] += stats["pairs"]
        st["distinct_nontrivial"] += stats["pairs"] - stats["cmp_invalid"]
        st["equal_pairs"] = stats["cmp_eq"]
        ctx.evaluations += stats["pairs"]
        if stats.get("sample_pair"):
            ctx.sample({"scheme": name, "line": "vcmp %s %r %r" % (name, *stats["sample_pair"]), "model": stats["sample_answer"]})
        for d in dis:
            if d["kind"] != "cmp":
                continue
            b = A.bits_of(d["impl"])
            why = A.ops_agree(b[1]) if b else None
            rep = {"scheme": name, "a": d["a"], "b": d["b"],
                   "python": "from univers.versions import %s as V; a,b=V(%r),V(%r); print(a<b,a<=b,a==b,a!=b,a>=b,a>b)"
                             % (S.vclass(name).__name__, d["a"], d["b"])}
            if why:
                rep["clause"] = why
                ctx.disagree(stream, "vcmp %s" % name, d["impl"], d["model"], True, rep, spec="the six operators agree")
            else:
                ctx.disagree(stream, "vcmp %s" % name, d["impl"], d["model"], False, rep)
    # the property's oracle on the real code, every ordered pair of a pool
    for name in A.ALL:
        rng = ctx.rng("c02-pool", name)
        pool = A.valid_pool(name, rng, psize)
        stream = "oracle:" + name
        for (sa, a) in pool:
            for (sb, b) in pool:
                impl = A.SC.impl_cmp(name, sa, sb)
                bt = A.bits_of(impl)
                ctx.count(stream, key=(sa, sb), nontrivial=True)
                if bt is None:
                    continue
                why = A.ops_agree(bt[1])
                if why:
                    ctx.disagree(stream, "pair", impl, "-", True,
                                 {"scheme": name, "a": sa, "b": sb, "clause": why}, spec="the six operators agree")
        # single-comparator constraints, through every public spelling of the membership test.  The sub-pool also holds
        # "twins" of its members: another spelling of the same version and, for alpm, the same version with / without
        # a pkgrel (equal to the bare version, unequal to each other), so that anything remembered about one of them
        # is there when the other arrives
        sub = list(pool[:12])
        for (sa, a) in pool[:6]:
            cands = []
            try:
                cands.append(S.RESPELL[name](sa, rng))
            except Exception:  # noqa: BLE001
                pass
            if name == "alpm":
                cands += [sa.rsplit("-", 1)[0]] if A.alpm_has_rel(sa) else [sa + "-1", sa + "-2"]
            for t in cands:
                if any(t == x for x, _ in sub) or any(ord(ch) > 127 for ch in t):
                    continue
                try:
                    sub.append((t, S.vclass(name)(t)))
                except Exception:  # noqa: BLE001
                    pass
        INVTXT = {">=": "<", "<=": ">", "!=": "=", "<": ">=", ">": "<=", "=": "!="}
        entry = [("in", lambda v, k: v in k), ("contains", lambda v, k: k.contains(v)), ("satisfies", lambda v, k: v.satisfies(k)),
                 # the same constraint obtained by inverting its inverse, and by attr.evolve of another one
                 ("in (constraint made by invert())", lambda v, k: v in VersionConstraint(comparator=INVTXT[k.comparator], version=k.version).invert()),
                 ("in (constraint inverted twice)", lambda v, k: v in k.invert().invert()),
                 ("in (constraint made by attr.evolve of one with another comparator)",
                  lambda v, k: v in attr.evolve(VersionConstraint(comparator=INVTXT[k.comparator], version=k.version), comparator=k.comparator)),
                 ("in (constraint made by attr.evolve of one on another version)",
                  lambda v, k: v in attr.evolve(VersionConstraint(comparator=k.comparator, version=v), version=k.version)),
                 ("in (copy.copy of the constraint)", lambda v, k: v in copy.copy(k))]
        for (sa, a) in sub:
            for (sb, b) in sub:
                for c, f in OPF.items():
                    for ename, ef in (entry if (len(sa) + len(sb)) % 3 == 0 else (entry[:1] + entry[3:4] + entry[5:6])):
                        try:
                            got = ef(a, VersionConstraint(comparator=TXT[c], version=b))
                            want = bool(f(a, b))
                        except Exception as e:  # noqa: BLE001
                            got, want = "raise:" + type(e).__name__, "answer"
                        ctx.count(stream + ":constraint", key=(sa, sb, c, ename), nontrivial=True)
                        if got != want:
                            ctx.disagree(stream + ":constraint", "%s %s %s%s" % (sa, ename, TXT[c], sb), str(got), str(want), True,
                                         {"scheme": name, "version": sa, "constraint": TXT[c] + sb, "entry_point": ename},
                                         spec=str(want))
