"""C01 — version comparison is a strict weak order within every scheme."""
import itertools

from harness import common, layera as A, schemes as S

from harness.known import replay_known  # noqa: F401

MODULES = ["Univers.Props.C01", "Univers.Scheme.TablesThm"]
LEVEL = "proof"
# textual tie (regular expressions of /repo as the recognisers read them): runner step 3a
TIE_THEOREMS = {"Univers.Scheme.RegexPins": ["Univers.Tables.regex_sites_pinned", "Univers.Tables.compiled_patterns_pinned"]}
RULE = ("per scheme: pairs of version texts (grammar, respelling, mutation streams) — real '<', '>' and the raw three-way "
        "routine against the Lean model (`vercmp`, refined to a lawful sort key by theorem); plus all ordered triples of a pool "
        "of valid versions put to the five laws on the real operators; alpm triples mixing 'has pkgrel'/'no pkgrel' and conan "
        "triples mixing numbers and words in one position are outside the property; non-trivial = all sides valid")
ASSUMPTIONS = ["version text is ASCII", "CPython int() limit of 4300 digits is outside the model"]


def correspondence(ctx):
    n = 25000 if ctx.thorough else 1200
    for name in A.ALL:
        stream = "order:" + name
        if not A.has_model(name):
            ctx.stream(stream)["skipped"] = "no Lean model for this scheme yet"
            continue
        stats, dis = A.corr(ctx, name, n)
        st = ctx.stream(stream)
        st["evaluations"] += stats["pairs"]
        st["distinct_nontrivial"] += stats["pairs"] - stats["cmp_invalid"]
        ctx.evaluations += stats["pairs"]
        if stats.get("sample_pair"):
            ctx.sample({"scheme": name, "line": "vcmp %s %r %r" % (name, *stats["sample_pair"]), "model": stats["sample_answer"]})
        for d in dis:
            if d["kind"] != "cmp":
                continue
            bi, bm = A.bits_of(d["impl"]), A.bits_of(d["model"])
            if bi and bm and bi[1][2] == bm[1][2] and bi[1][4] == bm[1][4] and bi[0] in ("?", bm[0]):
                continue        # '<' and '>' and the sign agree: other operators are C02's business
            ctx.disagree(stream, "vcmp %s" % name, d["impl"], d["model"], False, {"scheme": name, "a": d["a"], "b": d["b"]})
    _laws(ctx, 60 if ctx.thorough else 22)
    _after_use(ctx)


def search(ctx):
    """the model no longer reproduces the real order on some pairs: put those pairs, every valid prefix of
    their texts and a few fresh versions to the laws, then a larger random pool"""
    by_scheme = {}
    for d in ctx.tie_broken:
        if d.get("scheme") and d.get("a") is not None:
            by_scheme.setdefault(d["scheme"], []).append((d["a"], d["b"]))
    for name, pairs in by_scheme.items():
        cls = S.vclass(name)
        rng = ctx.rng("c01-search", name)

        def pool_of(prs, cap):
            texts = []
            for (a, b) in prs:
                for s in (a, b):
                    cuts = [len(s)] + [i for i in range(len(s) - 1, 0, -1) if s[i] in "-+~_^.:"] + list(range(len(s) - 1, 0, -1))
                    for i in cuts:
                        if s[:i] not in texts:
                            texts.append(s[:i])
            # recombination: the tails of the disagreeing texts (from a separator on) behind a few plain versions
            tails = []
            for (a, b) in prs:
                for s in (a, b):
                    for i, ch in enumerate(s):
                        if ch in "-+~_^:" and s[i:] not in tails:
                            tails.append(s[i:])
            # ... and neighbours of those tails: a letter behind a final digit, the final character cut, a zero in front
            for tl in list(tails)[:8]:
                for v in ((tl + "a") if tl[-1:].isdigit() else None, tl[:-1] if len(tl) > 2 else None,
                          (tl[0] + "0" + tl[1:]) if tl[1:2].isdigit() else None, tl[0] + "1a"):
                    if v and v not in tails:
                        tails.append(v)
            bases = [t for t, _ in A.valid_pool(name, rng, 3)] + ["1.0", "2"]
            recomb = []
            for base in bases:
                recomb.append(base)
                for tl in tails[:14]:
                    recomb.append(base + tl)
            texts = recomb[:cap // 2] + [t for t in texts if t not in recomb]
            pool = []
            for t in texts:
                try:
                    pool.append((t, cls(t)))
                except Exception:  # noqa: BLE001
                    pass
                if len(pool) >= cap:
                    break
            return pool
        # each disagreeing pair with all its prefixes, then the pairs together (cut at separators first)
        for pr in pairs[:8]:
            pool = pool_of([pr], 24)
            pool += [p for p in A.valid_pool(name, rng, 6) if p[0] not in [t for t, _ in pool]]
            _laws(ctx, 0, only=name, pool=pool, stream="laws-search:" + name)
            if ctx.rep.violations:
                return
        _laws(ctx, 0, only=name, pool=pool_of(pairs[:12], 45), stream="laws-search:" + name)
        if ctx.rep.violations:
            return
    _laws(ctx, 70)


def _after_use(ctx):
    """a history: the order between version objects is the same after the objects have been USED (every public
    zero-argument method and property of the version and of its value object called, a range built from them and
    asked for membership) as before, and the same as between fresh objects of the same texts"""
    import inspect
    from univers.version_constraint import VersionConstraint
    for name in A.ALL:
        rng = ctx.rng("c01-use", name)
        pool = A.valid_pool(name, rng, 12)
        stream = "after-use:" + name

        def matrix(objs):
            out = {}
            for sa, a in objs:
                for sb, b in objs:
                    try:
                        out[(sa, sb)] = (bool(a < b), bool(a > b))
                    except Exception as e:  # noqa: BLE001
                        out[(sa, sb)] = type(e).__name__
            return out
        before = matrix(pool)
        for s, v in pool:
            val = getattr(v, "value", None)
            for obj in [v] + ([val] if val is not None and not isinstance(val, (str, bytes, int, tuple, bool)) else []):
                for an in dir(obj):
                    if an.startswith("_"):
                        continue
                    try:
                        a = getattr(obj, an)
                        if callable(a):
                            sig = inspect.signature(a)
                            if any(p.default is p.empty and p.kind in (p.POSITIONAL_ONLY, p.POSITIONAL_OR_KEYWORD, p.KEYWORD_ONLY)
                                   for p in sig.parameters.values()):
                                continue
                            a()
                    except Exception:  # noqa: BLE001
                        pass
            try:
                c = VersionConstraint(comparator=">=", version=v)
                for _t, w in pool[:4]:
                    w in c
            except Exception:  # noqa: BLE001
                pass
        after = matrix(pool)
        fresh = matrix([(s, S.vclass(name)(s)) for s, _ in pool])
        ctx.count(stream, key=tuple(s for s, _ in pool), nontrivial=True)
        for label, m2 in (("the same objects after use", after), ("fresh objects of the same texts", fresh)):
            diff = [k for k in before if before[k] != m2[k]]
            if diff:
                sa, sb = diff[0]
                ctx.disagree(stream, "%s / %s" % (sa, sb), "%s: (a<b, a>b) was %s, is %s" % (label, before[(sa, sb)], m2[(sa, sb)]), "unchanged", True,
                             {"scheme": name, "a": sa, "b": sb, "clause": "the order between two versions changed with use: " + label},
                             spec="the order does not depend on history")
                break


def _laws(ctx, psize, only=None, pool=None, stream=None):
    """the five laws on the real operators over all triples of a pool"""
    given = pool
    for name in ([only] if only else A.ALL):
        if given is None:
            rng = ctx.rng("c01-pool", name, psize)
            pool = A.valid_pool(name, rng, psize)
            # for up to three members with a letter that stands alone: the same text with that letter in the other case,
            # and with the next letter in that case (three versions one case-folding line of a comparison confuses)
            from harness import schemes as S
            added = 0
            have = {t for t, _ in pool}
            for t, _v in list(pool):
                lone = [i for i, ch in enumerate(t) if ch.isalpha() and ch.isascii() and (i == 0 or not t[i - 1].isalpha())
                        and (i + 1 == len(t) or not t[i + 1].isalpha())]
                if not lone or added >= 3:
                    continue
                i = lone[-1]
                sw = t[:i] + t[i].swapcase() + t[i + 1:]
                nxt = {"z": "y", "Z": "Y"}.get(sw[i], chr(ord(sw[i]) + 1))
                ok = 0
                for t2 in (sw, sw[:i] + nxt + sw[i + 1:]):
                    if t2 in have:
                        continue
                    try:
                        pool.append((t2, S.vclass(name)(t2)))
                        have.add(t2)
                        ok += 1
                    except Exception:  # noqa: BLE001
                        pass
                added += 1 if ok else 0
        stream = ("laws:" + name) if given is None else stream
        lt = {}
        gt = {}
        for (sa, a) in pool:
            for (sb, b) in pool:
                try:
                    lt[(sa, sb)] = bool(a < b)
                    gt[(sa, sb)] = bool(a > b)
                except Exception as e:  # noqa: BLE001
                    lt[(sa, sb)] = gt[(sa, sb)] = "raise:" + type(e).__name__
        texts = [s for s, _ in pool]
        region = None
        compat = None
        if name == "conan":
            # the domain of the conan theorem, decided by the model itself (`Conan.Compat`: numbers and words never
            # share a position), not by a reading of the text
            prs = [(a, b) for a in texts for b in texts]
            ans = common.run_model(["vcompat conan %s %s" % (common.hx(a), common.hx(b)) for a, b in prs]) if prs else []
            compat = {pr: x == "in" for pr, x in zip(prs, ans)}
        if name == "maven":
            ans = common.run_model(["vdomain maven %s" % common.hx(t) for t in texts])
            indom = {t: a == "in" for t, a in zip(texts, ans)}
        for a, b, c in itertools.product(texts, repeat=3):
            if not A.c01_in_domain(name, [a, b, c]):
                continue
            if compat is not None and not (compat[(a, b)] and compat[(b, c)] and compat[(a, c)]):
                continue
            ctx.count(stream, key=(a, b, c), nontrivial=len({a, b, c}) == 3)
            bad = None
            v = (lt[(a, b)], lt[(b, c)], lt[(a, c)], lt[(b, a)], lt[(c, b)], lt[(c, a)], gt[(a, b)])
            if any(isinstance(x, str) for x in v):
                bad = "a comparison raised"
            elif a == b == c and lt[(a, a)]:
                bad = "'<' is not irreflexive"
            elif lt[(a, b)] and lt[(b, a)]:
                bad = "'<' is not asymmetric"
            elif lt[(a, b)] and lt[(b, c)] and not lt[(a, c)]:
                bad = "'<' is not transitive"
            elif gt[(a, b)] != lt[(b, a)]:
                bad = "'>' is not the converse of '<'"
            elif (not lt[(a, b)] and not lt[(b, a)]) and (not lt[(b, c)] and not lt[(c, b)]) and (lt[(a, c)] or lt[(c, a)]):
                bad = "'neither less nor greater' is not transitive"
            if bad:
                reg = None
                if name == "maven" and not (indom[a] and indom[b] and indom[c]):
                    reg = "maven-outside-documented-shape"
                ctx.disagree(stream, "triple", bad, "-", True,
                             {"scheme": name, "a": a, "b": b, "c": c, "clause": bad}, region=reg, spec="strict weak order")
