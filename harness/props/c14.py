"""C14 — versions of unrelated schemes are never silently compared or matched."""
import operator

from harness import common, schemes as S

from univers import versions as V
from univers.version_constraint import VersionConstraint

MODULES = ["Univers.Props.C14", "Univers.Py.ClassPins"]
LEVEL = "proof"
RULE = ("exhaustive over the class matrix: every ordered pair of version classes of the library (regenerated table) x "
        "six operators x sampled valid versions of each class, the observed outcome (TypeError / False / True) against "
        "the Lean dispatch model's prediction; plus foreign versions tested against constraints and ranges of every "
        "scheme; non-trivial = the two classes are unrelated")
ASSUMPTIONS = ["CPython rich-comparison dispatch as modelled in Univers/Py/Dispatch.lean",
               "guard shapes are extracted from the AST by the translator; behaviour is tied by this correspondence"]

OPS = [("__lt__", operator.lt), ("__le__", operator.le), ("__gt__", operator.gt), ("__ge__", operator.ge),
       ("__eq__", operator.eq), ("__ne__", operator.ne)]


def _classes():
    out = {}
    def walk(c):
        for sub in c.__subclasses__():
            if sub.__module__.startswith("univers") and sub.__name__ not in out:
                out[sub.__name__] = sub
            walk(sub)
    walk(V.Version)
    # a class of the published library whose NAME now stands for another class (an alias): the schemes it serves are
    # as unrelated to the others as they were
    for n in _pinned_mro():
        c = getattr(V, n, None)
        if n not in out and isinstance(c, type):
            out[n] = c
    return out


def _pinned_mro():
    """class -> MRO names in the class table of the pinned tree (lean/Univers/Gen.expected/Classes.lean).  Which schemes
    are *unrelated* is a fact about the library as published, not about the tree under test: a change that makes one
    scheme's version class a subclass of another's does not make the two schemes related."""
    import re
    out = {}
    try:
        text = (common.VERIF / "lean" / "Univers" / "Gen.expected" / "Classes.lean").read_text()
    except OSError:
        return out
    for m in re.finditer(r'name := "(\w+)", mro := \[([^\]]*)\]', text):
        out[m.group(1)] = re.findall(r'"(\w+)"', m.group(2))
    return out


def _unrelated(pinned, classes, a, b):
    if a in pinned and b in pinned:
        return a not in pinned[b] and b not in pinned[a]
    return not issubclass(classes[a], classes[b]) and not issubclass(classes[b], classes[a])


def _samples(cls, rng, k=2):
    name = None
    for n, (vc, _) in S.SCHEMES.items():
        if vc is cls:
            name = n
            break
    outs = []
    tries = 0
    while len(outs) < k and tries < 50:
        tries += 1
        try:
            if name is not None:
                s, v = S.gen_valid(name, rng)
            else:
                s = rng.choice(["1.2.3", "1.0", "2.0.0", "3.1.4"])
                v = cls(s)
            outs.append((s, v))
        except Exception:  # noqa: BLE001
            continue
    return outs


def correspondence(ctx):
    classes = _classes()
    names = sorted(classes)
    pinned = _pinned_mro()
    rng = ctx.rng("c14")
    samples = {n: _samples(classes[n], rng, 3 if ctx.thorough else 2) for n in names}
    for n in names:
        # one text shared by every class that accepts it: identical spelling must not make unrelated versions equal
        for t in ("1.2.3", "1.0.1"):
            try:
                samples[n].append((t, classes[n](t)))
                break
            except Exception:  # noqa: BLE001
                continue
    lines = []
    for a in names:
        for b in names:
            for d, _ in OPS:
                lines.append("xcmp %s %s %s" % (a, b, d))
    answers = dict(zip(lines, common.run_model(lines)))
    ctx.exhaustive = True
    for a in names:
        for b in names:
            if a == b:
                continue
            for d, f in OPS:
                line = "xcmp %s %s %s" % (a, b, d)
                pred, rel = (answers[line].split(" ") + ["-", "-"])[:2]
                if rel != "unrelated" and _unrelated(pinned, classes, a, b):
                    rel, pred = "unrelated", "-"      # related only in the tree under test
                for sa, va in samples[a]:
                    for sb, vb in samples[b]:
                        try:
                            r = f(va, vb)
                            obs = "true" if r is True else ("false" if r is False else "other:%r" % (r,))
                        except TypeError:
                            obs = "TypeError"
                        except Exception as e:  # noqa: BLE001
                            obs = "raise:" + type(e).__name__
                        ctx.count("cross-compare", key=(a, b, d, sa, sb), nontrivial=rel == "unrelated",
                                  branch=pred, error=obs if obs not in ("true", "false") else None)
                        if rel == "unrelated":
                            want = "TypeError" if d in ("__lt__", "__le__", "__gt__", "__ge__") else \
                                ("false" if d == "__eq__" else "true")
                            if obs != want:
                                ctx.disagree("cross-compare", line, obs, pred, True,
                                             {"class_a": a, "a": sa, "class_b": b, "b": sb, "operator": d,
                                              "python": "from univers.versions import %s as A, %s as B; import operator; print(operator.%s(A(%r), B(%r)))"
                                                        % (a, b, d.strip("_"), sa, sb)}, spec=want)
                            elif pred != want:
                                ctx.disagree("cross-compare", line, obs, pred, False, {"class_a": a, "class_b": b}, spec=want)
                        elif pred != "depends" and pred != obs:
                            ctx.disagree("cross-compare", line, obs, pred, False, {"class_a": a, "class_b": b}, spec=None)
    ctx.sample({"line": "xcmp PypiVersion DebianVersion __lt__", "model": answers["xcmp PypiVersion DebianVersion __lt__"]})
    _converted_ranges_hold_their_own_class(ctx)
    # foreign versions against constraints and ranges of every scheme
    xl = []
    for name in S.ALL:
        vc = S.vclass(name).__name__
        for c in names:
            xl.append("xin %s %s" % (vc, c))
    xa = dict(zip(xl, common.run_model(xl)))
    from harness import layerb as B
    for name in S.ALL:
        vcls = S.vclass(name)
        rcls = S.rclass(name) or B._generic_range_for(vcls)
        own = _samples(vcls, rng, 3)
        if not own:
            continue
        own = sorted({t: v for t, v in own}.items(), key=lambda tv: _Key(tv[1]))
        con = VersionConstraint(comparator=">=", version=own[0][1])
        rng_obj = rcls(constraints=[con])
        star = VersionConstraint(comparator="*", version_class=vcls)
        star_range = rcls(constraints=[star])
        shapes = [("constraint", lambda v: v in con), ("range", lambda v: v in rng_obj), ("satisfies", lambda v: v.satisfies(con)),
                  ("star constraint", lambda v: v in star), ("star range", lambda v, r=star_range: v in r),
                  # the other public spellings of the same tests
                  ("constraint.contains()", lambda v: con.contains(v)), ("range.contains()", lambda v: rng_obj.contains(v)),
                  ("star constraint.contains()", lambda v: star.contains(v)), ("satisfies star", lambda v: v.satisfies(star)),
                  ("star range.contains()", lambda v, r=star_range: r.contains(v))]
        # the star constraint the library itself builds (parsing `vers:<scheme>/*`, the native match-all expressions)
        try:
            from univers.version_range import VersionRange as _VR
            if S.rclass(name) is not None:
                parsed_star = _VR.from_string("vers:%s/*" % rcls.scheme)
                pc = parsed_star.constraints[0]
                shapes += [("star constraint of the parsed star range", lambda v, pc=pc: v in pc),
                           ("satisfies(star constraint of the parsed star range)", lambda v, pc=pc: v.satisfies(pc)),
                           ("parsed star range", lambda v, r=parsed_star: v in r)]
            for native in ("*", "all"):
                try:
                    ns = rcls.from_native(native)
                except Exception:  # noqa: BLE001
                    continue
                if ns.constraints and ns.constraints[0].comparator == "*":
                    nc = ns.constraints[0]
                    shapes += [("star constraint of from_native(%r)" % native, lambda v, nc=nc: v in nc)]
        except Exception:  # noqa: BLE001
            pass
        if len(own) >= 2:
            a, b = own[0][1], own[-1][1]
            for label, cs in (("range =a|=b", [("=", a), ("=", b)]), ("range !=a|!=b", [("!=", a), ("!=", b)]),
                              ("range >=a|<b", [(">=", a), ("<", b)]), ("range <a|>b", [("<", a), (">", b)]),
                              ("range =a|>b", [("=", a), (">", b)])):
                try:
                    rr = rcls(constraints=[VersionConstraint(comparator=c, version=v) for c, v in cs])
                except Exception:  # noqa: BLE001
                    continue
                shapes.append((label, lambda v, rr=rr: v in rr))
                shapes.append((label + " .contains()", lambda v, rr=rr: rr.contains(v)))
                shapes.append((label + " satisfies(range)", lambda v, rr=rr: v.satisfies(rr)))
                shapes.append((label + " normalize([version object])", lambda v, rr=rr: rr.normalize([v])))
        # history: the scheme's own versions, in the spellings shared with other classes, are tested first, so that
        # anything remembered about (range, printed text) is there when the foreign version with that text arrives
        for t in ("1.2.3", "1.0.1"):
            try:
                w = vcls(t)
            except Exception:  # noqa: BLE001
                continue
            for _kind, fn in shapes:
                try:
                    fn(w)
                except Exception:  # noqa: BLE001
                    pass
        for c in names:
            pred = xa["xin %s %s" % (vcls.__name__, c)]
            for sc, vcv in samples[c][:1] + samples[c][-1:]:
                for kind, fn in shapes:
                    try:
                        r = fn(vcv)
                        obs = "answer"
                    except (TypeError, ValueError):
                        obs = "error"
                    except Exception as e:  # noqa: BLE001
                        obs = "raise:" + type(e).__name__     # still "an error instead of an answer"
                    unrelated = _unrelated(pinned, classes, c, vcls.__name__)
                    ctx.count("foreign-membership", key=(name, c, kind), nontrivial=unrelated, branch=pred)
                    if unrelated and obs == "answer":
                        ctx.disagree("foreign-membership", "xin %s %s (%s)" % (vcls.__name__, c, kind), "answers %r" % (r,), pred, True,
                                     {"scheme": name, "foreign_class": c, "version": sc, "kind": kind,
                                      "own_versions": [t for t, _ in own]}, spec="error")
                    elif pred != "depends" and obs != pred and kind in ("constraint", "range", "satisfies"):
                        ctx.disagree("foreign-membership", "xin %s %s (%s)" % (vcls.__name__, c, kind), obs, pred, False,
                                     {"scheme": name, "foreign_class": c, "kind": kind})


def _converted_ranges_hold_their_own_class(ctx):
    """whatever a converter builds for a scheme holds versions of that scheme's class (a version of another class inside
    a range is a silent comparison between schemes waiting to happen: `[1.0]` converted for nuget must hold NuGet
    versions)"""
    from harness.props.c05 import NATIVES
    from univers import version_range as VR
    stream = "converted-ranges"
    work = []
    for scheme, rc in sorted(VR.RANGE_CLASS_BY_SCHEMES.items()):
        exprs = NATIVES.get(rc.__name__, [])
        for e in exprs:
            work.append((scheme, rc, "from_native(%r)" % e, lambda rc=rc, e=e: rc.from_native(e)))
            work.append((scheme, rc, "from_natives([%r])" % e, lambda rc=rc, e=e: rc.from_natives([e])))
        if len(exprs) >= 2:
            work.append((scheme, rc, "from_natives(%r)" % exprs[:2], lambda rc=rc, exprs=exprs: rc.from_natives(exprs[:2])))
        work.append((scheme, rc, "from_string", lambda scheme=scheme: VR.VersionRange.from_string("vers:%s/>=1.0.0|<2.0.0" % scheme)))
        work.append((scheme, rc, "from_versions", lambda rc=rc: rc.from_versions(["1.0.0", "2.0.0"])))
        for other in (VR.NpmVersionRange, VR.DebianVersionRange, VR.PypiVersionRange, VR.MavenVersionRange):
            # the text of this scheme parsed through ANOTHER range class as the receiver of from_string
            work.append((scheme, rc, "from_string through %s" % other.__name__,
                         lambda scheme=scheme, other=other: other.from_string("vers:%s/>=1.0.0|<2.0.0" % scheme)))
        work.append((scheme, rc, "github", lambda scheme=scheme: VR.build_range_from_github_advisory_constraint(scheme, ">= 1.0.0, < 2.0.0")))
        work.append((scheme, rc, "snyk", lambda scheme=scheme: VR.build_range_from_snyk_advisory_string(scheme, ">=1.0.0, <2.0.0")))
        work.append((scheme, rc, "snyk brackets", lambda scheme=scheme: VR.build_range_from_snyk_advisory_string(scheme, "[1.0.0,2.0.0)")))
    for gl, purl in sorted(VR.PURL_TYPE_BY_GITLAB_SCHEME.items()):
        rc = VR.RANGE_CLASS_BY_SCHEMES.get(purl)
        if rc is None:
            continue
        for e in NATIVES.get(rc.__name__, [])[:3] + [">=1.0.0 <2.0.0", "1.0.0"]:
            work.append((purl, rc, "gitlab %s %r" % (gl, e), lambda gl=gl, e=e: VR.from_gitlab_native(gl, e)))
    for scheme, rc, label, f in work:
        try:
            r = f()
        except Exception:  # noqa: BLE001 — an expression this converter refuses: the business of C06 / C15 / C16
            continue
        if not isinstance(r, VR.VersionRange):
            continue
        ctx.count(stream, key=(scheme, label), nontrivial=True, branch=label.split("(")[0].split(" ")[0])
        vc = type(r).version_class
        bad = [c for c in r.constraints if c.version is not None and vc is not None and not isinstance(c.version, vc)]
        if bad or (rc is not None and not isinstance(r, rc) and not label.startswith("gitlab")):
            ctx.disagree(stream, "%s %s" % (scheme, label),
                         "a %s holding %s" % (type(r).__name__, sorted({type(c.version).__name__ for c in bad}) or type(r).__name__),
                         "versions of %s in a %s" % (getattr(vc, "__name__", vc), getattr(rc, "__name__", rc)), True,
                         {"scheme": scheme, "route": label, "range": str(r),
                          "clause": "the converted range holds versions of another class than its scheme's"}, spec="its own version class")


class _Key:
    """sort key through the real `<`"""

    def __init__(self, v):
        self.v = v

    def __lt__(self, other):
        return self.v < other.v
