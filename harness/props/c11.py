"""C11 — version text round-trips and the validity predicate matches the constructor."""
from harness import common, layera as A, schemes as S
from harness.known import replay_known  # noqa: F401

from univers import versions as V

MODULES = ["Univers.Props.C11", "Univers.Scheme.TablesThm"]
LEVEL = "proof"
# textual tie (regular expressions of /repo as the recognisers read them): runner step 3a
TIE_THEOREMS = {"Univers.Scheme.RegexPins": ["Univers.Tables.regex_sites_pinned", "Univers.Tables.compiled_patterns_pinned"]}
RULE = ("per version class: strings generated from the scheme's documented grammar (valid by construction), respellings "
        "(whitespace, leading v, zero padding …) and structure-aware mutations; the real constructor / str against the Lean "
        "model (`vparse`), and the property's own oracle on the real code: is_valid(normalize(s)) == constructor succeeds, a "
        "failed construction raises InvalidVersion, print-and-reconstruct gives an equal version with identical text, "
        "whitespace and a leading v do not matter; non-trivial = the string is valid; distinct = distinct (class, string)")
ASSUMPTIONS = ["version text is ASCII", "CPython int() limit of 4300 digits is outside the model"]

def k05_text(s):
    """K05, and only K05: an rpm text with an explicit ZERO epoch (which is not printed) in front of a text that reads
    differently without it (a leading v, which the constructor strips, or a colon, which then delimits an epoch)"""
    import re
    n = "".join(s.split()).lstrip("vV")
    m = re.match(r"^[+-]?0+:(.*)$", n)
    return bool(m and (m.group(1)[:1] in ("v", "V") or ":" in m.group(1)))


# regions of the recorded (open) findings: (scheme, predicate on the text) -> region name
def _region(name, s, what):
    n = "".join(s.split())
    if name == "rpm" and what in ("roundtrip",):
        return "rpm-str-roundtrip" if k05_text(s) else None
    if name == "deb" and what == "roundtrip" and n.count("-") >= 2:
        return "deb-str-roundtrip-hyphen"
    if name in ("legacy_openssl", "openssl") and what == "roundtrip":
        return "openssl-str-roundtrip-leading-zero"
    return None


def oracle(name, s):
    """the property's clauses on the real code for one string; returns (clause, detail) or None"""
    cls = S.vclass(name)
    try:
        norm = cls.normalize(s)
        valid = bool(cls.is_valid(norm))
        verr = None
    except Exception as e:  # noqa: BLE001
        valid, verr = None, type(e).__name__
    try:
        v = cls(s)
        built, berr = True, None
    except V.InvalidVersion:
        built, berr = False, "InvalidVersion"
    except RecursionError:
        return None
    except Exception as e:  # noqa: BLE001
        return ("construct", "constructing raises %s, not the invalid-version error" % type(e).__name__)
    if verr is not None:
        return ("validity", "the validity check raises %s" % verr)
    if valid != built:
        return ("validity", "validity check says %s but the constructor %s" % (valid, "succeeds" if built else "fails"))
    if not built:
        return None
    try:
        t = str(v)
        w = cls(t)
    except Exception as e:  # noqa: BLE001
        return ("roundtrip", "str() gives %r whose construction raises %s" % (locals().get("t"), type(e).__name__))
    try:
        if not (w == v) or str(w) != t:
            return ("roundtrip", "str() gives %r; reconstructed version is %s and prints %r" % (t, "equal" if w == v else "NOT equal", str(w)))
    except Exception as e:  # noqa: BLE001
        return ("roundtrip", "comparing the reconstructed version raises %s" % type(e).__name__)
    for deco in (" " + s + " ", "v" + s, s.replace(".", " . ", 1)):
        if name in ("rpm", "alpm", "generic", "deb", "maven", "conan", "gem", "ebuild", "alpine") and deco.startswith("v"):
            pass
        try:
            d = cls(deco)
            if not (d == v) or str(d) != t:
                return ("decoration", "%r gives a different version than %r" % (deco, s))
        except V.InvalidVersion:
            return ("decoration", "%r is rejected while %r is accepted" % (deco, s))
        except Exception as e:  # noqa: BLE001
            return ("decoration", "%r raises %s" % (deco, type(e).__name__))
    return None


def correspondence(ctx):
    n = 25000 if ctx.thorough else 1200
    for name in A.ALL:
        stream = "parse:" + name
        if not A.has_model(name):
            ctx.stream(stream)["skipped"] = "no Lean model for this scheme yet"
            continue
        stats, dis = A.corr(ctx, name, n)
        st = ctx.stream(stream)
        st["evaluations"] += stats["strings"]
        st["distinct_nontrivial"] += stats["parse_ok"]
        st["errors"] = {"invalid": stats["parse_invalid"], "raise": stats["parse_raise"]}
        ctx.evaluations += stats["strings"]
        for d in dis:
            if d["kind"] != "parse":
                continue
            o = oracle(name, d["a"])
            if o is None and d["impl"] == "invalid" and d["model"].startswith("ok") and d["a"] in A.SC.PURE.get(name, ()):
                o = ("grammar", "a string generated from the scheme's documented grammar (and accepted by the model of the "
                                "pinned tree) is rejected as invalid")
            rep = {"scheme": name, "text": d["a"],
                   "python": "from univers.versions import %s as V; v=V(%r); print(repr(str(v)), V(str(v))==v)" % (S.vclass(name).__name__, d["a"])}
            if o:
                rep["clause"] = o[1]
                ctx.disagree(stream, "vparse %s" % name, d["impl"], d["model"], True, rep, region=_region(name, d["a"], o[0]),
                             spec="valid iff constructible; InvalidVersion; round trip")
            else:
                ctx.disagree(stream, "vparse %s" % name, d["impl"], d["model"], False, rep)
    # the oracle on the real code over grammar-generated and decorated strings
    m = 6000 if ctx.thorough else 300
    for name in A.ALL:
        rng = ctx.rng("c11-oracle", name)
        stream = "oracle:" + name
        for s in A.SC.gen_strings(name, rng, m):
            o = oracle(name, s)
            ctx.count(stream, key=s, nontrivial=True)
            if o:
                ctx.disagree(stream, "oracle %s" % name, o[1], "-", True, {"scheme": name, "text": s, "clause": o[1]},
                             region=_region(name, s, o[0]), spec="valid iff constructible; InvalidVersion; round trip")
        if name == "pypi":
            ctx.sample({"scheme": name, "text": "1.0rc1", "oracle": "no violation" if oracle(name, "1.0rc1") is None else "violation"})
    _long_digit_runs(ctx)
    if ctx.thorough:
        search(ctx)


def _long_digit_runs(ctx):
    """grammar strings with one digit run made longer than CPython's int() text limit (4300 digits): whatever the
    scheme does with such a text, the validity check and the constructor agree and a refusal is InvalidVersion"""
    import re
    per = 40 if ctx.thorough else 8
    for name in A.ALL:
        rng = ctx.rng("c11-long", name)
        stream = "long-digit-runs:" + name
        for _ in range(per):
            try:
                s = S.GEN[name](rng)
            except Exception:  # noqa: BLE001
                continue
            runs = [m.span() for m in re.finditer(r"[0-9]+", s)]
            if not runs:
                continue
            i, j = rng.choice(runs)
            t = s[:i] + str(rng.randint(1, 9)) * rng.choice([4301, 4400]) + s[j:]
            o = oracle(name, t)
            ctx.count(stream, key=(s, i), nontrivial=True)
            if o and o[0] != "roundtrip":
                ctx.disagree(stream, "oracle %s" % name, o[1], "-", True,
                             {"scheme": name, "text_shape": s, "long_run_at": i, "clause": o[1] + " (a digit run of more than 4300 digits)",
                              "python": "from univers.versions import %s as V; s=%r; V(s[:%d] + '7'*4400 + s[%d:])" % (S.vclass(name).__name__, s, i, j)},
                             region=_region(name, t, o[0]), spec="valid iff constructible; InvalidVersion")


PUNCT = list(":;,!@#%&*()=[]{}<>/?\\|'\"` $^~_+-.") + list("0aZ")


def search(ctx):
    """a proof obligation or the correspondence broke without a failing input among the grammar / respelling /
    mutation streams: put grammar strings with characters from a wide alphabet inserted (what a changed validity
    pattern or character table may newly admit) to the property's oracle"""
    n = 4000
    for name in A.ALL:
        rng = ctx.rng("c11-search", name)
        stream = "search:" + name
        for _ in range(n):
            try:
                s = S.GEN[name](rng)
            except Exception:  # noqa: BLE001
                continue
            for _k in range(rng.choice([1, 1, 2, 3])):
                i = rng.randint(0, len(s))
                s = s[:i] + rng.choice(PUNCT) + s[i:]
            if rng.random() < 0.2:
                s = rng.choice(["0:", "1:", "v", "00:"]) + s
            o = oracle(name, s)
            ctx.count(stream, key=s, nontrivial=True)
            if o:
                ctx.disagree(stream, "oracle %s" % name, o[1], "-", True, {"scheme": name, "text": s, "clause": o[1]},
                             region=_region(name, s, o[0]), spec="valid iff constructible; InvalidVersion; round trip")
                if ctx.rep.violations:
                    break
        if ctx.rep.violations:
            return
