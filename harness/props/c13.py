"""C13 — canonical vers form is independent of presentation and of the hash seed."""
import hashlib
import os
import subprocess
import sys

from harness import common, layerb as B, schemes as S, textcommon as T

from univers.version_constraint import VersionConstraint
from univers.version_range import VersionRange

MODULES = ["Univers.Props.C13", "Univers.Props.Schemes"]
LEVEL = "proof"
# function-level tie for the text layer (translator + agreement theorems): see runner step 3a
TIE_THEOREMS = {"Univers.Text.GenTextThm": ["Univers.Gen.Text.py_remove_spaces_eq", "Univers.Gen.Text.vc_split_eq", "Univers.Gen.Text.vc_from_string_eq", "Univers.Gen.Text.vc_str_eq", "Univers.Gen.Text.vc_to_dict_eq"], "Univers.Text.GenRangeTextThm": ["Univers.Gen.Text.vr_from_string_eq", "Univers.Gen.Text.fromStringFull_plain"],
                "Univers.Text.GenRangeStrThm": ["Univers.Gen.Text.vr_str_eq", "Univers.Gen.Text.vr_to_dict_eq"],
                "Univers.Text.GenVersExact": ["Univers.Gen.Text.py_from_string_exact", "Univers.Gen.Text.py_from_string_presentation_independent"]}
RULE = ("(1) vers text layer of the real code against the Lean model (decorated spellings included); (2) per scheme, seeded "
        "well-formed ranges: permutations of the constraint list and of the text, whitespace insertion, letter case of 'vers:' "
        "and of the scheme, stray leading/trailing '|', explicit '=' — all variants must give equal ranges with byte-identical "
        "canonical text; (3) one workload run in sub-processes under several PYTHONHASHSEED values, outputs compared byte for "
        "byte; non-trivial = two or more constraints")
ASSUMPTIONS = ["well-formed ranges", "the hash seed is modelled as an arbitrary permutation of the set built inside simplify"]


def _variants(rng, scheme, items):
    """decorated spellings of one range text; items = list of 'cmp+version' strings in any order"""
    outs = []
    for _ in range(6):
        its = list(items)
        rng.shuffle(its)
        its = [("=" + i if (i[0] not in "<>=!*" and rng.random() < 0.4) else i) for i in its]
        body = "|".join(its)
        body = "|" * rng.choice([0, 0, 1, 2]) + body + "|" * rng.choice([0, 0, 1, 2])
        head = rng.choice(["vers", "VERS", "Vers", "vErS"]) + ":" + "".join(rng.choice([c.lower(), c.upper()]) for c in scheme) + "/"
        t = head + body
        t = "".join((c + (" " * rng.choice([0, 0, 0, 1, 2]))) for c in t)
        if rng.random() < 0.3:
            t = rng.choice([" ", "\t", "\n"]) + t + rng.choice([" ", "\t"])
        if rng.random() < 0.25:
            # every character str.split() treats as whitespace is insignificant: CR (a CRLF line end), FF, VT,
            # the information separators, NBSP and other Unicode spaces
            ws = rng.choice(["\r", "\r\n", "\f", "\v", "\x1c", "\x1f", "\u00a0", "\u2003", "\u3000", "\u2028"])
            i = rng.randint(0, len(t))
            t = t[:i] + ws + t[i:]
        outs.append(t)
    return outs


def correspondence(ctx):
    n = 40000 if ctx.thorough else 2000
    T.run_corr(ctx, "corr_textvers", "vers-text", n)
    per = 1200 if ctx.thorough else 60
    for name in S.ALL:
        rcls = S.rclass(name)
        if rcls is None or rcls.scheme not in __import__("univers.version_range", fromlist=["x"]).RANGE_CLASS_BY_SCHEMES:
            continue
        rng = ctx.rng("c13", name)
        bench = B.Bench(name, rng, size=14)
        B.probe_unrankable(ctx, "C13", bench)
        stream = "presentation:" + name
        if not bench.ok(9):
            ctx.stream(stream)["skipped"] = "pool too small"
            continue
        jobs = []
        lines = []
        for _ in range(per * 3):
            k = rng.choice([1, 2, 2, 3, 4, 5])
            ranks = sorted(rng.sample(range(9), k))
            cons = [(rng.choice(B.CMPRS), r) for r in ranks]
            jobs.append(cons)
            lines.append("validate %s" % B.cons_line(cons))
        answers = common.run_model(lines)
        done = 0
        for cons, ans in zip(jobs, answers):
            if not ans.endswith("true") or done >= per:
                continue
            m = bench.mapping(9, rng)
            objs = B.real_cons(bench, cons, m)
            texts = [(B.TXT[c] if c != "eq" else "") + m[r][0] for c, r in cons]
            if any((not t.isascii()) or any(ch in t for ch in "|\\'\" \t\n") or not m[r][0] or m[r][0][0] in "<>=!*vV" for t, (c, r) in zip(texts, cons)):
                continue
            done += 1
            try:
                base = rcls(constraints=objs)
                canon = str(base)
            except Exception:  # noqa: BLE001
                continue
            ctx.count(stream, key=canon, nontrivial=len(cons) >= 2)
            bad = None
            try:
                canon_s = str(VersionRange.from_string(canon, simplify=True, validate=True))
            except Exception as e:  # noqa: BLE001
                bad = (canon, "parsing the canonical text with simplify and validate raises %s: %s" % (type(e).__name__, e))
            for t in ([] if bad else _variants(rng, rcls.scheme, texts)):
                try:
                    r = VersionRange.from_string(t)
                    if str(r) != canon or not (r == base):
                        bad = (t, "canonical text %r differs from %r" % (str(r), canon))
                        break
                    r2 = VersionRange.from_string(t, simplify=True, validate=True)
                    if str(r2) != canon_s:
                        bad = (t, "parsed with simplify and validate: %r differs from %r (what the canonical spelling gives)" % (str(r2), canon_s))
                        break
                    # the same text through the range class itself as the receiver of from_string
                    r3 = rcls.from_string(t)
                    if str(r3) != canon or not (r3 == base):
                        bad = (t, "%s.from_string gives %r, VersionRange.from_string %r" % (rcls.__name__, str(r3), canon))
                        break
                except Exception as e:  # noqa: BLE001
                    bad = (t, "raises %s: %s" % (type(e).__name__, e))
                    break
            if bad is None:
                # the same collection with insignificant blanks inside the version texts the versions were built from
                try:
                    vc = S.vclass(name)
                    spaced = []
                    for o in objs:
                        t = o.version.string if o.version is not None else None
                        if t is None:
                            spaced.append(o)
                            continue
                        i = rng.randint(1, len(t)) if len(t) > 1 else 1
                        t2 = " " + t[:i] + rng.choice([" ", "  ", "\t"]) + t[i:] + " "
                        spaced.append(VersionConstraint(comparator=o.comparator, version=vc(t2)))
                    r = rcls(constraints=spaced)
                    if str(r) != canon or not (r == base):
                        bad = (" | ".join(repr(c.version.string) for c in spaced if c.version is not None),
                               "built from versions whose text has blanks inside: %r differs from %r" % (str(r), canon))
                except Exception as e:  # noqa: BLE001
                    bad = ("(versions with blanks inside their text)", "raises %s: %s" % (type(e).__name__, e))
            if bad is None:
                for _ in range(3):
                    p = list(objs)
                    rng.shuffle(p)
                    # "two constraint collections": a list or a tuple
                    r = rcls(constraints=rng.choice([list, tuple])(p))
                    if str(r) != canon or not (r == base) or hash(r) != hash(base) or r.to_dict() != base.to_dict():
                        bad = (" ".join(map(str, p)), "rebuilt from a permutation: %r differs from %r" % (str(r), canon))
                        break
            if bad:
                ctx.disagree(stream, canon, bad[1], canon, True,
                             {"scheme": name, "variant": bad[0], "canonical": canon, "clause": bad[1],
                              "python": "from univers.version_range import VersionRange as R; print(str(R.from_string(%r)))" % bad[0]},
                             spec="identical canonical text")
        # one version written twice, in two spellings: the two orders of the text (and of the collection) give equal
        # ranges with the same text, also with simplify (which keeps one of the two: always the same one)
        # (a pool of its own, which keeps spellings whose hashes differ: hashing is not what this property speaks about)
        tpool = B.Bench(name, ctx.rng("c13-twins", name), size=14, need_hash=False, respell=0.6).pool
        twins = []
        for cl in bench.pool.classes + tpool.classes:
            if len(cl) >= 2:
                twins.append((cl, cl[0], cl[1]))
        caseonly = []
        for cl in tpool.classes + bench.pool.classes:
            # two spellings that differ in the case of a letter only (schemes that fold case when they compare print the
            # text as given: nothing that breaks a tie may fold it too)
            for i, e1 in enumerate(cl):
                for e2 in cl[i + 1:]:
                    if e1[0] != e2[0] and e1[0].lower() == e2[0].lower():
                        caseonly.append((cl, e1, e2))
        for cl, (ta, va), (tb, vb) in caseonly[:6] + twins[:12]:
            if any((not t.isascii()) or any(ch in t for ch in "|\\'\" \t\n") or t[0] in "<>=!*vV" for t in (ta, tb)):
                continue
            other = bench.pool.classes[0][0] if bench.pool.classes[0] is not cl else bench.pool.classes[-1][0]
            for cmp_ in ("", ">=", "!="):
                t1 = "vers:%s/%s%s|%s%s" % (rcls.scheme, cmp_, ta, cmp_, tb)
                t2 = "vers:%s/%s%s|%s%s" % (rcls.scheme, cmp_, tb, cmp_, ta)
                ctx.count(stream + ":twins", key=t1, nontrivial=True)
                why = None
                try:
                    for kw in ({}, {"simplify": True}):
                        r1, r2 = VersionRange.from_string(t1, **kw), VersionRange.from_string(t2, **kw)
                        if str(r1) != str(r2) or not (r1 == r2):
                            why = "%r and %r (flags %r) give %r and %r" % (t1, t2, kw, str(r1), str(r2))
                            break
                    if why is None:
                        c1 = [VersionConstraint(comparator=cmp_ or "=", version=va), VersionConstraint(comparator=cmp_ or "=", version=vb)]
                        q1, q2 = rcls(constraints=c1), rcls(constraints=tuple(reversed(c1)))
                        if str(q1) != str(q2) or not (q1 == q2) or hash(q1) != hash(q2):
                            why = "the collection in its two orders prints %r and %r" % (str(q1), str(q2))
                except Exception:  # noqa: BLE001 — a text the parser refuses in both orders is not this clause's business
                    continue
                if why:
                    ctx.disagree(stream + ":twins", t1, why, "identical canonical text", True,
                                 {"scheme": name, "texts": [t1, t2], "clause": "one version in two spellings: the order of the constraints changes the canonical text: " + why,
                                  "python": "from univers.version_range import VersionRange as R; print(str(R.from_string(%r)), str(R.from_string(%r)))" % (t1, t2)},
                                 spec="identical canonical text")
                    break
        # the match-all range
        canon = "vers:%s/*" % rcls.scheme
        ctx.count(stream, key=canon, nontrivial=False)
        for t in _variants(rng, rcls.scheme, ["*"]):
            try:
                r = VersionRange.from_string(t)
                out = None if str(r) == canon else "canonical text %r differs from %r" % (str(r), canon)
            except Exception as e:  # noqa: BLE001
                out = "raises %s: %s" % (type(e).__name__, e)
            if out:
                ctx.disagree(stream, canon, out, canon, True, {"scheme": name, "variant": t, "canonical": canon, "clause": out,
                             "python": "from univers.version_range import VersionRange as R; print(str(R.from_string(%r)))" % t},
                             spec="identical canonical text")
                break
    _scheme_spellings(ctx)
    _hash_seeds(ctx)


def _scheme_spellings(ctx):
    """every scheme NAME the parser accepts in lower case (the registered names, and whatever table of aliases the module
    may hold: the keys of its module-level str -> str dicts) is accepted in any letter case, with the same result"""
    from univers import version_range as VR
    names = set(VR.RANGE_CLASS_BY_SCHEMES)
    for _n, obj in vars(VR).items():
        if isinstance(obj, dict) and obj and all(isinstance(k, str) and isinstance(v, str) for k, v in obj.items()):
            names.update(k for k in obj if k.isascii() and k.replace("-", "").replace("_", "").isalnum())
            names.update(v for v in obj.values() if v.isascii() and v.replace("-", "").replace("_", "").isalnum())
    for name in sorted(names):
        for body in ("1.0.0", ">=1.0.0|<2.0.0"):
            low = "vers:%s/%s" % (name.lower(), body)
            try:
                want = VersionRange.from_string(low)
            except Exception:  # noqa: BLE001 — not a name the parser knows, or not a version of that scheme
                continue
            ctx.count("scheme-spellings", key=low, nontrivial=True)
            for variant in ("vers:%s/%s" % (name.upper(), body), "VERS:%s/%s" % (name.capitalize(), body),
                            "Vers:%s/%s" % (name.swapcase(), body)):
                try:
                    got = VersionRange.from_string(variant)
                    why = None if (got == want and str(got) == str(want)) else "%r parses to %s, %r to %s" % (variant, got, low, want)
                except Exception as e:  # noqa: BLE001
                    why = "%r raises %s: %s, %r parses" % (variant, type(e).__name__, e, low)
                if why:
                    ctx.disagree("scheme-spellings", low, why, str(want), True,
                                 {"scheme_name": name, "variant": variant, "canonical": low, "clause": why}, spec="identical canonical text")
                    break
            break


def _hash_seeds(ctx):
    seeds = [0, 1, 2, 3] if not ctx.thorough else list(range(32))
    n = 60 if ctx.thorough else 15
    outs = {}
    for hs in seeds:
        env = dict(os.environ, PYTHONHASHSEED=str(hs), PYTHONPATH=str(common.SRC))
        p = subprocess.run([sys.executable, str(common.VERIF / "harness" / "seed_workload.py"), str(ctx.seed), str(n)],
                           stdout=subprocess.PIPE, stderr=subprocess.PIPE, text=True, env=env, timeout=900)
        if p.returncode != 0:
            raise common.Tooling("hash-seed workload failed: " + p.stderr[-800:])
        outs[hs] = p.stdout
    st = ctx.stream("hash-seed")
    base = outs[seeds[0]]
    lines0 = base.splitlines()
    st["evaluations"] += len(lines0) * len(seeds)
    st["distinct_nontrivial"] += len(lines0)
    st["seeds"] = seeds
    ctx.evaluations += len(lines0) * len(seeds)
    for hs in seeds[1:]:
        if outs[hs] != base:
            l1 = outs[hs].splitlines()
            diff = next(((a, b) for a, b in zip(lines0, l1) if a != b), (None, None))
            ctx.disagree("hash-seed", "PYTHONHASHSEED=%d vs %d" % (seeds[0], hs), str(diff[1]), str(diff[0]), True,
                         {"seeds": [seeds[0], hs], "line_seed_a": diff[0], "line_seed_b": diff[1],
                          "clause": "canonical text depends on the hash seed"}, spec="same text for every seed")
    if lines0:
        ctx.sample({"hash-seed workload line": lines0[0]})
