"""C08 — simplification keeps the meaning, only removes, reaches a valid fixed point."""
from harness import common, layerb as B, schemes as S

from univers.version_constraint import VersionConstraint

MODULES = ["Univers.Props.C08", "Univers.Props.Schemes"]
LEVEL = "proof"
# function-level tie (translator + agreement theorems): see runner step 3a
TIE_THEOREMS = {"Univers.Vers.GenLayerBExact": ["Univers.Gen.LayerB.py_simplify_spec"],
                "Univers.Vers.GenSimplifyThm": ["Univers.Gen.LayerB.deduplicate_eq", "Univers.Gen.LayerB.simplify_constraints_eq", "Univers.Gen.LayerB.con_simplify_eq"]}
RULE = ("bounded-exhaustive: every comparator sequence up to length L on version-sorted distinct versions (well-formed "
        "or not), plus variants with exact duplicates, on real versions of every hashable scheme; the real "
        "VersionConstraint.simplify is compared with the Lean model, and whenever they differ the four clauses of the "
        "property (meaning via the spec denoteR at every probe, sub-list, accepted by validation, fixed point) are "
        "evaluated on the real output; non-trivial = two or more constraints")
ASSUMPTIONS = ["lawful operators and hash agreeing with == per scheme (C02, C12)"]


def is_sublist(a, b):
    it = iter(b)
    return all(any(x == y for y in it) for x in a)


def correspondence(ctx):
    # history-sensitive stream first (a fresh process), and once more after the sweep
    _cross_scheme(ctx)
    L = 6 if ctx.thorough else (5 if ctx.deepen else 4)
    rng0 = ctx.rng("c08-lines")
    jobs = []
    for n in range(0, L + 1):
        for p in B.all_patterns(n):
            cons = B.sorted_cons(p)
            jobs.append(cons)
            if n >= 1 and (rng0.random() < 0.25 or set(p) == {"ne"}):
                # an exact duplicate, next to the original or further on
                d = list(cons)
                i = rng0.randrange(n)
                d.insert(rng0.choice([i, rng0.randrange(n + 1)]), d[i])
                jobs.append(d)
            if n >= 1 and set(p) <= {"ne", "eq"} and len(set(p)) <= 2:
                for i in range(n):
                    d = list(cons)
                    d.append(d[i])
                    jobs.append(d)
    lines = ["simplify %s id" % B.cons_line(c) for c in jobs]
    lines_rev = ["simplify %s rev" % B.cons_line(c) for c in jobs]
    answers = common.run_model(lines)
    answers_rev = common.run_model(lines_rev)
    for l, a, b in zip(lines, answers, answers_rev):
        ctx.count("model-seed-independence", key=l, nontrivial=True)
        if a != b:
            ctx.disagree("model-seed-independence", l, a, b, False)
    ctx.exhaustive = True
    for name in S.ALL:
        rng = ctx.rng("c08", name)
        bench = B.Bench(name, rng, size=2 * L + 6, respell=0.6)
        B.probe_unrankable(ctx, "C08", bench)
        stream = "simplify:" + name
        if not bench.ok(2 * L + 2):
            ctx.stream(stream)["skipped"] = "pool too small"
            continue
        if not bench.pool.hashable:
            ctx.stream(stream)["skipped"] = "versions of this scheme are unhashable (reported by C12)"
            continue
        m = None
        suspects = []
        for k, (cons, line, ans) in enumerate(zip(jobs, lines, answers)):
            if k % 40 == 0:
                m = bench.mapping(2 * L + 2, rng)
            objs = B.real_cons(bench, cons, m)
            inv_of = B.Inv(m)
            try:
                out = VersionConstraint.simplify(list(objs))
                impl_c = B.canon_cons(out, inv_of)
                impl = "ok:" + B.cons_line(impl_c)
            except Exception as e:  # noqa: BLE001
                impl = "err:" + B.exc_name(e)
                impl_c = None
            rks = [r for c, r in cons if c != "star"]
            if impl_c is not None and rks == sorted(rks) and not any(c == "star" for c, _ in cons):
                # "returns a list that validation accepts" (of a version-sorted input): the REAL validation, on the real result
                acc = B.res_bool(lambda: VersionConstraint.validate(list(out)))
                if acc != "ok:true" and not (name == "maven"):
                    d = B.describe(bench, cons, m)
                    d.update({"result": [str(c) for c in out], "clause": "validate() refuses the simplified list: %s" % acc})
                    ctx.disagree(stream, line, "validate(simplify(..)) = " + acc, "ok:true", True, d, spec="accepted by validation")
            ctx.count(stream, key=line, nontrivial=len(cons) >= 2,
                      branch="changed" if impl != "ok:" + B.cons_line(cons) else "unchanged",
                      error=impl[4:] if impl.startswith("err:") else None)
            if impl != ans:
                suspects.append((cons, line, impl, impl_c, ans, m))
            ranks = [r for c, r in cons if c != "star"]
            if len(set(ranks)) < len(ranks):
                # the repeated version written in another spelling of the same version
                objs2 = B.real_cons(bench, cons, m, respell=rng)
                if any(a is not b and a.version is not b.version for a, b in zip(objs, objs2)):
                    try:
                        impl2_c = B.canon_cons(VersionConstraint.simplify(list(objs2)), inv_of)
                        impl2 = "ok:" + B.cons_line(impl2_c)
                    except Exception as e:  # noqa: BLE001
                        impl2, impl2_c = "err:" + B.exc_name(e), None
                    ctx.count(stream + ":respelled", key=line, nontrivial=True)
                    if impl2 != ans:
                        suspects.append((cons, line + " (a repeated version in another spelling)", impl2, impl2_c, ans, m))
            if k % 3 == 0 and len(cons) >= 2:
                _through_from_string(ctx, name, bench, cons, objs, ans, line, m, inv_of, rng)
        _judge(ctx, stream, bench, suspects)
        if name == "semver":
            ctx.sample({"line": lines[100], "model": answers[100], "scheme": name})
    _cross_scheme(ctx, "c08-cross-after")


def _through_from_string(ctx, name, bench, cons, objs, ans, line, m, inv_of, rng):
    """`VersionRange.from_string(text, simplify=True)` with the constraints written in any order gives what
    `simplify` gives on the version-sorted list"""
    from univers.version_range import VersionRange
    if S.rclass(name) is None:
        return
    stream = "from_string:" + name
    sh = list(objs)
    rng.shuffle(sh)
    try:
        text = "vers:%s/%s" % (S.rclass(name).scheme, "|".join(str(o) for o in sh))
        plain = VersionRange.from_string(text)
        if list(plain.constraints) != sorted(objs):
            raise ValueError("the text does not say the same constraints")
    except Exception:  # noqa: BLE001
        ctx.count(stream, key=line, nontrivial=False, branch="text not usable")
        return
    try:
        out = VersionRange.from_string(text, simplify=True)
        want = VersionConstraint.simplify(sorted(objs))
        impl = [str(c) for c in out.constraints]
        exp = [str(c) for c in sorted(want)]
    except Exception as e:  # noqa: BLE001
        impl, exp = "err:" + B.exc_name(e), ans
        if ans.startswith("err:"):
            return
    ctx.count(stream, key=line, nontrivial=True)
    if impl != exp:
        d = B.describe(bench, cons, m, objs=objs)
        d.update({"text": text, "clause": "from_string(simplify=True) gives %s, simplify() on the version-sorted list %s" % (impl, exp),
                  "python": "from univers.version_range import VersionRange as R; print(R.from_string(%r, simplify=True))" % text})
        ctx.disagree(stream, line, str(impl), str(exp), True, d, spec=str(exp))


def _judge(ctx, stream, bench, suspects):
    """impl differs from the model (which provably satisfies the four clauses): evaluate the
    clauses on what the implementation returned"""
    if not suspects:
        return
    q = []
    for cons, line, impl, impl_c, ans, m in suspects:
        if impl_c is None:
            continue
        n = len(cons)
        for x in range(1, 2 * n + 2):
            q.append("denote %s %d" % (B.cons_line(cons), x))
            q.append("denote %s %d" % (B.cons_line(impl_c), x))
        q.append("validate %s" % B.cons_line(impl_c))
    a = common.run_model(q)
    pos = 0
    for cons, line, impl, impl_c, ans, m in suspects:
        d = B.describe(bench, cons, m)
        if impl_c is None:
            d["clause"] = "raises"
            ctx.disagree(stream, line, impl, ans, True, d, spec="no error")
            continue
        n = len(cons)
        failed = None
        for x in range(1, 2 * n + 2):
            before = a[pos].split(" ")[1]
            after = a[pos + 1].split(" ")[1]
            pos += 2
            if before != after and failed is None:
                failed = "meaning changes at probe rank %d (%s): in before=%s after=%s" % (x, m[x][0], before, after)
        val = a[pos]
        pos += 1
        if failed is None and not is_sublist(impl_c, cons):
            failed = "result is not a sub-list of the input"
        if failed is None and not val.startswith("ok:true"):
            failed = "result is not accepted by validation"
        if failed is None:
            # fixed point on the real code
            objs = B.real_cons(bench, impl_c, m)
            inv_of = B.Inv(m)
            try:
                again = B.canon_cons(VersionConstraint.simplify(list(objs)), inv_of)
                if again != impl_c:
                    failed = "simplifying the result again changes it: %s" % B.cons_line(again)
            except Exception as e:  # noqa: BLE001
                failed = "simplifying the result again raises %s" % B.exc_name(e)
        if failed is not None:
            d["clause"] = failed
            d["result"] = [B.TXT[c] + ("" if c == "star" else m[r][0]) for c, r in impl_c]
            ctx.disagree(stream, line, impl, ans, True, d, spec=ans)
        else:
            ctx.disagree(stream, line, impl, ans, False, d, spec=ans)


def _cross_scheme(ctx, label="c08-cross"):
    """the same constraint texts simplified under several schemes, interleaved in one process: whatever is
    remembered about a list under one scheme must not leak into the next (the order of 1.0.0-alpha and 1.0.0
    differs between deb and semver, and the versions belong to different classes)"""
    from harness import pools
    from harness.props.c07 import SHARED_TEXTS
    rng = ctx.rng(label)
    tables = {}
    for name in S.ALL:
        p = pools.Pool(name)
        objs = {}
        for t in SHARED_TEXTS:
            try:
                v = S.make(name, t)
            except Exception:  # noqa: BLE001
                continue
            if p.insert(t, v):
                objs[t] = v
        if not p.hashable:
            continue
        rk = {}
        for i, cl in enumerate(p.classes):
            for t, _v in cl:
                if t in objs:
                    rk[t] = i
        if len(rk) >= 3:
            tables[name] = (rk, objs)
    work = []
    for _ in range(300 if ctx.thorough else 120):
        n = rng.choice([2, 3, 3, 4])
        texts = rng.sample(SHARED_TEXTS, n)
        cmps = [rng.choice(B.CMPRS) for _ in range(n)]
        names = [nm for nm in tables if all(t in tables[nm][0] for t in texts)]
        rng.shuffle(names)
        for nm in names:
            rk = tables[nm][0]
            order = sorted(zip(cmps, texts), key=lambda ct: rk[ct[1]])
            if len({rk[t] for _, t in order}) != n:
                continue        # two of the texts are the same version in this scheme
            work.append((nm, order))
    lines = ["simplify %s id" % B.cons_line([(c, 2 * (i + 1)) for i, (c, _t) in enumerate(order)]) for _nm, order in work]
    answers = common.run_model(lines) if lines else []
    for (nm, order), line, ans in zip(work, lines, answers):
        stream = "cross-scheme:" + nm
        rk, objs = tables[nm]
        n = len(order)
        m = [("(between)", None)] * (2 * n + 2)
        for i, (_c, t) in enumerate(order):
            m[2 * (i + 1)] = (t, objs[t])
        cons = [(c, 2 * (i + 1)) for i, (c, _t) in enumerate(order)]
        arg = [VersionConstraint(comparator=B.TXT[c], version=objs[t]) for c, t in order]
        inv = B.Inv([e if e[1] is not None else ("", object()) for e in m])
        try:
            out = VersionConstraint.simplify(list(arg))
            impl_c = B.canon_cons(out, inv)
            impl = "ok:" + B.cons_line(impl_c)
        except B.ForeignVersion as e:
            impl, impl_c = "foreign", None
            why = str(e)
        except Exception as e:  # noqa: BLE001
            impl, impl_c = "err:" + B.exc_name(e), None
            why = "raises " + B.exc_name(e)
        ctx.count(stream, key=line + "|" + ",".join(t for _, t in order), nontrivial=True)
        if impl == ans:
            continue
        d = {"scheme": nm, "constraints": [B.TXT[c] + t for c, t in order],
             "history": "the same texts were simplified under other schemes earlier in this process"}
        if impl_c is None:
            d["clause"] = why
            ctx.disagree(stream, line, impl, ans, True, d, spec=ans)
        elif not is_sublist(impl_c, cons):
            d["clause"] = "result is not a sub-list of the input"
            d["result"] = [B.TXT[c] + m[r][0] for c, r in impl_c]
            ctx.disagree(stream, line, impl, ans, True, d, spec=ans)
        else:
            ctx.disagree(stream, line, impl, ans, False, d, spec=ans)
