"""C12 — versions, constraints, ranges: hashable, hash agrees with ==, never mutated."""
import copy

import attr

from harness import common, layera as A, layerb as B, schemes as S
from harness.known import replay_known  # noqa: F401

from univers.version_constraint import VersionConstraint
from univers import version_range as VR

MODULES = ["Univers.Props.C12", "Univers.Py.ClassPins"]
LEVEL = "proof"
RULE = ("per scheme: equal-but-differently-spelled pairs (zero padding, omitted zero epoch or revision, qualifier aliases, "
        "differing build metadata …) from the respelling stream — hash equality of the real objects against equality of the "
        "Lean model's hash keys; every ordered pair of a pool put to the oracle (== implies equal hash, one element in a set); "
        "constraints and ranges built from them; attribute assignment; before/after snapshots (repr, str, hash, list contents) "
        "of the arguments of every public operation; non-trivial = the two objects compare equal")
ASSUMPTIONS = ["hash() is modelled by a key: equal keys give equal hashes",
               "mutation through a retained alias is invisible to the value-semantics model: snapshots only (partial)"]


def _region(name):
    return "maven-hash-of-text" if name == "maven" else None


def correspondence(ctx):
    n = 25000 if ctx.thorough else 1200
    for name in A.ALL:
        stream = "hash:" + name
        if not A.has_model(name):
            ctx.stream(stream)["skipped"] = "no Lean model for this scheme yet"
            continue
        stats, dis = A.corr(ctx, name, n)
        st = ctx.stream(stream)
        st["evaluations"] += stats["pairs"]
        st["distinct_nontrivial"] += stats["cmp_eq"]
        ctx.evaluations += stats["pairs"]
        for d in dis:
            if d["kind"] != "cmp":
                continue
            bi, bm = A.bits_of(d["impl"]), A.bits_of(d["model"])
            if not (bi and bm) or bi[2] == bm[2] or (bm[2] == "0" and bi[2] == "1"):
                continue        # only the hash field is this property's business
            rep = {"scheme": name, "a": d["a"], "b": d["b"]}
            eq = bi[1][0] == "1"
            if bi[2] == "x" or (eq and bi[2] == "0"):
                rep["clause"] = "unhashable" if bi[2] == "x" else "equal objects with different hashes"
                ctx.disagree(stream, "vcmp %s" % name, d["impl"], d["model"], True, rep, region=_region(name), spec="== implies equal hash")
            else:
                ctx.disagree(stream, "vcmp %s" % name, d["impl"], d["model"], False, rep)
    psize = 80 if ctx.thorough else 36
    for name in A.ALL:
        rng = ctx.rng("c12-pool", name)
        pool = A.valid_pool(name, rng, psize)
        stream = "oracle:" + name
        for sa, a in pool:
            try:
                hash(a)
            except TypeError:
                ctx.disagree(stream, "hash", "TypeError", "-", True, {"scheme": name, "a": sa, "clause": "unhashable"}, spec="hashable")
                break
        for (sa, a) in pool:
            for (sb, b) in pool:
                ctx.count(stream, key=(sa, sb), nontrivial=False)
                try:
                    if a == b:
                        ctx.stream(stream)["distinct_nontrivial"] += 1
                        ok = hash(a) == hash(b) and len({a, b}) == 1 and (a in {b})
                        ca = VersionConstraint(comparator=">=", version=a)
                        cb = VersionConstraint(comparator=">=", version=b)
                        ok = ok and ca == cb and hash(ca) == hash(cb)
                        if not ok:
                            ctx.disagree(stream, "pair", "equal but hash/set differ", "-", True,
                                         {"scheme": name, "a": sa, "b": sb, "clause": "== without equal hash"},
                                         region=_region(name), spec="== implies equal hash")
                except TypeError:
                    pass
        _immutability(ctx, name, pool, rng)
        _non_ascii_digits(ctx, name, pool, rng)
        _long_digit_runs(ctx, name, pool, rng)
    _pickle_across_processes(ctx)
    _ranges_are_values(ctx)


def _ranges_are_values(ctx):
    """a range is hashable and holds its constraints in a tuple of its own, whatever collection it was built from: the
    star range too (the one shape whose constraints are not sorted), and a list the caller goes on editing"""
    from univers import version_range as VR
    from univers.version_range import VersionRange
    for scheme, rc in sorted(VR.RANGE_CLASS_BY_SCHEMES.items()):
        if rc.version_class is None:
            continue
        star = VersionConstraint(comparator="*", version_class=rc.version_class)
        shapes = [("from_string('vers:%s/*')" % scheme, lambda: VersionRange.from_string("vers:%s/*" % scheme), None)]
        cs_star = [star]
        shapes.append(("%s(constraints=[*])" % rc.__name__, lambda: rc(constraints=cs_star), cs_star))
        try:
            vs = [rc.version_class(t) for t in ("1.0.0", "2.0.0")]
        except Exception:  # noqa: BLE001
            try:
                vs = [rc.version_class(t) for t in ("1.0", "2.0")]
            except Exception:  # noqa: BLE001
                vs = []
        if vs:
            cs_one = [VersionConstraint(comparator=">=", version=vs[0])]
            shapes.append(("%s(constraints=[>=a])" % rc.__name__, lambda: rc(constraints=cs_one), cs_one))
        for label, mk, given in shapes:
            ctx.count("range-values", key=label, nontrivial=True)
            why = None
            try:
                r = mk()
                before = tuple(r.constraints)
                hash(r)
                if why is None and not (r == rc(constraints=tuple(before))) or hash(r) != hash(rc(constraints=tuple(before))):
                    why = why or "the range differs from (or hashes differently from) the range built from the tuple of the same constraints"
                if given is not None:
                    given.append(VersionConstraint(comparator="!=", version=vs[1]) if vs else star)
                    if tuple(r.constraints) != before:
                        why = why or "editing the list the range was built from changes the range"
                    given.pop()
            except TypeError as e:
                why = why or "TypeError: %s" % e
            except Exception as e:  # noqa: BLE001
                why = why or "raises %s: %s" % (type(e).__name__, e)
            if why:
                ctx.disagree("range-values", label, why, "a hashable value with a tuple of its own", True,
                             {"scheme": scheme, "built_by": label, "clause": why}, spec="a hashable value with a tuple of its own")


def _pickle_across_processes(ctx):
    """versions, constraints and ranges hashed and pickled in ANOTHER interpreter (another hash seed), unpickled here:
    each equals a freshly built one and has the same hash (a hash remembered on the object does not travel)"""
    import os
    import pickle
    import subprocess
    import sys
    import tempfile
    from univers.version_range import VersionRange
    items = []
    for name in A.ALL:
        rng = ctx.rng("c12-pickle", name)
        for s, _v in A.valid_pool(name, rng, 4):
            items.append((name, s))
    code = (
        "import sys, pickle\n"
        "sys.path.insert(0, %r)\n"
        "from harness import schemes as S\n"
        "from univers.version_constraint import VersionConstraint\n"
        "out = []\n"
        "for name, s in %r:\n"
        "    try:\n"
        "        v = S.vclass(name)(s)\n"
        "        c = VersionConstraint(comparator='>=', version=v)\n"
        "        r = (S.rclass(name) or None)\n"
        "        r = r(constraints=[c]) if r else None\n"
        "        for x in (v, c, r):\n"
        "            if x is not None:\n"
        "                hash(x); str(x)\n"
        "        out.append((name, s, pickle.dumps((v, c, r))))\n"
        "    except Exception:\n"
        "        pass\n"
        "pickle.dump(out, open(sys.argv[1], 'wb'))\n" % (str(common.VERIF), items))
    with tempfile.TemporaryDirectory() as tmp:
        path = os.path.join(tmp, "p.bin")
        env = dict(os.environ, PYTHONHASHSEED="12345", PYTHONPATH=str(common.SRC))
        p = subprocess.run([sys.executable, "-c", code, path], env=env, stdout=subprocess.PIPE, stderr=subprocess.PIPE, text=True, timeout=600)
        if p.returncode != 0 or not os.path.exists(path):
            ctx.stream("pickle")["skipped"] = "child failed: " + p.stderr[-300:]
            return
        data = pickle.load(open(path, "rb"))
    for name, s, blob in data:
        stream = "pickle:" + name
        ctx.count(stream, key=s, nontrivial=True)
        try:
            v, c, r = pickle.loads(blob)
            fv = S.vclass(name)(s)
            fc = VersionConstraint(comparator=">=", version=fv)
            fr = S.rclass(name)(constraints=[fc]) if S.rclass(name) else None
            for label, a, b in (("version", v, fv), ("constraint", c, fc), ("range", r, fr)):
                if a is None:
                    continue
                if a == b and (hash(a) != hash(b) or len({a, b}) != 1):
                    ctx.disagree(stream, "%s %s" % (label, s), "equal to a fresh one, hashes differ", "-", True,
                                 {"scheme": name, "text": s, "object": label,
                                  "clause": "a %s hashed and pickled in another interpreter equals a fresh one but has another hash" % label},
                                 region=_region(name), spec="== implies equal hash")
                    break
        except TypeError:
            pass            # unhashable: reported elsewhere
        except Exception as e:  # noqa: BLE001
            ctx.disagree(stream, "unpickle %s" % s, "raises %s" % type(e).__name__, "-", False, {"scheme": name, "text": s})


def _int_limit_region(name, text, i):
    """the recorded region K10: schemes whose COMPARISON reads a digit run with int() and therefore cannot compare (or
    hash) a version holding a run beyond CPython's 4300-digit limit: alpm and gem anywhere, ebuild/alpine in a suffix
    number (_alpha/_beta/_pre/_rc/_p followed by the run).  `i` is where the long run starts."""
    import re
    if name in ("alpm", "gem"):
        return "digit-run-over-int-limit"
    if name in ("ebuild", "alpine") and re.search(r"_(alpha|beta|pre|rc|p)$", text[:i]):
        return "digit-run-over-int-limit"
    return None


def _long_digit_runs(ctx, name, pool, rng):
    """every version can be hashed: also one with a run of more than 4300 digits, where the constructor accepts it
    (int() refuses such a text, and a hash computed with int() then fails); its zero-padded twin, when equal, has the
    same hash"""
    import re
    stream = "long-digit-runs:" + name
    cls = S.vclass(name)
    done = 0
    for s, _v in pool:
        if done >= 6:
            break
        runs = [m.span() for m in re.finditer(r"[0-9]+", s)]
        if not runs:
            continue
        i, j = rng.choice(runs)
        t = s[:i] + str(rng.randint(1, 9)) * rng.choice([4301, 4400]) + s[j:]
        try:
            w = cls(t)
        except Exception:  # noqa: BLE001 — the constructor refuses it (with which error is C11/C16's business)
            continue
        done += 1
        ctx.count(stream, key=(s, i), nontrivial=True)
        try:
            h = hash(w)
        except Exception as e:  # noqa: BLE001
            ctx.disagree(stream, "hash of %s with a run of %d digits at %d" % (s, len(t) - len(s) + (j - i), i),
                         "raises " + type(e).__name__, "a hash", True,
                         {"scheme": name, "version_shape": s, "long_run_at": i, "clause": "hash() raises %s" % type(e).__name__,
                          "python": "from univers.versions import %s as V; s=%r; hash(V(s[:%d] + '7'*4400 + s[%d:]))" % (cls.__name__, s, i, j)},
                         region=_int_limit_region(name, s, i), spec="hashable")
            continue
        try:
            t2 = t[:i] + "0" + t[i:]
            w2 = cls(t2)
            if w2 == w and hash(w2) != h:
                ctx.disagree(stream, "zero-padded twin of %s" % s, "equal but hashes differ", "-", True,
                             {"scheme": name, "version_shape": s, "long_run_at": i, "clause": "== without equal hash (long digit run)"},
                             region=_region(name), spec="== implies equal hash")
        except Exception:  # noqa: BLE001
            pass


def _non_ascii_digits(ctx, name, pool, rng):
    """a decimal digit written in another script (fullwidth, Arabic-Indic, Devanagari): where the class accepts the
    text and the two versions are equal, their hashes must be equal too (no theorem covers non-ASCII text)"""
    stream = "non-ascii-digits:" + name
    cls = S.vclass(name)
    for s, v in pool:
        idx = [i for i, ch in enumerate(s) if ch in "0123456789"]
        if not idx:
            continue
        i = rng.choice(idx)
        j = rng.randint(0, len(s))
        cands = [s[:i] + chr(base + int(s[i])) + s[i + 1:] for base in (0xFF10, 0x0660, 0x0966)]
        # ... and a non-ASCII character inserted (rpm ignores such characters, others may read them as separators)
        cands += [s[:j] + ch + s[j:] for ch in ("\u00e9", "\uff10", "\u00b7", "\u200b")]
        for t in cands:
            try:
                w = cls(t)
                eq = bool(w == v) and bool(v == w)
            except Exception:  # noqa: BLE001
                continue
            ctx.count(stream, key=t, nontrivial=eq)
            if not eq:
                continue
            try:
                ok = hash(w) == hash(v) and len({w, v}) == 1
            except TypeError:
                continue
            if not ok:
                ctx.disagree(stream, "pair", "equal but hash/set differ", "-", True,
                             {"scheme": name, "a": s, "b": t, "clause": "== without equal hash (non-ASCII digit)"},
                             region=_region(name), spec="== implies equal hash")
                return


def _snap(x):
    if isinstance(x, list):
        return ("list", [_snap(i) for i in x])
    try:
        h = hash(x)
    except TypeError:
        h = "unhashable"
    return (repr(x), str(x), h, tuple(map(str, getattr(x, "constraints", ()))))


def _vsnap(v):
    val = getattr(v, "value", None)
    try:
        h = hash(v)
    except TypeError:
        h = "unhashable"
    # observable state only: a private memo attribute appearing on the object is not a mutation
    return (repr(v), str(v), h, repr(val), str(val))


def _reflect(ctx, name, pool):
    """every public zero-argument method and property of a version and of its value object, found by reflection,
    called twice: the version must be left as it was and the two answers must agree"""
    import inspect
    stream = "immutable:" + name + ":methods"
    seen = set()
    short = sorted(pool, key=lambda p: len(p[0]))[:4]          # the shortest texts (one-segment versions) too
    for s, v in list(pool[:8]) + short:
        val = getattr(v, "value", None)
        targets = [("version", v)]
        if val is not None and not isinstance(val, (str, bytes, int, tuple, bool)):
            targets.append(("value", val))
        for label, obj in targets:
            for an in dir(obj):
                if an.startswith("_"):
                    continue
                before = _vsnap(v)
                try:
                    a = getattr(obj, an)
                    if callable(a):
                        try:
                            sig = inspect.signature(a)
                        except (TypeError, ValueError):
                            continue
                        if any(p.default is p.empty and p.kind in (p.POSITIONAL_ONLY, p.POSITIONAL_OR_KEYWORD, p.KEYWORD_ONLY)
                               for p in sig.parameters.values()):
                            continue
                        r1 = repr(a())
                        r2 = repr(getattr(obj, an)())
                    else:
                        r1 = repr(a)
                        r2 = repr(getattr(obj, an))
                except Exception:  # noqa: BLE001 — what a method raises is not this property's business
                    r1 = r2 = None
                after = _vsnap(v)
                key = (type(obj).__name__, an)
                ctx.count(stream, key=key + (s,), nontrivial=key not in seen, branch=label)
                seen.add(key)
                why = None
                if before != after:
                    why = "calling %s.%s changed the version: %s -> %s" % (type(obj).__name__, an, common.short(before, 160), common.short(after, 160))
                elif r1 != r2:
                    why = "%s.%s answers %s and then %s" % (type(obj).__name__, an, common.short(r1, 120), common.short(r2, 120))
                if why:
                    ctx.disagree(stream, "%s.%s" % key, why, "unchanged", True,
                                 {"scheme": name, "text": s, "operation": "%s.%s" % key, "clause": why},
                                 spec="no public operation changes its arguments")
                    return


def _immutability(ctx, name, pool, rng):
    stream = "immutable:" + name
    _reflect(ctx, name, pool)
    if len(pool) < 6:
        return
    vs = [v for _, v in pool[:6]]
    rcls = S.rclass(name) or B._generic_range_for(S.vclass(name))
    cons = [VersionConstraint(comparator=c, version=v) for c, v in zip([">=", "<", "!=", ">", "<=", "="], sorted(vs, key=lambda _: rng.random()))]
    rng_obj = None
    ops = []
    def mk():
        return rcls(constraints=list(cons[:2]))
    try:
        rng_obj = mk()
    except Exception:  # noqa: BLE001
        return
    lst = list(cons)
    ops = [
        ("validate", lambda: VersionConstraint.validate(lst), [lst]),
        ("simplify", lambda: VersionConstraint.simplify(lst), [lst]),
        ("contains", lambda: vs[0] in rng_obj, [rng_obj, vs[0]]),
        ("invert", lambda: rng_obj.invert(), [rng_obj]),
        ("str", lambda: str(rng_obj), [rng_obj]),
        ("to_dict", lambda: rng_obj.to_dict(), [rng_obj]),
        ("normalize", lambda: rng_obj.normalize([p[0] for p in pool[:5]]), [rng_obj]),
        ("compare", lambda: (vs[0] < vs[1], vs[0] == vs[1], vs[0] >= vs[1]), [vs[0], vs[1]]),
        ("constraint-invert", lambda: cons[0].invert(), [cons[0]]),
        ("sorted", lambda: sorted(lst), [lst]),
    ]
    for opname, f, args in ops:
        before = [_snap(a) for a in args]
        try:
            f()
        except Exception:  # noqa: BLE001 — outcomes are other properties' business
            pass
        after = [_snap(a) for a in args]
        ctx.count(stream, key=opname, nontrivial=True, branch=opname)
        if before != after:
            ctx.disagree(stream, opname, "argument changed", "unchanged", True,
                         {"scheme": name, "operation": opname, "before": common.short(before), "after": common.short(after)},
                         spec="no public operation changes its arguments")
    for obj, field in ((vs[0], "value"), (cons[0], "comparator"), (rng_obj, "constraints")):
        try:
            setattr(obj, field, None)
            ctx.disagree(stream, "setattr", "assignment accepted", "FrozenInstanceError", True,
                         {"scheme": name, "object": type(obj).__name__, "field": field}, spec="frozen")
        except attr.exceptions.FrozenInstanceError:
            pass
        except Exception as e:  # noqa: BLE001
            ctx.disagree(stream, "setattr", type(e).__name__, "FrozenInstanceError", False, {"scheme": name})
        ctx.count(stream, key="setattr-" + field, nontrivial=True, branch="setattr")
