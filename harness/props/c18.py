"""C18 — successor and bound helpers bracket the version they start from."""
from harness import common, schemes as S, textcommon as T

from univers import versions as V
from univers import gem as G
from univers import univers_semver as US
from univers.version_constraint import VersionConstraint

MODULES = ["Univers.Props.C18"]
THEOREMS = {"Univers.Text.NpmThm": ["Univers.Text.Npm.caret_bounds", "Univers.Text.Npm.tilde_bounds",
                                    "Univers.Text.Npm.pessimistic_bounds"],
            "Univers.Text.GemReqThm": ["Univers.Text.GemReq.gem_tilde_bounds"]}
LEVEL = "proof"
RULE = ("(1) the shorthand helpers, gem tilde constraints and conan bump/upper_bound of the real code against the Lean models; "
        "(2) the property's oracle on the real code: for valid semver-family versions (pre-releases, build metadata, short and "
        "long segment counts, zero majors and minors) v < next_patch <= next_minor <= next_major; gem v < bump(v), "
        "v <= release(v), release has no pre-release part; conan v < upper_bound(i) < bump(i) for every valid index; caret / "
        "tilde / pessimistic / gem '~>' constraints: lower < upper and the starting version satisfies both; "
        "non-trivial = a pre-release, build metadata or zero major/minor is involved")
ASSUMPTIONS = ["ASCII version text"]


def correspondence(ctx):
    n = 30000 if ctx.thorough else 1500
    T.run_corr(ctx, "corr_npm", "npm-shorthand", n)
    T.run_corr(ctx, "corr_gempypi", "gem-tilde", n)
    m = 12000 if ctx.thorough else 500
    # ---- semver family successors
    for name in ("semver", "golang", "composer", "nginx"):
        rng = ctx.rng("c18", name)
        cls = S.vclass(name)
        for _ in range(m):
            try:
                s, v = S.gen_valid(name, rng)
            except RuntimeError:
                break
            nt = ("-" in s) or ("+" in s) or s.startswith(("0.", "v0.")) or ".0." in s
            ctx.count("successors:" + name, key=s, nontrivial=nt)
            try:
                p, mi, ma = v.next_patch(), v.next_minor(), v.next_major()
                ok = (v < p) and (p <= mi) and (mi <= ma)
                why = None if ok else "v=%s next_patch=%s next_minor=%s next_major=%s" % (v, p, mi, ma)
            except Exception as e:  # noqa: BLE001
                why = "raises %s" % type(e).__name__
            if why:
                ctx.disagree("successors:" + name, s, why, "v < patch <= minor <= major", True,
                             {"scheme": name, "version": s, "clause": why}, spec="ordered successors")
            # shorthand constraints
            for kind, fn, prefix in (("caret", US.get_caret_constraints, "^"), ("tilde", US.get_tilde_constraints, "~"),
                                     ("pessimistic", US.get_pessimistic_constraints, "~>")):
                if name != "semver":
                    continue
                t0 = s.lstrip("vV")
                # also the spelling without the hyphen (1.2.3rc1 is read as 1.2.3-rc1) and with a leading v
                texts = [t0] + ([t0.replace("-", "", 1)] if "-" in t0 and rng.random() < 0.5 else [])
                if "-" in t0 and rng.random() < 0.4:
                    # ... and with the operator's own character inside the version text (1.2.3~rc1 is read as 1.2.3-rc1)
                    texts.append(t0.replace("-", prefix[0], 1))
                for t in texts:
                    try:
                        start = cls(t)
                    except Exception:  # noqa: BLE001
                        continue
                    try:
                        lo, hi = fn(prefix + t)
                    except Exception:  # noqa: BLE001 — invalid operand text for the helper: C16's business
                        continue
                    ctx.count("shorthand:" + kind, key=t, nontrivial=nt)
                    try:
                        ok = (lo.version < hi.version) and (start in lo) and (start in hi)
                        why = None if ok else "lower=%s upper=%s start=%s" % (lo, hi, start)
                    except Exception as e:  # noqa: BLE001
                        why = "raises %s" % type(e).__name__
                    if why:
                        ctx.disagree("shorthand:" + kind, prefix + t, why, "lower < upper, start satisfies both", True,
                                     {"helper": kind, "version": t, "clause": why}, spec="bracketing")
    # ---- gem
    rng = ctx.rng("c18", "gem")
    for _ in range(m):
        try:
            s, v = S.gen_valid("gem", rng)
        except RuntimeError:
            break
        gv = v.value
        nt = gv.prerelease() if hasattr(gv, "prerelease") else False
        ctx.count("gem", key=s, nontrivial=bool(nt))
        why = None
        try:
            b, r = gv.bump(), gv.release()
            if not (gv < b):
                why = "not below its bump %s" % b
            elif gv > r:
                why = "above its release %s" % r
            elif r.prerelease():
                why = "release %s still has a pre-release part" % r
            else:
                lo, hi = G.get_tilde_constraints(G.GemConstraint("~>", gv))
                if not (lo.version < hi.version) or not (gv >= lo.version) or not (gv < hi.version):
                    why = "tilde constraints %s %s do not bracket it" % (lo, hi)
        except Exception as e:  # noqa: BLE001
            why = "raises %s" % type(e).__name__
        if why:
            ctx.disagree("gem", s, why, "bracketing", True, {"scheme": "gem", "version": s, "clause": why}, spec="bracketing")
    # ---- conan
    rng = ctx.rng("c18", "conan")
    for _ in range(m):
        s = ".".join(str(rng.choice([0, 0, 1, 2, 9, 10, 120])) for _ in range(rng.randint(1, 4)))
        if rng.random() < 0.15:
            # an item that is a word or a word with a number (the helpers refuse to bump it: a declared refusal)
            items = s.split(".")
            items[rng.randrange(len(items))] = rng.choice(["rc9", "b99", "rc1", "a", "beta9", "x19", "9a"])
            s = ".".join(items)
        if rng.random() < 0.3:
            s += "-" + rng.choice(["alpha", "rc.1", "pre", "1"])
        if rng.random() < 0.2:
            s += "+" + rng.choice(["1", "b.2"])
        v = V.ConanVersion(s)
        for i in range(len(v.main)):
            ctx.count("conan", key=(s, i), nontrivial=("-" in s or "+" in s or s.startswith("0")))
            try:
                u, b = v.upper_bound(i), v.bump(i)
                ok = (v.value < u) and (u < b)
                why = None if ok else "upper_bound=%s bump=%s" % (u, b)
            except Exception as e:  # noqa: BLE001
                why = "raises %s" % type(e).__name__
                if type(e).__name__ == "ConanException" and not s.replace(".", "").replace("-", "").replace("+", "").isdigit() \
                        and not all(x.isdigit() for x in s.partition("-")[0].partition("+")[0].split(".")):
                    why = None          # a word item cannot be bumped: the helper says so with its declared error
            if why:
                ctx.disagree("conan", "%s @%d" % (s, i), why, "v < upper_bound < bump", True,
                             {"scheme": "conan", "version": s, "index": i, "clause": why}, spec="bracketing")
    ctx.sample({"semver": "1.2.3-rc.1", "next_patch": common.safe(lambda: V.SemverVersion("1.2.3-rc.1").next_patch())})
