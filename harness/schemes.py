"""
Per-scheme registry and grammar-directed generators of version text.

Every generator takes a `random.Random` and returns a string written from the scheme's
documented grammar, with explicit weights for the features the order depends on.
`respell(s, rng)` returns a string the scheme should consider equal or adjacent to `s`.
"""
import string as _string

from harness import common  # noqa: F401  (puts /repo/src on sys.path)

from univers import versions as V
from univers import version_range as VR

# name -> (version class, a range class that uses it, vers scheme of that range class)
SCHEMES = {
    "semver": (V.SemverVersion, VR.NpmVersionRange),
    "golang": (V.GolangVersion, VR.GolangVersionRange),
    "composer": (V.ComposerVersion, VR.ComposerVersionRange),
    "nginx": (V.NginxVersion, VR.NginxVersionRange),
    "pypi": (V.PypiVersion, VR.PypiVersionRange),
    "generic": (V.GenericVersion, None),
    "deb": (V.DebianVersion, VR.DebianVersionRange),
    "rpm": (V.RpmVersion, VR.RpmVersionRange),
    "maven": (V.MavenVersion, VR.MavenVersionRange),
    "nuget": (V.NugetVersion, VR.NugetVersionRange),
    "gem": (V.RubygemsVersion, VR.GemVersionRange),
    "ebuild": (V.GentooVersion, VR.EbuildVersionRange),
    "alpine": (V.AlpineLinuxVersion, VR.AlpineLinuxVersionRange),
    "alpm": (V.ArchLinuxVersion, VR.ArchLinuxVersionRange),
    "conan": (V.ConanVersion, VR.ConanVersionRange),
    "openssl": (V.OpensslVersion, VR.OpensslVersionRange),
    "legacy_openssl": (V.LegacyOpensslVersion, None),
}

ALL = list(SCHEMES)


def vclass(name):
    return SCHEMES[name][0]


def rclass(name):
    return SCHEMES[name][1]


# ----------------------------------------------------------------------------- helpers

def _num(rng, big=False, lead0=0.0):
    r = rng.random()
    if r < 0.35:
        n = str(rng.randint(0, 3))
    elif r < 0.8:
        n = str(rng.randint(0, 12))
    elif r < 0.95 or not big:
        n = str(rng.randint(0, 120))
    else:
        n = str(rng.choice([2 ** 31, 2 ** 63 + 1, 10 ** 20 + 7, 99999999999]))
    if rng.random() < lead0:
        n = "0" * rng.randint(1, 2) + n
    return n


def _word(rng, alphabet="abcdxyz", lo=1, hi=3):
    return "".join(rng.choice(alphabet) for _ in range(rng.randint(lo, hi)))


def _dotted(rng, lo=1, hi=4, lead0=0.0):
    return ".".join(_num(rng, lead0=lead0) for _ in range(rng.randint(lo, hi)))


# ----------------------------------------------------------------------------- semver family

def gen_semver_ident(rng, numeric_ok=True):
    r = rng.random()
    if r < 0.4 and numeric_ok:
        return str(rng.randint(0, 12))
    if r < 0.8:
        return rng.choice(["alpha", "beta", "rc", "a", "b", "x", "pre", "dev", "RC", "Alpha"])
    return rng.choice(["alpha1", "rc-1", "x-y", "0a", "a0", "-", "1a"])


def gen_semver(rng):
    r = rng.random()
    if r < 0.12:
        core = _dotted(rng, 1, 2)          # coerce pads
    elif r < 0.17:
        core = _dotted(rng, 4, 5)          # coerce moves the rest to build
    else:
        core = "%s.%s.%s" % (_num(rng, big=True), _num(rng), _num(rng))
    s = core
    if rng.random() < 0.4:
        s += "-" + ".".join(gen_semver_ident(rng) for _ in range(rng.randint(1, 3)))
    if rng.random() < 0.25:
        s += "+" + ".".join(rng.choice(["build", "1", "001", "exp", "sha-5114f85", "b2", "9", "10", "1a", "2", "11", "05", "5"]) for _ in range(rng.randint(1, 2)))
    if rng.random() < 0.08:
        s = rng.choice("vV") + s
    return s


def gen_golang(rng):
    """Go module versions: a leading v and the +incompatible build tag are the rule, not the exception"""
    s = gen_semver(rng)
    r = rng.random()
    if r < 0.5:
        s = "v" + s.lstrip("vV")
    if rng.random() < 0.3:
        core = s.partition("+")[0]
        s = core + "+" + rng.choice(["incompatible", "incompatible", "incompatible.1", "build.1", "dirty"])
    return s


def gen_composer(rng):
    """Composer versions: stability suffixes (-dev, -alpha, -beta, -RC, -patch / -pl / -p, -stable) with an optional number"""
    s = gen_semver(rng)
    if rng.random() < 0.35:
        core = s.partition("+")[0].partition("-")[0]
        suf = rng.choice(["patch", "pl", "p", "RC", "rc", "beta", "alpha", "dev", "stable", "b", "a"])
        s = core + "-" + suf + rng.choice(["", "1", "2", ".1", "10"])
    return s


def respell_semver(s, rng):
    r = rng.random()
    core, plus, build = s.partition("+")
    if r < 0.3:
        return core + "+" + rng.choice(["a", "b", "1", "zz"])      # build differs: same precedence, tie-break
    if r < 0.5 and plus:
        return core
    if r < 0.7 and "-" not in core and core.count(".") < 2:
        return core + ".0" + plus + build
    if r < 0.78:
        # coerce strips leading zeros of the numeric components: equal value, other spelling
        t = s.lstrip("vV")
        return "0" * rng.randint(1, 2) + t
    if r < 0.85:
        return "v" + s.lstrip("vV")
    if r < 0.9 and "-" not in s and "+" not in s:
        # an empty pre-release / build part is dropped by coerce
        return s + rng.choice(["-", "+", "-+", "."])
    if r < 0.94 and "-" in core and core.count(".") >= 2:
        # coerce rewrites every character outside [a-zA-Z0-9+.-] of the rest to "-"
        head, _, pre = core.partition("-")
        return head + rng.choice(["_", "~", "!"]) + pre + plus + build
    return " " + s + " "


def gen_nginx(rng):
    return "%s.%s.%s" % (_num(rng), _num(rng), _num(rng))


# ----------------------------------------------------------------------------- pypi

def gen_pypi(rng):
    s = ""
    if rng.random() < 0.15:
        s += rng.choice(["0", "1", "2", "00", "01"]) + "!"
    s += ".".join(_num(rng, big=True, lead0=0.1) for _ in range(rng.randint(1, 4)))
    if rng.random() < 0.25:
        s += ".0" * rng.randint(1, 2)
    if rng.random() < 0.3:
        s += rng.choice(["", ".", "-", "_"]) + rng.choice(["a", "b", "rc", "alpha", "beta", "c", "pre", "preview", "RC", "A", "Alpha"]) + \
             rng.choice(["", ".", "-", "_"]) + rng.choice(["", _num(rng, lead0=0.1)])
    if rng.random() < 0.2:
        if rng.random() < 0.3:
            s += "-" + _num(rng, lead0=0.1)
        else:
            s += rng.choice(["", ".", "-", "_"]) + rng.choice(["post", "rev", "r", "POST", "Rev"]) + rng.choice(["", ".", "-", "_"]) + rng.choice(["", _num(rng, lead0=0.1)])
    if rng.random() < 0.2:
        s += rng.choice(["", ".", "-", "_"]) + rng.choice(["dev", "DEV"]) + rng.choice(["", ".", "-", "_"]) + rng.choice(["", _num(rng, lead0=0.1)])
    if rng.random() < 0.2:
        s += "+" + "".join(rng.choice(["abc", "1", "01", "ubuntu", "5", "x", "0", "00", "10", "9", "a", "A", "1a", "a1", "Z", "deb"]) + rng.choice([".", "-", "_"])
                           for _ in range(rng.randint(1, 3)))[:-1]
    if rng.random() < 0.05:
        i = rng.randrange(len(s) + 1)
        s = s[:i] + rng.choice([" ", "\t", "\x1c", "\x0b", "  "]) + s[i:]
    return s


def respell_pypi(s, rng):
    import re
    r = rng.random()
    head, plus, local = s.partition("+")
    if r < 0.25:
        # trailing zero release padding
        m = re.match(r"^((?:\d+!)?\d+(?:\.\d+)*)(.*)$", head)
        if m:
            return m.group(1) + ".0" + m.group(2) + plus + local
    if r < 0.4:
        return s.replace("alpha", "a").replace("beta", "b").replace("pre", "rc").replace("c", "rc", 1) if "rc" not in s else s
    if r < 0.5:
        return s.upper()
    if r < 0.6:
        return rng.choice(["v", "V", "vV"]) + s
    if r < 0.7:
        return head.replace("-", ".").replace("_", ".") + plus + local
    if r < 0.8:
        # local: other separators, leading zeros on numeric parts, case
        parts = re.split(r"[._-]", local) if local else []
        parts = [("0" + p if p.isdigit() and rng.random() < 0.5 else (p.upper() if rng.random() < 0.3 else p)) for p in parts]
        return head + plus + rng.choice([".", "-", "_"]).join(parts)
    if r < 0.9:
        # spellings of post / implicit numbers
        t = re.sub(r"[._-]?(post|rev|r)[._-]?(\d+)", lambda m: "-" + m.group(2), head, count=1, flags=re.I)
        if t == head:
            t = re.sub(r"(a|b|rc|post|dev)$", lambda m: m.group(1) + "0", head, flags=re.I)
        if t == head:
            t = re.sub(r"(?<=\d)(a|b|rc|post|dev)0(?=$|[._-]?[a-z])", lambda m: m.group(1), head, flags=re.I)
        return t + plus + local
    i = rng.randrange(len(s) + 1)
    return s[:i] + " " + s[i:]


# ----------------------------------------------------------------------------- generic

def gen_generic(rng):
    alphabet = "0123456789abcxyzABZ.-_+~:"
    return "".join(rng.choice(alphabet) for _ in range(rng.randint(1, 8)))


# ----------------------------------------------------------------------------- deb

def gen_deb(rng):
    s = ""
    r = rng.random()
    if r < 0.25:
        s += rng.choice(["0", "1", "2", "10", "00", "01", "010"]) + ":"
    elif r < 0.255:
        # CPython refuses int() of more than 4300 digits: ValueError instead of InvalidVersion
        s += rng.choice(["1", "0"]) * rng.choice([4299, 4300, 4301]) + rng.choice(["", "7"]) + ":"
    def upstream(allow_hyphen):
        n = rng.randint(0, 4)
        out = _num(rng, lead0=0.15)
        for _ in range(n):
            sep = rng.choice([".", ".", ".", "+", "~", "", "-" if allow_hyphen else "."])
            out += sep + rng.choice([_num(rng, lead0=0.15), _word(rng, "abpz"), "~", "~~", "+b1", "a1", "rc1", "~rc1", "ubuntu1", "dfsg", "0", "00", "A", "Z", "z"])
        return out
    has_rev = rng.random() < 0.5
    s += upstream(allow_hyphen=has_rev and rng.random() < 0.5)
    if has_rev:
        s += "-" + rng.choice([_num(rng), "0", "0", "00", "", "1", "1ubuntu1", "0ubuntu0.16.04.1~", "1~bpo8+1", "01", "1.1", "a", "0-0", "~", "+"])
    return s


def respell_deb(s, rng):
    r = rng.random()
    if r < 0.15 and ":" not in s:
        return rng.choice(["0:", "00:"]) + s
    if r < 0.2 and ":" in s:
        return "0" + s
    if r < 0.35 and "-" not in s:
        return s + rng.choice(["-0", "-", "-00"])
    if r < 0.4 and s[-1:].isalpha():
        return s + "0"
    if r < 0.47:
        # a zero written where a part ends in a non-digit: the empty digit run there counts as 0
        # (2.3+dfsg-2ubuntu1 / 2.3+dfsg0-2ubuntu1, 1.0~rc-1 / 1.0~rc00-1)
        import re
        spots = [m.end() for m in re.finditer(r"[^0-9:](?=[-]|$)", s)]
        if spots:
            i = rng.choice(spots)
            return s[:i] + rng.choice(["0", "00"]) + s[i:]
    if r < 0.45 and s.endswith("-0"):
        return s[:-1]
    if r < 0.5:
        i = rng.randrange(len(s) + 1)
        return rng.choice(["v", "V", " ", ""]) + s[:i] + rng.choice([" ", "\t", "\n", ""]) + s[i:]
    if r < 0.8:
        # zero padding of a numeric run
        import re
        runs = list(re.finditer(r"\d+", s.split(":")[-1]))
        if runs:
            m = rng.choice(runs)
            off = len(s) - len(s.split(":")[-1])
            return s[:off + m.start()] + "0" + s[off + m.start():]
    if r < 0.9:
        return s + "~"
    return s + "."


# ----------------------------------------------------------------------------- rpm

def gen_rpm(rng):
    s = ""
    if rng.random() < 0.25:
        s += rng.choice(["0", "1", "2", "0", "1", "2", "00", "01", "-1", "+1", "-0", "1_0", "10", "-2"]) + ":"
    def seg():
        out = rng.choice(["", "~", "^", "a", "v"]) if rng.random() < 0.08 else ""
        out += _num(rng, lead0=0.15)
        for _ in range(rng.randint(0, 4)):
            out += rng.choice([".", ".", ".", "_", "+", "", "~", "^"]) + rng.choice([_num(rng, lead0=0.15), _word(rng, "abpzAB"), "rc1", "a1", "el7", "fc30", "git20200101"])
        return out
    s += seg()
    if rng.random() < 0.5:
        s += "-" + seg()
        r = rng.random()
        if r < 0.06:
            s += "-" + seg()          # a second dash: where the release starts is the parser's decision
        elif r < 0.10:
            s += "-"                  # ... and a trailing dash
    return s


def respell_rpm(s, rng):
    r = rng.random()
    if r < 0.2 and ":" not in s:
        return "0:" + s
    if r < 0.6:
        import re
        tail = s.split(":")[-1]
        runs = list(re.finditer(r"\d+", tail))
        if runs:
            m = rng.choice(runs)
            off = len(s) - len(tail)
            return s[:off + m.start()] + "0" + s[off + m.start():]
    if r < 0.75:
        return s.replace(".", "_", 1)
    if r < 0.9:
        return s + rng.choice(["~", "^", ".", "~1", "^1", "-", "-.", "_", "^~", "~^"])
    return s.replace(".", rng.choice(["..", "", "_", "+."]), 1)


# ----------------------------------------------------------------------------- alpm

def gen_alpm(rng, pkgrel=None):
    s = ""
    if rng.random() < 0.2:
        s += rng.choice(["0", "1", "2"]) + ":"
    out = _num(rng, lead0=0.1)
    for _ in range(rng.randint(0, 4)):
        out += rng.choice([".", ".", ".", "_", "+", "", "..", "...", "___", "+++", "._.", "...."]) + rng.choice([_num(rng, lead0=0.1), _word(rng, "abpz"), "rc1", "a", "beta2"])
    s += out
    if pkgrel is None:
        pkgrel = rng.random() < 0.5
    if pkgrel:
        s += "-" + rng.choice([_num(rng), "1", "2", "1.1", "10"])
    return s


def respell_alpm(s, rng):
    r = rng.random()
    if r < 0.25 and ":" not in s:
        return "0:" + s
    if r < 0.7:
        import re
        tail = s.split(":")[-1]
        runs = list(re.finditer(r"\d+", tail))
        if runs:
            m = rng.choice(runs)
            off = len(s) - len(tail)
            return s[:off + m.start()] + "0" + s[off + m.start():]
    if r < 0.8:
        return s.replace(".", "_", 1)
    if r < 0.9:
        return s.replace(".", "+", 1)
    # NOT equal: a separator run of another length (1.0 / 1..0 / 1...0 are three different versions)
    return s.replace(".", rng.choice(["..", "...", "...."]), 1)


# ----------------------------------------------------------------------------- gentoo / alpine

def gen_ebuild(rng, alpine=False):
    first = _num(rng, lead0=0.0 if alpine else 0.1)
    s = first
    for _ in range(rng.randint(0, 3)):
        s += "." + _num(rng, lead0=0.25)
    if rng.random() < 0.25:
        s += rng.choice("abcz")
    for _ in range(rng.choice([0, 0, 0, 1, 1, 2])):
        s += "_" + rng.choice(["alpha", "beta", "pre", "rc", "p"]) + rng.choice(["", _num(rng), "0", "1"])
    if rng.random() < 0.3:
        s += "-r" + rng.choice(["0", "1", "2", "10", "01"])
    return s


def gen_alpine(rng):
    return gen_ebuild(rng, alpine=True)


def respell_ebuild(s, rng):
    r = rng.random()
    if r < 0.3 and "-r" not in s:
        return s + "-r0"
    if r < 0.12 and "-r" in s:
        # is_valid lets anything follow the revision and vercmp ignores it
        return s + rng.choice(["x", "_p1", ".1", "abc"])
    if 0.3 <= r < 0.36 and s[:1] != "0":
        # zero-led first component: the code applies the string rule to it too (PMS: integer)
        return "0" + s
    if r < 0.5:
        return s.replace("_p", "_p0", 1) if "_p" in s and not s.endswith("0") else s + "_p0" if "-r" not in s else s
    if r < 0.8:
        # trailing zero in a zero-led component
        parts = s.split(".")
        for i in range(0, len(parts)):
            if parts[i][:1] == "0" and parts[i].isdigit():
                parts[i] += "0"
                return ".".join(parts)
    return s + ".0" if s.replace(".", "").isdigit() else s


# ----------------------------------------------------------------------------- maven

def gen_maven(rng):
    quals = ["alpha", "beta", "milestone", "rc", "snapshot", "", "sp", "ga", "final", "cr", "a", "b", "m",
             "x", "foo", "release", "SNAPSHOT", "RC", "Final"]
    if rng.random() < 0.15:
        # small alphabet: separator runs, zeros, aliases, digit/letter transitions without separator
        toks = [".", ".", "-", "-", "0", "0", "1", "2", "10", "a", "b", "m", "x", "rc", "ga", "final", "cr",
                "sp", "alpha", "snapshot", "00", "A", "_"]
        return "".join(rng.choice(toks) for _ in range(rng.randint(0, 7)))
    s = _num(rng)
    for _ in range(rng.randint(0, 4)):
        sep = rng.choice([".", ".", ".", "-", "-", ""])
        r = rng.random()
        if r < 0.6:
            s += (sep or ".") + _num(rng, lead0=0.1)
        else:
            q = rng.choice(quals)
            s += sep + q + rng.choice(["", "", _num(rng), "-" + _num(rng)])
    return s


def respell_maven(s, rng):
    r = rng.random()
    if r < 0.3:
        return s + rng.choice([".0", "-0", ".0.0", "-ga", "-final", ".final", "-", "-ga1", "-0.1", "-0.2", "-0-1",
                               ".0.rc", ".x", "-ga-1", ".ga", "--", "-0-"])
    if r < 0.4:
        for a, b in (("alpha", "a"), ("beta", "b"), ("milestone", "m")):
            if a in s:
                i = s.index(a) + len(a)
                if i < len(s) and s[i].isdigit():
                    return s.replace(a, b, 1)
    if r < 0.5:
        for a, b in (("rc", "cr"), ("ga", "final"), ("final", "ga"), ("alpha", "ALPHA"), ("beta", "Beta")):
            if a in s:
                return s.replace(a, b, 1)
    if r < 0.7:
        return s.upper()
    if r < 0.85:
        return s.replace(".", "-", 1)
    return s.replace("-", ".", 1)


# ----------------------------------------------------------------------------- nuget

def gen_nuget(rng):
    n = rng.choice([1, 2, 3, 3, 3, 4, 4])
    s = ".".join(_num(rng, lead0=0.1) for _ in range(n))
    if rng.random() < 0.4:
        # the labels include the words Maven treats as aliases of one another (rc/cr, ga/final/release, a1/alpha-1):
        # NuGet compares labels literally, and its range class derives from Maven's
        s += "-" + ".".join(rng.choice(["alpha", "beta", "rc", "1", "2", "10", "Alpha", "a-b", "x", "0", "9", "1a", "rc1", "RC", "-", "a0", "A",
                                        "cr", "final", "ga", "release", "a1", "alpha-1", "b1", "m1", "milestone-1", "sp", "snapshot"])
                             for _ in range(rng.randint(1, 3)))
    if rng.random() < 0.2:
        s += "+" + rng.choice(["build", "1", "sha.1", "Build", "01", "b-1"])
    return s


def respell_nuget(s, rng):
    r = rng.random()
    core, plus, b = s.partition("+")
    if r < 0.3:
        return core + "+" + rng.choice(["a", "b"])
    head, dash, pre = core.partition("-")
    if r < 0.6 and head.count(".") < 3:
        return head + ".0" + dash + pre + plus + b
    if r < 0.7:
        return s.upper()
    if r < 0.8 and pre:
        # NOT equal in NuGet: words that are aliases of one another only in Maven
        for a, bb in (("rc", "cr"), ("cr", "rc"), ("final", "ga"), ("ga", "final"), ("a1", "alpha-1"), ("b1", "beta-1")):
            if a in pre:
                return head + dash + pre.replace(a, bb, 1) + plus + b
    return head.replace(".", ".0", 1) + dash + pre + plus + b


# ----------------------------------------------------------------------------- gem

def gen_gem(rng):
    s = _num(rng, big=True, lead0=0.05)
    for _ in range(rng.randint(0, 5)):
        r = rng.random()
        if r < 0.3:
            s += ".0"
        elif r < 0.65:
            s += "." + _num(rng, big=True, lead0=0.05)
        elif r < 0.85:
            s += "." + rng.choice(["a", "b", "rc", "pre", "beta", "alpha", "rc1", "b2", "x", "A", "Rc", "a0", "0a", "a01b", "Z"])
        else:
            s += rng.choice(["-", "", "--", "-0.", "."]) + rng.choice(["a", "rc1", "pre", "beta2", "0", "PRE", "a-b", "-"])
    return s


def respell_gem(s, rng):
    """equal-by-canonical-segments respellings: trailing zeros of the numeric head (before the
    first letter) and of the tail, leading zeros of a number, `-` vs `.pre.`, `a1` vs `a.1`"""
    r = rng.random()
    if r < 0.2:
        return s + ".0"
    if r < 0.3:
        return s + ".0.0"
    if r < 0.45:
        return s.replace("-", ".pre.", 1)
    if r < 0.65:
        # zeros before the first letter
        for i, c in enumerate(s):
            if c.isalpha():
                j = i
                while j > 0 and s[j - 1].isdigit():
                    j -= 1      # letter glued to digits: 1.2a → split point is before the digits? keep simple
                if j == i and i > 0 and s[i - 1] in ".-":
                    sep = s[i - 1]
                    if sep == ".":
                        return s[:i] + "0." * rng.randint(1, 2) + s[i:]
                return s[:i] + ".0." + s[i:] if s[i - 1:i].isdigit() else s
        return s + ".0"
    if r < 0.75:
        # drop a ".0" somewhere
        i = s.find(".0.")
        return s[:i] + s[i + 2:] if i >= 0 else (s[:-2] if s.endswith(".0") else s)
    if r < 0.85:
        # letter/digit boundary gets a dot
        for i in range(1, len(s)):
            if s[i - 1].isalpha() and s[i].isdigit() or s[i - 1].isdigit() and s[i].isalpha():
                return s[:i] + "." + s[i:]
        return s
    if r < 0.93:
        return s.replace(".", ".0", 1)
    return s.swapcase()


# ----------------------------------------------------------------------------- conan

def gen_conan(rng, homogeneous=True):
    n = rng.choice([1, 2, 3, 3, 3, 4])
    items = []
    for i in range(n):
        if not homogeneous and rng.random() < 0.25:
            items.append(_word(rng, "abcxyz"))
        else:
            items.append(_num(rng))
    s = ".".join(items)
    if rng.random() < 0.3:
        s += "-" + rng.choice(["alpha", "beta", "rc", "pre", "1", "alpha.1", "rc.2", "dev"])
    if rng.random() < 0.2:
        s += "+" + rng.choice(["1", "2", "build", "b.1"])
    return s


def respell_conan(s, rng):
    r = rng.random()
    head = s
    tail = ""
    for sep in "-+":
        if sep in head:
            i = head.index(sep)
            head, tail = head[:i], head[i:] + tail
    if r < 0.35:
        return head + ".0" + tail
    if r < 0.5:
        return s.upper()
    if r < 0.6:
        return head + ".0.0" + tail
    if r < 0.7:
        return head + ".00" + tail
    if r < 0.9:
        # int() respellings of one numeric item: leading zeros, underscore between digits
        items = head.split(".")
        i = rng.randrange(len(items))
        if items[i].isdigit():
            if len(items[i]) > 1 and rng.random() < 0.5:
                items[i] = items[i][0] + "_" + items[i][1:]
            else:
                items[i] = rng.choice(["0", "00"]) + items[i]
        return ".".join(items) + tail
    # not equal: an empty pre-release / build is still a pre-release / build
    return s + rng.choice(["-", "+", "-0", "+0"])


# ----------------------------------------------------------------------------- openssl

LEGACY_BASES = ["0.9.1", "0.9.2", "0.9.3", "0.9.4", "0.9.5", "0.9.6", "0.9.7", "0.9.8",
                "1.0.0", "1.0.1", "1.0.2", "1.1.0", "1.1.1"]


def gen_legacy_openssl(rng):
    s = rng.choice(LEGACY_BASES)
    r = rng.random()
    if r < 0.2:
        return s
    if r < 0.6:
        return s + rng.choice("abcdefghijklmnopqrstuvwxyz")
    if r < 0.68:
        return s + rng.choice("abz") + rng.choice("abz")
    if r < 0.74:
        # all-digit third segment: `1.0.10`, and `1.0.05` (value (1,0,5,''), prints `1.0.5`)
        return s + rng.choice(["0", "1", "5", "05", "10"])
    if r < 0.78:
        # digit right after the fix number followed by letters: rejected (`patch[0].isdigit()`)
        if rng.random() < 0.5:
            # a zero-padded third number before the letters: `1.0.05a` (the text names the base `1.0.0`,
            # the value (1,0,5,'a') would print as `1.0.5a`, which names no base)
            return (s[:-1] + "0" + rng.choice("123456789")
                    + rng.choice(["a", "b", "zh", "-beta2", "-alpha1", "-pre1"]))
        return s + rng.choice(["0a", "2b", "1-beta1", "5a", "7-beta2", "9z", "05"])
    return s + rng.choice(["-beta1", "-beta2", "-beta3", "-alpha1", "-pre1", "-beta10", "-dev",
                           "-alpha", "-beta", "-betaX", "-", "A", "a1", "+a", "_1"])


def gen_openssl(rng):
    if rng.random() < 0.6:
        return gen_legacy_openssl(rng)
    s = "%d.%s.%s" % (rng.randint(3, 5), _num(rng), _num(rng))
    if rng.random() < 0.25:
        s += "-" + rng.choice(["alpha1", "beta1", "beta2", "rc1", "alpha17"])
    if rng.random() < 0.1:
        s += "+" + rng.choice(["quic", "1"])
    return s


def respell_plain(s, rng):
    r = rng.random()
    if r < 0.4:
        return " " + s
    if r < 0.7:
        return "v" + s
    return s + " "


GEN = {
    "semver": gen_semver, "golang": gen_golang, "composer": gen_composer, "nginx": gen_nginx,
    "pypi": gen_pypi, "generic": gen_generic, "deb": gen_deb, "rpm": gen_rpm, "maven": gen_maven,
    "nuget": gen_nuget, "gem": gen_gem, "ebuild": gen_ebuild, "alpine": gen_alpine, "alpm": gen_alpm,
    "conan": gen_conan, "openssl": gen_openssl, "legacy_openssl": gen_legacy_openssl,
}

RESPELL = {
    "semver": respell_semver, "golang": respell_semver, "composer": respell_semver, "nginx": respell_semver,
    "pypi": respell_pypi, "generic": respell_plain, "deb": respell_deb, "rpm": respell_rpm,
    "maven": respell_maven, "nuget": respell_nuget, "gem": respell_gem, "ebuild": respell_ebuild,
    "alpine": respell_ebuild, "alpm": respell_alpm, "conan": respell_conan,
    "openssl": respell_plain, "legacy_openssl": respell_plain,
}


def make(name, s):
    """construct a version of scheme `name`; returns the object or None when rejected with
    InvalidVersion; any other exception propagates"""
    try:
        return vclass(name)(s)
    except V.InvalidVersion:
        return None


def gen_valid(name, rng, tries=20):
    for _ in range(tries):
        s = GEN[name](rng)
        try:
            v = make(name, s)
        except Exception:
            v = None
        if v is not None:
            return s, v
    raise RuntimeError("generator for %s produced no valid version" % name)
