"""
The flow every property check follows (DESIGN §6):

  translate → lake build (model driver, then the property's theorem modules)
            → sorry/axiom audit → correspondence (impl vs model vs spec)
  anything broken → search for a concrete failing input on the real code
  → evidence file, VIOLATION / KNOWN-FINDING lines, exit code
"""
import importlib
import json
import sys
import time
import traceback

from harness import common
from harness.common import Reporter, Tooling


class Ctx:
    def __init__(self, pid, tier, seed):
        import os as _os
        self._progress_file = _os.environ.get("VERIF_PROGRESS_FILE")
        self._progress_t = 0.0
        self.deepen = False
        self.soft_broken = []    # textual ties (translated functions, regular-expression text) that no longer check: quick tier
        self.pid = pid
        self.tier = tier
        self.seed = seed
        self.thorough = tier == "thorough"
        self.rep = Reporter(pid, tier, seed)
        self.stats = {}          # stream name -> dict
        self.samples = []
        self.evaluations = 0
        self.distinct = set()
        self.tie_broken = []     # (stream, description, first disagreeing line)
        self.proof_broken = []   # theorem / module names
        self.deadline = time.time() + (3300 if self.thorough else 1500)

    def rng(self, *names):
        return common.rng_for(self.seed, self.pid, *names)

    def stream(self, name):
        return self.stats.setdefault(name, {"evaluations": 0, "distinct_nontrivial": 0, "disagreements": 0,
                                            "branches": {}, "errors": {}})

    def count(self, stream, key=None, nontrivial=True, branch=None, error=None):
        st = self.stream(stream)
        st["evaluations"] += 1
        self.evaluations += 1
        self.last = (stream, key)
        if self._progress_file is not None:
            now = time.time()
            if now - self._progress_t > 1.0:
                self._progress_t = now
                try:
                    open(self._progress_file, "w").write(json.dumps([stream, str(key)[:300]]))
                except Exception:  # noqa: BLE001
                    pass
        if key is not None and nontrivial:
            k = (stream, key)
            if k not in self.distinct:
                self.distinct.add(k)
                st["distinct_nontrivial"] += 1
        if branch:
            st["branches"][branch] = st["branches"].get(branch, 0) + 1
        if error:
            st["errors"][error] = st["errors"].get(error, 0) + 1

    def sample(self, s):
        if len(self.samples) < 12:
            self.samples.append(s)

    def disagree(self, stream, line, impl, model, in_domain, replay=None, region=None, spec=None):
        """impl and model differ on `line`.  in_domain: the line is inside the domain of a
        proved theorem, so impl ≠ model means impl ≠ spec: a concrete failing input."""
        st = self.stream(stream)
        st["disagreements"] += 1
        info = {"stream": stream, "line": line, "impl": impl, "model": model}
        if spec is not None:
            info["spec"] = spec
        if replay:
            info.update(replay)
        if in_domain:
            self.rep.fail("%s|%s" % (stream, line), info, found_input=True, region=region)
        else:
            if len(self.tie_broken) < 20:
                self.tie_broken.append(info)


def run_property(pid, tier, seed):
    mod = importlib.import_module("harness.props.%s" % pid.lower())
    ctx = Ctx(pid, tier, seed)
    t0 = time.time()
    cmds = []
    # 1. translate
    tables, changed, pins = common.translate()
    # 2. build the model driver
    ok, log, failed, cmd = common.lake_build(["umodel"])
    cmds.append(cmd)
    model_ok = ok
    if not ok:
        ctx.proof_broken.append({"what": "model driver does not build on the regenerated tables",
                                 "modules": failed, "log": log[-3000:]})
    # 3. build the theorem modules
    theorem_names = {}
    discharged = 0
    obligations = 0
    thm_info = []
    extra = getattr(mod, "THEOREMS", {})
    for m in list(getattr(mod, "MODULES", [])) + [k for k in extra if k not in getattr(mod, "MODULES", [])]:
        names = (common.theorems_of(m) if m in getattr(mod, "MODULES", []) else []) + list(extra.get(m, []))
        theorem_names[m] = names
        obligations += len(names)
        ok, log, failed, cmd = common.lake_build([m])
        cmds.append(cmd)
        if not ok:
            ctx.proof_broken.append({"what": "theorem module no longer checks", "module": m,
                                     "failed": failed, "log": log[-3000:]})
            for n in names:
                thm_info.append({"name": n, "module": m, "checked": False, "axioms": None})
            continue
        ax, acmd, out = common.audit_axioms(m, names)
        cmds.append(acmd)
        for n in names:
            a = ax.get(n)
            good = a is not None and set(a) <= common.ACCEPTED_AXIOMS
            if good:
                discharged += 1
            else:
                ctx.proof_broken.append({"what": "axiom audit failed", "theorem": n, "axioms": a})
            thm_info.append({"name": n, "module": m, "checked": good, "axioms": a,
                             "partial": n.endswith("_partial")})
    # 3a. textual ties.  (i) function-level tie: the agreement theorems between the functions TRANSLATED from the Python source on this
    # run (Gen/Py*.lean, harness/translate_layerb.py) and the hand-written model functions.  A broken agreement is a
    # broken proof obligation in the thorough tier; in the quick tier (the check run on every change, where a harmless
    # rewrite of one of these functions must not raise an alarm by itself) it is recorded in the evidence and makes the
    # correspondence sweep deeper (`ctx.deepen`), and only what that sweep finds is reported.  (ii) the text of the
    # regular expressions (Scheme/RegexPins.lean) is treated the same way.
    function_tie = {}
    for m, names in getattr(mod, "TIE_THEOREMS", {}).items():
        ok, log, failed, cmd = common.lake_build([m])
        cmds.append(cmd)
        good = False
        ax = {}
        if ok:
            ax, acmd, out = common.audit_axioms(m, names)
            cmds.append(acmd)
            good = all(ax.get(n) is not None and set(ax[n]) <= common.ACCEPTED_AXIOMS for n in names)
        function_tie[m] = {"theorems": names, "checked": good,
                           "translator": common.function_status()}
        if good:
            theorem_names[m] = names
            obligations += len(names)
            discharged += len(names)
            for n in names:
                thm_info.append({"name": n, "module": m, "checked": True, "axioms": ax.get(n)})
        elif ctx.thorough:
            obligations += len(names)
            ctx.proof_broken.append({"what": "the function translated from the Python source is no longer proved equal to the model function "
                                             "(agreement theorem does not check)", "module": m, "theorems": names,
                                     "translator": common.function_status(), "log": (log or "")[-2500:]})
            for n in names:
                thm_info.append({"name": n, "module": m, "checked": False, "axioms": None})
        else:
            ctx.deepen = True
            ctx.soft_broken.append(m)
            function_tie[m]["quick_tier"] = "not an alarm by itself: the correspondence sweep and the search were deepened instead"
    # 3b. thorough tier: independent re-check of the compiled theorem modules
    rechecked = None
    if ctx.thorough and not ctx.proof_broken and theorem_names:
        ok, out, cmd = common.leanchecker(sorted(theorem_names))
        cmds.append(cmd)
        rechecked = ok
        if not ok:
            ctx.proof_broken.append({"what": "leanchecker rejects a compiled theorem module", "log": out})
    # 4. forbidden constructs anywhere in the Lean sources
    hits = common.grep_forbidden(common.lean_sources())
    if hits:
        ctx.proof_broken.append({"what": "forbidden construct in Lean sources", "hits": hits[:20]})
        discharged = 0
    # 5. correspondence and oracle search
    err = None
    # a call into the library that never returns must not hang the check: the whole sweep runs under a deadline (far above
    # what it takes on the unchanged tree), and running out of it is reported, not waited for
    import os as _os
    import signal as _signal
    deadline = float(_os.environ.get("VERIF_DEADLINE_S") or (9000 if tier == "thorough" else 1500))

    def _on_deadline(_sig, _frm):
        raise common.TooLong()
    _signal.signal(_signal.SIGALRM, _on_deadline)
    _signal.setitimer(_signal.ITIMER_REAL, deadline, 1.0)
    try:
        if model_ok:
            mod.correspondence(ctx)
            from harness import layerb
            for mm in layerb.MISMATCHES[:5]:
                ctx.disagree("pool-order-vs-model:" + mm["scheme"], "vcmp %s" % mm["scheme"], mm["real_operators_say"], mm["model_says"], False,
                             dict(mm, note="the versions used by this check are ranked with the real operators; the scheme's Lean "
                                           "model orders this pair differently, so what the check established on ranks is not tied "
                                           "to the model of the scheme any more (C01-C03 and C11 look at such pairs directly)"))
        if hasattr(mod, "replay_known"):
            mod.replay_known(ctx)
        if (ctx.proof_broken or ctx.tie_broken or ctx.soft_broken) and not ctx.rep.violations and hasattr(mod, "search"):
            mod.search(ctx)
    except common.TooLong:
        last = getattr(ctx, "last", None)
        ctx.rep.fail("deadline", {"what": "the sweep of this check was still running after %.0f s (on the unchanged tree it takes a small "
                                          "fraction of that): a call into the library does not return, or has become very slow" % deadline,
                                  "last_stream_and_input_counted": [str(x)[:300] for x in last] if last else None,
                                  "note": "the input being evaluated is the one AFTER the last one counted in that stream"},
                     found_input=False)
    except Tooling:
        raise
    except Exception:
        err = traceback.format_exc()
        raise Tooling("check crashed:\n" + err)
    finally:
        _signal.setitimer(_signal.ITIMER_REAL, 0)
    # 6. broken ties without a concrete input
    if not ctx.rep.violations:
        if ctx.proof_broken:
            ctx.rep.fail("proof", {"broken": ctx.proof_broken, "tables_changed_vs_pinned": changed,
                                   "note": "a proof obligation or the model build no longer checks on the regenerated tables; "
                                           "the search found no concrete failing input"}, found_input=False)
        elif ctx.tie_broken:
            ctx.rep.fail("correspondence", {"broken_correspondence": ctx.tie_broken[:10], "tables_changed_vs_pinned": changed,
                                            "note": "the model no longer reproduces the implementation outside the theorems' domain; "
                                                    "the search found no concrete failing input"}, found_input=False)
    nontriv = sum(s["distinct_nontrivial"] for s in ctx.stats.values())
    coverage = {
        "obligations": obligations,
        "discharged": discharged,
        "checker_cmd": " ; ".join(c for c in cmds if c),
        "trusted_base": common.TRUSTED_BASE + getattr(mod, "TRUSTED_EXTRA", []),
        "theorems": thm_info,
        "tables": {k: {"sha256": v, "changed_vs_pinned": k in changed} for k, v in tables.items()},
        "pins": pins,
        "correspondence": ctx.stats,
        "evaluations": ctx.evaluations,
        "programs": ctx.evaluations,
        "disagreements_checked": sum(s["disagreements"] for s in ctx.stats.values()),
        "distinct_nontrivial": nontriv,
        "rule": getattr(mod, "RULE", ""),
        "samples": ctx.samples or ["(no correspondence lines were run)"],
        "exhaustive": bool(getattr(ctx, "exhaustive", False)),
        "known_findings": [{"id": k["id"], "reproduced": k["id"] in ctx.rep.known_hits} for k in ctx.rep.known],
        "leanchecker": rechecked,
        "function_tie": function_tie,
        "proof_broken": ctx.proof_broken,
        "tie_broken": ctx.tie_broken[:5],
    }
    if obligations == 0:
        coverage.pop("obligations")
        coverage.pop("discharged")
    ev = {
        "property_id": pid, "tier": tier, "seed": seed,
        "level": getattr(mod, "LEVEL", "proof"),
        "coverage": coverage,
        "assumptions": getattr(mod, "ASSUMPTIONS", []),
    }
    for k in ctx.rep.known:
        if k["id"] in ctx.rep.known_hits:
            ctx.rep.print_known(k["id"], k.get("what", ""))
    return ctx.rep.finish(ev)


def supervise(pid, tier, seed, argv):
    """run the check in a child process and wait for it, but not for ever: a call into the library that never returns
    inside C code (a regular expression that backtracks exponentially) cannot be interrupted from within, so the deadline
    of the sweep is enforced from outside as well.  The child reports what it is doing once a second
    (`.progress-<pid>`); when it has to be killed, that is what the violation names."""
    import json
    import os
    import subprocess
    import hashlib
    deadline = float(os.environ.get("VERIF_DEADLINE_S") or (9000 if tier == "thorough" else 1500))
    grace = deadline + float(os.environ.get("VERIF_GRACE_S") or 600)          # translate + lake build + the child's own deadline handling come first
    prog = common.VERIF / (".progress-%s-%d" % (pid, os.getpid()))
    env = dict(os.environ, VERIF_CHILD="1", VERIF_PROGRESS_FILE=str(prog))
    cmd = [sys.executable, str(common.VERIF / "check"), pid, "--tier", tier]
    p = subprocess.Popen(cmd, env=env, start_new_session=True)
    import signal as _sig

    def _pass_on(signum, _frm):
        # the caller ends this check: end the child (and whatever it started) with it
        try:
            os.killpg(p.pid, _sig.SIGKILL)
        except Exception:  # noqa: BLE001
            pass
        os._exit(128 + signum)
    for _s in (_sig.SIGTERM, _sig.SIGINT, _sig.SIGHUP):
        try:
            _sig.signal(_s, _pass_on)
        except Exception:  # noqa: BLE001
            pass
    try:
        rc = p.wait(timeout=grace)
        return rc
    except subprocess.TimeoutExpired:
        import signal
        try:
            os.killpg(p.pid, signal.SIGKILL)
        except Exception:  # noqa: BLE001
            p.kill()
        p.wait()
        last = None
        try:
            last = json.loads(prog.read_text())
        except Exception:  # noqa: BLE001
            pass
        replay = {"property": pid, "tier": tier, "seed": seed, "key": "deadline", "found_failing_input": False,
                  "what": "the check was still running %.0f s after it started and had to be killed from outside (on the unchanged tree it "
                          "takes a small fraction of that): a call into the library does not return and cannot be interrupted "
                          "(typically a regular expression that backtracks without end)" % grace,
                  "last_stream_and_input_reported": last,
                  "note": "the input being evaluated is the one AFTER the last one reported in that stream"}
        common.REPLAYS.mkdir(exist_ok=True)
        h = hashlib.sha256(json.dumps(replay, sort_keys=True, default=str).encode()).hexdigest()[:12]
        path = common.REPLAYS / ("%s-%s.json" % (pid, h))
        path.write_text(json.dumps(replay, indent=1, sort_keys=True, default=str))
        try:
            mod = importlib.import_module("harness.props.%s" % pid.lower())
            common.write_evidence(pid, {"property_id": pid, "tier": tier, "seed": seed, "level": getattr(mod, "LEVEL", "proof"),
                                        "coverage": {"killed_after_s": grace, "last_reported": last,
                                                     "note": "the check did not finish; nothing it covered is claimed"},
                                        "assumptions": [], "violations": 1, "wall_s": grace})
        except Exception:  # noqa: BLE001
            pass
        print("VIOLATION property=%s replay=%s no-failing-input-found" % (pid, path))
        sys.stdout.flush()
        return 1
    finally:
        try:
            prog.unlink()
        except OSError:
            pass


def main(argv):
    if len(argv) >= 2 and argv[0] == "replay":
        from harness import replay
        return replay.main(argv[1:])
    if not argv:
        print("usage: check <Cnn> [--tier quick|thorough]")
        return 2
    pid = argv[0].upper()
    tier = None
    if "--tier" in argv:
        tier = argv[argv.index("--tier") + 1]
    import os
    tier = tier or os.environ.get("VERIF_TIER") or "quick"
    if tier not in ("quick", "thorough"):
        tier = "quick"
    seed = common.seed_from_env()
    if os.environ.get("VERIF_CHILD") != "1" and os.environ.get("VERIF_NO_SUPERVISOR") != "1":
        return supervise(pid, tier, seed, argv)
    try:
        return run_property(pid, tier, seed)
    except Tooling as e:
        print("TOOLING-FAILURE: %s" % e, file=sys.stderr)
        return 2
    except Exception:
        traceback.print_exc()
        return 2
