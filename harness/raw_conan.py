"""raw three-way result of conan Version.__lt__ / __eq__ on the values of two ConanVersion objects"""


def sign(A, B):
    a, b = A.value, B.value
    if a < b:
        return -1
    if a == b:
        return 0
    return 1
