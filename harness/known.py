"""
Known findings (known_findings.json): every `open` entry carries a `check` — a Python
expression over the real code that is True while the defect is there — and a `region` name
used by the property modules to classify failing inputs.  Nothing here writes the file.
"""
import traceback

from harness import common


def _ns():
    from univers import versions as V, version_range as VR, version_constraint as VC
    from univers import gem, maven, nuget, rpm, debian, arch, gentoo
    def raises(f, *names):
        try:
            f()
        except Exception as e:  # noqa: BLE001
            return type(e).__name__ in names if names else True
        return False
    return dict(V=V, VR=VR, VC=VC, gem=gem, maven=maven, nuget=nuget, rpm=rpm, debian=debian, arch=arch,
                gentoo=gentoo, raises=raises)


def replay_known(ctx):
    """evaluate the witness of every open finding of this property on the real code"""
    ns = None
    for k in ctx.rep.known:
        chk = k.get("check")
        if not chk:
            continue
        if ns is None:
            ns = _ns()
        try:
            ok = bool(eval(chk, ns))        # noqa: S307 — expressions come from our own committed file
        except Exception:  # noqa: BLE001
            ok = False
            ctx.rep.notes.append("known finding %s: check raised: %s" % (k["id"], traceback.format_exc(limit=1)))
        if ok:
            ctx.rep.known_hits.setdefault(k["id"], {"witness": k.get("witness"), "check": chk})
