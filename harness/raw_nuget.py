"""raw three-way result of nuget.Version.__lt__ / __eq__ on the values of two NugetVersion objects"""


def sign(A, B):
    a, b = A.value, B.value
    if a is None or b is None:
        if a is b:
            return 0
        raise TypeError("'<' not supported between None and nuget.Version")
    if a < b:
        return -1
    if a == b:
        return 0
    return 1
