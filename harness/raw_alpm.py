"""raw three-way result of the alpm comparison routine: `arch.vercmp` on the two values"""
from harness import common  # noqa: F401
from univers import arch


def sign(A, B):
    return arch.vercmp(A.value, B.value)
