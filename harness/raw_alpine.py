"""raw three-way result of the Gentoo comparison routine: `gentoo.vercmp` on the two values"""
from harness import common  # noqa: F401
from univers import gentoo


def sign(A, B):
    return gentoo.vercmp(A.value, B.value)
