"""Workload run in sub-processes under different PYTHONHASHSEED values (C13): prints canonical
texts; the outputs must be byte-identical across seeds."""
import sys

import os
sys.path.insert(0, os.path.dirname(os.path.dirname(os.path.abspath(__file__))))
from harness import common, layerb as B, schemes as S  # noqa: E402

from univers.version_constraint import VersionConstraint  # noqa: E402
from univers.version_range import VersionRange  # noqa: E402


def main(seed, n):
    out = []
    for name in S.ALL:
        rcls = S.rclass(name)
        if rcls is None:
            continue
        rng = common.rng_for(seed, "seed-workload", name)
        try:
            bench = B.Bench(name, rng, size=30)
        except Exception:  # noqa: BLE001
            continue
        if not bench.ok(8) or not bench.pool.hashable:
            continue
        for i in range(n):
            # short ranges, and a few long ones (anything that switches algorithm with the length)
            width = min(bench.pool.n(), 28) if i % 5 == 4 else 8
            m = bench.mapping(width, rng)
            k = rng.randint(width - 6, width) if width > 8 else rng.randint(1, 6)
            cons = [(rng.choice(B.CMPRS), r) for r in sorted(rng.sample(range(width), k))]
            if i % 3 == 1 and cons:
                # an exact duplicate, and one version under two comparators (what a de-duplication keyed by the version
                # alone, or an unstable order of ties, gets wrong in a seed-dependent way)
                j = rng.randrange(len(cons))
                cons = cons + [cons[j], (rng.choice([c for c in B.CMPRS if c != cons[j][0]]), cons[j][1])]
            objs = B.real_cons(bench, cons, m)
            try:
                simp = VersionConstraint.simplify(list(objs))
                text = str(rcls(constraints=simp))
                text2 = str(VersionRange.from_string(str(rcls(constraints=objs)), simplify=True))
                text3 = str(rcls(constraints=list(set(objs))))
            except Exception as e:  # noqa: BLE001
                text = text2 = text3 = "raise:" + type(e).__name__
            # ranges built from a list of version texts in which versions recur in other spellings
            vs = []
            for r in sorted(rng.sample(range(width), min(width, 4))):
                vs += [t for t, _v in bench.spellings(m[r])][:3]
            rng.shuffle(vs)
            try:
                text4 = str(rcls.from_versions(vs))
                text5 = str(rcls(constraints=objs).normalize(vs)) if len(objs) <= 8 else "-"
            except Exception as e:  # noqa: BLE001
                text4 = text5 = "raise:" + type(e).__name__
            out.append("%s %d %s | %s | %s | %s | %s" % (name, i, text, text2, text3, text4, text5))
    sys.stdout.write("\n".join(out) + "\n")


if __name__ == "__main__":
    main(int(sys.argv[1]), int(sys.argv[2]))
