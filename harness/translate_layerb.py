"""
Translator, part 3: FUNCTIONS.  The Python source of the constraint algebra
(`univers/version_constraint.py`: `contains_version`, `validate_comparators`, `VersionConstraint.invert`,
`is_star`, `__contains__`) is translated, statement by statement, into Lean definitions over the run-time of
`lean/Univers/Vers/PyRt.lean` and written to `lean/Univers/Gen/LayerB.lean` on every run.  The agreement
theorems of `lean/Univers/Vers/GenLayerBThm.lean` then prove that each translated function IS the
hand-written model function the property theorems are about (`contains_version = containsVersion`, ...):
an edit of the Python that changes what one of these functions computes changes the generated definition
and the agreement theorem no longer checks.

The translation is syntax-directed and deliberately small.  What it knows:

* types: a constraint (`Con V`), a constraint or None, a list of constraints, a list of pairs of
  constraints, a version, a version or None, a comparator text (`CmpVal`), a bool;
* an expression that depends on ONE comparator text only (`"=" in c.comparator`, `comp in ("<", "<=")`,
  `c.comparator == "*"`) becomes a table over the eight values a comparator text can take (the seven
  keys of COMPARATORS and None), filled in by EVALUATING the Python expression on each of them;
* `for` becomes `pyFor` with the tuple of the local variables the body re-assigns as its state, the loop
  body and the statements after the loop lambda-lifted into definitions of their own;
* `return`, `raise` (the message is dropped), `if/elif/else`, assignment, `continue`, `pass`;
* the statements after an `if` that can fall through are duplicated into the branches that fall through.

Anything else raises `Unsupported`: the generated file then lacks that function, the agreement theorem
does not build, and the check reports the tie as broken.
"""
import ast
import inspect
import textwrap

CMP_VALUES = [">=", "<=", "!=", "<", ">", "=", "*", None]
CMP_LEAN = {">=": ".of .ge", "<=": ".of .le", "!=": ".of .ne", "<": ".of .lt", ">": ".of .gt", "=": ".of .eq",
            "*": ".star", None: ".pyNone"}
LEAN_TYPE = {"Con": "Con V", "ConOpt": "Option (Con V)", "ConList": "List (Con V)", "PairList": "List (Con V × Con V)",
             "Ver": "V", "VerOpt": "Option V", "Cmp": "CmpVal", "Bool": "Bool", "Pair": "Con V × Con V",
             "ConSet": "List (Con V)", "Nat": "Nat", "Range": "List (Con V)", "VerList": "List V", "VerListList": "List (List V)",
             "ConOptList": "List (Option (Con V))", "RangeOpt": "Option (List (Con V))", "RangeClass": "Unit"}
ERRORS = {"ValueError", "TypeError", "InvalidConstraintsError", "KeyError", "AttributeError", "IndexError"}


NN = " (the comparator of a constraint is never None: that row is not reachable and not evaluated)"


class Unsupported(Exception):
    pass


class Fn:
    """one translated function: collects the tables and the lambda-lifted loop definitions"""

    def __init__(self, name, lean_name, params, ret, calls):
        self.name, self.lean_name, self.params, self.ret = name, lean_name, params, ret
        self.calls = calls          # python call name -> (lean name, arg types, result type)
        self.tables = []            # lean text
        self.table_cache = {}       # (rows, raising) -> name
        self.dicts = {}             # local dict literal -> lean name of its lookup table
        self.uses_perm = False
        self.defs = []              # lean text of lifted loop bodies / continuations
        self.nloops = 0
        self.ntabs = 0
        self.ntmp = 0

    def tmp(self):
        self.ntmp += 1
        return "t%d" % self.ntmp


def _src(node):
    return ast.unparse(node)


def _is_cmp_expr(node, env):
    """is `node` an expression whose value is a comparator text?"""
    if isinstance(node, ast.Attribute) and node.attr == "comparator":
        return True
    if isinstance(node, ast.Name) and env.get(node.id) == "Cmp":
        return True
    return False


class Tr:
    # the fixed parameters every generated definition takes, and the error type
    hdr = "{V} (o : VOps V) (perm : List (Con V) → List (Con V))"
    hargs = "o perm"
    err = "Err"

    def __init__(self, fn):
        self.fn = fn

    # ------------------------------------------------------------------ expressions
    # every method returns (lean term, type, pure)

    def table(self, node, cmp_node, env):
        """`node` is a boolean expression over the single comparator-text sub-expression `cmp_node`"""
        class Repl(ast.NodeTransformer):
            def visit(self_inner, n):
                if n is cmp_node:
                    return ast.copy_location(ast.Name(id="__c", ctx=ast.Load()), n)
                return self_inner.generic_visit(n)
        import copy
        # NodeTransformer mutates: work on a deep copy, locating the sub-expression by position
        path = _path_to(node, cmp_node)
        clone = copy.deepcopy(node)
        target = _follow(clone, path)
        _replace(clone, path, ast.Name(id="__c", ctx=ast.Load()))
        code = compile(ast.fix_missing_locations(ast.Expression(clone)), "<table>", "eval")
        rows = []
        raising = False
        # `x.comparator` of a constraint is never None (`PyRt.comparator` has no such value): that row is not evaluated
        never_none = isinstance(cmp_node, ast.Attribute) and self.expr(cmp_node.value, env)[1] == "Con"
        for v in CMP_VALUES:
            if v is None and never_none:
                rows.append((v, False))
                continue
            try:
                rows.append((v, bool(eval(code, dict(MODULE_NS, __c=v)))))       # noqa: S307 — source text of /repo, evaluated on literals
            except Exception as e:  # noqa: BLE001
                rows.append((v, type(e).__name__))
                raising = True
        key = (tuple(rows), raising)
        cached = self.fn.table_cache.get(key)
        if cached:
            name = cached
        else:
            self.fn.ntabs += 1
            name = "%s_tab%d" % (self.fn.lean_name, self.fn.ntabs)
            self.fn.table_cache[key] = name
        if cached:
            pass
        elif raising:
            body = "\n".join("  | %s => %s" % (CMP_LEAN[v], (".ok %s" % str(r).lower()) if isinstance(r, bool) else ".error .%s" % (r if r in ERRORS else "TypeError"))
                             for v, r in rows)
            self.fn.tables.append("/-- `%s` as a function of the comparator text `%s`%s -/\ndef %s : CmpVal → Except Err Bool\n%s\n"
                                  % (_src(node), _src(cmp_node), NN if never_none else "", name, body))
        else:
            body = "\n".join("  | %s => %s" % (CMP_LEAN[v], str(r).lower()) for v, r in rows)
            self.fn.tables.append("/-- `%s` as a function of the comparator text `%s`%s -/\ndef %s : CmpVal → Bool\n%s\n"
                                  % (_src(node), _src(cmp_node), NN if never_none else "", name, body))
        ct, cty, cpure = self.expr(cmp_node, env)
        if cty != "Cmp":
            raise Unsupported("comparator expression of type %s" % cty)
        if cpure and not raising:
            return "(%s %s)" % (name, ct), "Bool", True
        if cpure:
            return "(%s %s)" % (name, ct), "Bool", False
        t = self.fn.tmp()
        if raising:
            return "(%s >>= fun %s => %s %s)" % (ct, t, name, t), "Bool", False
        return "(%s >>= fun %s => .ok (%s %s))" % (ct, t, name, t), "Bool", False

    def expr(self, node, env):
        fn = self.fn
        if isinstance(node, ast.Constant):
            if node.value is True or node.value is False:
                return str(node.value).lower(), "Bool", True
            if node.value is None:
                return "none", "None", True
            if isinstance(node.value, str) and node.value in CMP_LEAN:
                return "(CmpVal%s)" % CMP_LEAN[node.value], "Cmp", True
            raise Unsupported("constant %r" % (node.value,))
        if isinstance(node, ast.Name):
            if node.id not in env:
                raise Unsupported("unknown name %s" % node.id)
            return node.id, env[node.id], True
        if isinstance(node, ast.Attribute) and isinstance(node.value, ast.Name) and node.value.id in ("cls", "self") \
                and node.attr in ("scheme", "version_class") and env.get(node.value.id) in ("Range", "RangeClass"):
            # class attributes that every concrete range class sets: truthy
            return "true", "Bool", True
        if isinstance(node, ast.Attribute):
            vt, ty, pure = self.expr(node.value, env)
            if ty == "Con" and not pure and node.attr in ("comparator", "version"):
                v = fn.tmp()
                f = "comparator" if node.attr == "comparator" else "PyRt.version"
                return "(%s >>= fun %s => .ok (%s %s))" % (vt, v, f, v), ("Cmp" if node.attr == "comparator" else "VerOpt"), False
            if node.attr == "comparator":
                if ty == "Con":
                    return "(comparator %s)" % vt, "Cmp", pure
                if ty == "ConOpt" and pure:
                    return "(comparatorOpt %s)" % vt, "Cmp", False
            if node.attr == "constraints" and ty == "Range":
                return vt, "ConList", pure
            if node.attr == "version":
                if ty == "Con":
                    return "(PyRt.version %s)" % vt, "VerOpt", pure
                if ty == "ConOpt" and pure:
                    return "(versionOpt %s)" % vt, "VerOpt", False
            raise Unsupported("attribute .%s of %s" % (node.attr, ty))
        if isinstance(node, ast.Subscript) and not (isinstance(node.value, ast.Name) and node.value.id in self.fn.dicts):
            vt, ty, pure = self.expr(node.value, env)
            if ty == "VerList" and pure and isinstance(node.slice, ast.Constant) and node.slice.value == 0:
                return "(index %s 0)" % vt, "Ver", False
            if ty == "VerList" and pure and isinstance(node.slice, ast.UnaryOp) and isinstance(node.slice.op, ast.USub) \
                    and isinstance(node.slice.operand, ast.Constant) and node.slice.operand.value == 1:
                return "(last %s)" % vt, "Ver", False
            if ty == "ConList" and pure and isinstance(node.slice, ast.Constant) and node.slice.value == 0:
                return "(index %s 0)" % vt, "Con", False
            if ty == "ConList" and pure and isinstance(node.slice, ast.UnaryOp) and isinstance(node.slice.op, ast.USub) \
                    and isinstance(node.slice.operand, ast.Constant) and node.slice.operand.value == 1:
                return "(last %s)" % vt, "Con", False
            raise Unsupported("subscript " + _src(node))
        if isinstance(node, ast.UnaryOp) and isinstance(node.op, ast.Not):
            t, ty, pure = self.truth(node.operand, env)
            if pure:
                return "(!%s)" % t, "Bool", True
            v = fn.tmp()
            return "(%s >>= fun %s => .ok (!%s))" % (t, v, v), "Bool", False
        if isinstance(node, ast.BoolOp):
            parts = [self.truth(v, env) for v in node.values]
            is_and = isinstance(node.op, ast.And)
            if all(p[2] for p in parts):
                return "(" + (" && " if is_and else " || ").join(p[0] for p in parts) + ")", "Bool", True
            # short-circuit evaluation, right to left
            acc = parts[-1][0] if not parts[-1][2] else ".ok %s" % parts[-1][0]
            for t, _ty, pure in reversed(parts[:-1]):
                if pure:
                    acc = ("(if %s then %s else .ok false)" if is_and else "(if %s then .ok true else %s)") % (t, acc)
                else:
                    v = fn.tmp()
                    acc = ("(%s >>= fun %s => if %s then %s else .ok false)" if is_and
                           else "(%s >>= fun %s => if %s then .ok true else %s)") % (t, v, v, acc)
            return acc, "Bool", False
        if isinstance(node, ast.Compare) and len(node.ops) == 1:
            left, op, right = node.left, node.ops[0], node.comparators[0]
            # comparator-text predicates -> tables
            for cand in (left, right):
                if _is_cmp_expr(cand, env):
                    other = right if cand is left else left
                    if _is_literalish(other, env):
                        return self.table(node, cand, env)
            # len(x) <op> n
            if isinstance(left, ast.Call) and isinstance(left.func, ast.Name) and left.func.id == "len":
                lt_, _lty, _lp = self.length(left.args[0], env)
                sym = {ast.Eq: "=", ast.NotEq: "≠", ast.Lt: "<", ast.LtE: "≤", ast.Gt: ">", ast.GtE: "≥"}[type(op)]
                if isinstance(right, ast.Constant) and isinstance(right.value, int):
                    return "(decide (%s %s %d))" % (lt_, sym, right.value), "Bool", True
                if isinstance(right, ast.Call) and isinstance(right.func, ast.Name) and right.func.id == "len":
                    rt_, _rty, _rp = self.length(right.args[0], env)
                    return "(decide (%s %s %s))" % (lt_, sym, rt_), "Bool", True
            lt_, lty, lp = self.expr(left, env)
            rt_, rty, rp = self.expr(right, env)
            if lty == "Ver" and rty == "VerOpt" and lp:
                if isinstance(op, ast.Eq):
                    if rp:
                        return "(eqOpt o %s %s)" % (lt_, rt_), "Bool", True
                    v = fn.tmp()
                    return "(%s >>= fun %s => .ok (eqOpt o %s %s))" % (rt_, v, lt_, v), "Bool", False
                f = {ast.Lt: "ltOpt", ast.Gt: "gtOpt"}.get(type(op))
                if f:
                    if rp:
                        return "(%s o %s %s)" % (f, lt_, rt_), "Bool", False
                    v = fn.tmp()
                    return "(%s >>= fun %s => %s o %s %s)" % (rt_, v, f, lt_, v), "Bool", False
            if lty == "Ver" and rty == "Ver" and lp and rp and isinstance(op, ast.Eq):
                return "(o.eq %s %s)" % (lt_, rt_), "Bool", True
            if lty == "Ver" and rty == "Con" and isinstance(op, ast.In):
                # `version in constraint`: VersionConstraint.__contains__
                name = fn.calls["__contains__"][0]
                if rp:
                    return "(%s o perm %s %s)" % (name, rt_, lt_), "Bool", False
                v = fn.tmp()
                return "(%s >>= fun %s => %s o perm %s %s)" % (rt_, v, name, v, lt_), "Bool", False
            if lty == "Con" and rty == "ConSet" and lp and rp and isinstance(op, (ast.In, ast.NotIn)):
                t = "(setMem o %s %s)" % (rt_, lt_)
                return ("(!%s)" % t if isinstance(op, ast.NotIn) else t), "Bool", True
            raise Unsupported("comparison " + _src(node))
        if isinstance(node, ast.Call) and isinstance(node.func, ast.Name) and node.func.id == "isinstance":
            # the typed model has one class of constraints and one class of versions: the guards of this kind are
            # C14's business (and the list/tuple guard of `validate` holds of every `List`)
            return "true", "Bool", True
        if isinstance(node, ast.Call) and isinstance(node.func, ast.Name) and node.func.id in ("all", "any") \
                and len(node.args) == 1 and isinstance(node.args[0], ast.GeneratorExp) \
                and isinstance(node.args[0].elt, ast.Call) and isinstance(node.args[0].elt.func, ast.Name) \
                and node.args[0].elt.func.id == "isinstance":
            return "true", "Bool", True
        if isinstance(node, ast.List) and not node.elts:
            return "([] : List (Con V))", "ConList", True
        if isinstance(node, ast.BinOp) and isinstance(node.op, ast.Add):
            lt_, lty, lp = self.expr(node.left, env)
            rt_, rty, rp = self.expr(node.right, env)
            if lty == rty == "ConList" and lp and rp:
                return "(%s ++ %s)" % (lt_, rt_), "ConList", True
            raise Unsupported("addition " + _src(node))
        if isinstance(node, ast.Subscript) and isinstance(node.value, ast.Name) and node.value.id in self.fn.dicts:
            # lookup in a local dict literal of comparator texts
            kt, kty, kp = self.expr(node.slice, env)
            if kty == "Cmp":
                name = self.fn.dicts[node.value.id]
                if kp:
                    return "(%s %s)" % (name, kt), "Cmp", False
                v = fn.tmp()
                return "(%s >>= fun %s => %s %s)" % (kt, v, name, v), "Cmp", False
        if isinstance(node, ast.Call):
            return self.call(node, env)
        if isinstance(node, ast.ListComp) and len(node.generators) == 1 and not node.generators[0].is_async:
            g = node.generators[0]
            it, ity, ip = self.expr(g.iter, env)
            if not ip:
                raise Unsupported("impure iterable in comprehension")
            env2, binder = (self.bind_target(g.target, ity, env) if ity != "VerList" else (env, g.target.id))
            conds = []
            for c in g.ifs:
                ct, _cty, cp = self.truth(c, env2)
                if not cp:
                    raise Unsupported("impure condition in comprehension")
                conds.append(ct)
            if ity == "VerList" and not g.ifs and isinstance(g.target, ast.Name):
                env3 = dict(env)
                env3[g.target.id] = "Ver"
                et, ety, ep = self.expr(node.elt, env3)
                if ety == "Ver" and ep and et == g.target.id:
                    return it, "VerList", True
            if _src(node.elt) != _src(g.target) and not (isinstance(node.elt, ast.Tuple) and _src(node.elt).strip("()") == _src(g.target).strip("()")):
                raise Unsupported("comprehension that maps: " + _src(node))
            return "(%s.filter (fun %s => %s))" % (it, binder, " && ".join(conds) or "true"), ity, True
        raise Unsupported("expression " + _src(node))

    def bind_target(self, target, ity, env):
        env2 = dict(env)
        if ity == "ConList" and isinstance(target, ast.Name):
            env2[target.id] = "Con"
            return env2, target.id
        if ity == "PairList" and isinstance(target, ast.Tuple) and len(target.elts) == 2 and all(isinstance(e, ast.Name) for e in target.elts):
            a, b = target.elts[0].id, target.elts[1].id
            env2[a] = env2[b] = "Con"
            return env2, "(%s, %s)" % (a, b)
        if ity == "VerList" and isinstance(target, ast.Name):
            env2[target.id] = "Ver"
            return env2, target.id
        if ity == "VerListList" and isinstance(target, ast.Name):
            env2[target.id] = "VerList"
            return env2, target.id
        raise Unsupported("loop target %s over %s" % (_src(target), ity))

    def truth(self, node, env):
        """an expression used as a condition"""
        t, ty, pure = self.expr(node, env)
        if ty == "Bool":
            return t, ty, pure
        if ty in ("ConList", "PairList", "VerList", "VerListList", "ConSet") and pure:
            return "(truthy %s)" % t, "Bool", True
        raise Unsupported("truth value of %s" % ty)

    def call(self, node, env):
        fn = self.fn
        f = node.func
        if isinstance(f, ast.Name):
            if f.id == "pairwise" and len(node.args) == 1:
                t, ty, p = self.expr(node.args[0], env)
                if ty == "ConList" and p:
                    return "(PyRt.pairwise %s)" % t, "PairList", True
            if f.id == "bool" and len(node.args) == 1:
                return self.truth(node.args[0], env)
            if f.id in ("all", "any") and len(node.args) == 1 and isinstance(node.args[0], ast.GeneratorExp):
                g = node.args[0]
                if len(g.generators) == 1 and not g.generators[0].ifs:
                    it, ity, ip = self.expr(g.generators[0].iter, env)
                    env2, binder = self.bind_target(g.generators[0].target, ity, env)
                    bt, _bty, bp = self.truth(g.elt, env2)
                    if ip and bp:
                        return "(%s.%s (fun %s => %s))" % (it, f.id, binder, bt), "Bool", True
            if f.id == "len" and len(node.args) == 1:
                return self.length(node.args[0], env)
            if f.id == "set" and not node.args:
                return "([] : List (Con V))", "ConSet", True
            if f.id == "sorted" and len(node.args) == 1:
                a = node.args[0]
                if isinstance(a, ast.Call) and isinstance(a.func, ast.Name) and a.func.id == "set" and len(a.args) == 1:
                    # sorted(set(xs)): the iteration order of the set is the parameter `perm`
                    t, ty, p = self.expr(a.args[0], env)
                    if ty == "ConList" and p:
                        fn.uses_perm = True
                        return "(sortedSet o perm %s)" % t, "ConList", False
                t, ty, p = self.expr(a, env)
                if ty == "ConList" and p:
                    return "(sortCons o %s)" % t, "ConList", False
            if f.id in fn.calls:
                return self.call_known(f.id, node.args, env)
        if isinstance(f, ast.Name) and f.id == "sorted" and len(node.args) == 1:
            t, ty, p = self.expr(node.args[0], env)
            if ty == "VerList" and p:
                return "(sortVers o %s)" % t, "VerList", True
        if isinstance(f, ast.Name) and f.id == "VersionConstraint" and not node.args:
            kw = {k.arg: k.value for k in node.keywords}
            if set(kw) <= {"comparator", "version"} and "version" in kw:
                vt, vty, vp = self.expr(kw["version"], env)
                if vty == "Ver" and vp:
                    if "comparator" in kw:
                        ct, cty, cp = self.expr(kw["comparator"], env)
                        if cty == "Cmp" and cp:
                            return "(mkCon %s (some %s))" % (ct, vt), "Con", False
                    else:
                        # the default comparator of the attrs class
                        dflt = self.class_defaults.get("comparator")
                        if dflt in CMP_LEAN:
                            return "(mkCon (CmpVal%s) (some %s))" % (CMP_LEAN[dflt], vt), "Con", False
            raise Unsupported("constructor call " + _src(node))
        if isinstance(f, ast.Attribute) and f.attr == "__class__" and isinstance(f.value, ast.Name) and env.get(f.value.id) == "Range" \
                and not node.args and [k.arg for k in node.keywords] == ["constraints"]:
            # RangeClass(constraints=xs): __attrs_post_init__ sorts
            t, ty, p = self.expr(node.keywords[0].value, env)
            if ty == "ConList" and p:
                return "(mkRangeOfList o %s)" % t, "Range", False
            if ty == "ConOptList" and p:
                return "(mkRangeOfOpts o %s)" % t, "Range", False
            raise Unsupported("range constructor over %s" % ty)
        if isinstance(f, ast.Name) and f.id == "cls" and env.get("cls") == "RangeClass" and not node.args \
                and [k.arg for k in node.keywords] == ["constraints"]:
            t, ty, p = self.expr(node.keywords[0].value, env)
            if ty == "ConList" and p:
                return "(mkRangeOfList o %s)" % t, "Range", False
        if isinstance(f, ast.Attribute) and f.attr == "version_class" and isinstance(f.value, ast.Name) and f.value.id in ("self", "cls") \
                and len(node.args) == 1:
            # self.version_class(text): the versions are given already constructed (construction is Layer A's business)
            t, ty, p = self.expr(node.args[0], env)
            if ty == "Ver":
                return t, "Ver", p
        if isinstance(f, ast.Attribute) and f.attr in fn.calls and not (isinstance(f.value, ast.Name) and f.value.id in ("cls",)):
            # method call on an expression: x.method(args)
            return self.call_known(f.attr, [f.value] + list(node.args), env, allow_impure_first=True)
        if isinstance(f, ast.Attribute) and f.attr == "__class__" and isinstance(f.value, ast.Name) and env.get(f.value.id) == "Con" \
                and not node.args and {k.arg for k in node.keywords} == {"comparator", "version"}:
            # VersionConstraint(comparator=c, version=v): __attrs_post_init__ refuses an unknown comparator text
            kw = {k.arg: k.value for k in node.keywords}
            ct, cty, cp = self.expr(kw["comparator"], env)
            vt, vty, vp = self.expr(kw["version"], env)
            if cty == "Cmp" and vty == "VerOpt" and cp and vp:
                return "(mkCon %s %s)" % (ct, vt), "Con", False
            raise Unsupported("constructor call " + _src(node))
        if isinstance(f, ast.Attribute) and isinstance(f.value, ast.Name) and f.value.id in ("cls", "self") and f.attr in fn.calls:
            # cls.helper(...) / self.helper()
            args = list(node.args)
            if f.value.id == "self" and env.get("self") == "Con":
                args = [f.value] + args
            return self.call_known(f.attr, args, env)
        raise Unsupported("call " + _src(node))

    def call_known(self, pyname, arg_nodes, env, allow_impure_first=False):
        fn = self.fn
        args, binds = [], ""
        first_ty = None
        for i, a in enumerate(arg_nodes):
            t, ty, p = self.expr(a, env)
            if i == 0:
                first_ty = ty
            if not p:
                if not (allow_impure_first and i == 0):
                    raise Unsupported("impure argument")
                v = fn.tmp()
                binds = "%s >>= fun %s => " % (t, v)
                t = v
            args.append(t)
        key = (pyname, first_ty) if (pyname, first_ty) in fn.calls else pyname
        lean, rty, perm = fn.calls[key]
        if perm:
            fn.uses_perm = True
        return "(%s%s o %s%s)" % (binds, lean, "perm " if perm else "", " ".join(args)), rty, False

    def length(self, node, env):
        """len(x) as a natural number"""
        if isinstance(node, ast.Call) and isinstance(node.func, ast.Name) and node.func.id == "set" and len(node.args) == 1 \
                and isinstance(node.args[0], ast.GeneratorExp):
            g = node.args[0]
            if len(g.generators) == 1 and not g.generators[0].ifs and isinstance(g.elt, ast.Attribute) and g.elt.attr == "version" \
                    and isinstance(g.elt.value, ast.Name) and isinstance(g.generators[0].target, ast.Name) \
                    and g.elt.value.id == g.generators[0].target.id:
                it, ity, ip = self.expr(g.generators[0].iter, env)
                if ity == "ConList" and ip:
                    # len(set(c.version for c in xs)): membership in a set is decided by == (and hash, C12)
                    return "(countDistinct o [] %s)" % it, "Nat", True
        t, ty, p = self.expr(node, env)
        if ty in ("ConList", "PairList", "ConSet") and p:
            return "%s.length" % t, "Nat", True
        raise Unsupported("len of " + _src(node))

    # ------------------------------------------------------------------ statements

    def block(self, stmts, env, fall):
        """Lean term (type `Except Err ρ`) for the statement list; `fall(env)` gives the term for falling off the end"""
        if not stmts:
            return fall(env)
        s, rest = stmts[0], stmts[1:]
        fn = self.fn
        if isinstance(s, ast.Expr) and isinstance(s.value, ast.Constant) and isinstance(s.value.value, str):
            return self.block(rest, env, fall)           # docstring
        if isinstance(s, ast.Pass):
            return self.block(rest, env, fall)
        if isinstance(s, ast.Return):
            if self.fn.ret == "Bool":
                t, ty, pure = self.truth(s.value, env)
            else:
                t, ty, pure = self.expr(s.value, env)
                if self.fn.ret == "ConOpt":
                    if ty == "None":
                        t = "(none : Option (Con V))"
                    elif ty == "Con":
                        if pure:
                            t = "(some %s)" % t
                        else:
                            v = fn.tmp()
                            t = "(%s >>= fun %s => .ok (some %s))" % (t, v, v)
                    else:
                        raise Unsupported("return of %s" % ty)
                elif self.fn.ret == "RangeOpt":
                    if ty == "None":
                        t = "(none : Option (List (Con V)))"
                    elif ty == "Range":
                        if pure:
                            t = "(some %s)" % t
                        else:
                            v = fn.tmp()
                            t = "(%s >>= fun %s => .ok (some %s))" % (t, v, v)
                    else:
                        raise Unsupported("return of %s" % ty)
                elif ty == "Name:NotImplementedError":
                    raise Unsupported("return NotImplementedError")
                elif ty != self.fn.ret:
                    raise Unsupported("return of %s where %s is expected" % (ty, self.fn.ret))
            return self.ret(t, pure)
        if isinstance(s, ast.Raise):
            exc = s.exc
            name = exc.func.id if isinstance(exc, ast.Call) and isinstance(exc.func, ast.Name) else (exc.id if isinstance(exc, ast.Name) else None)
            if name not in ERRORS:
                raise Unsupported("raise " + _src(s))
            return ".error .%s" % name
        if isinstance(s, ast.Continue):
            return fall(env)
        if isinstance(s, ast.If):
            ct, _cty, cpure = self.truth(s.test, env)
            if cpure and ct.replace("(", "").replace(")", "").replace(" ", "") in ("!true||!true", "!true"):
                # a guard on class attributes that every concrete class sets: the branch is not reachable
                return self.block((s.orelse or []) + rest, env, fall)
            # statements after the `if` are duplicated into the branches that can fall through
            then = self.block(s.body + rest, env, fall) if _falls(s.body) else self.block(s.body, env, fall)
            if s.orelse:
                other = self.block(s.orelse + rest, env, fall) if _falls(s.orelse) else self.block(s.orelse, env, fall)
            else:
                other = self.block(rest, env, fall)
            if cpure:
                return "if %s then\n%s\nelse\n%s" % (ct, _ind(then), _ind(other))
            v = fn.tmp()
            return "%s >>= fun %s =>\nif %s then\n%s\nelse\n%s" % (ct, v, v, _ind(then), _ind(other))
        if isinstance(s, ast.Assign) and isinstance(s.value, ast.Dict) and len(s.targets) == 1 and isinstance(s.targets[0], ast.Name) \
                and all(isinstance(k, ast.Constant) and isinstance(v, ast.Constant) and k.value in CMP_LEAN and v.value in CMP_LEAN
                        for k, v in zip(s.value.keys, s.value.values)):
            # a local dict from comparator text to comparator text: a lookup table, KeyError outside its keys
            d = {k.value: v.value for k, v in zip(s.value.keys, s.value.values)}
            name = "%s_dict_%s" % (fn.lean_name, s.targets[0].id)
            rows = "\n".join("  | %s => %s" % (CMP_LEAN[v], (".ok (CmpVal%s)" % CMP_LEAN[d[v]]) if v in d else ".error .KeyError")
                             for v in CMP_VALUES)
            fn.tables.append("/-- the dict `%s` -/\ndef %s : CmpVal → Except Err CmpVal\n%s\n" % (s.targets[0].id, name, rows))
            fn.dicts[s.targets[0].id] = name
            return self.block(rest, env, fall)
        if isinstance(s, ast.Assign) and len(s.targets) == 1 and isinstance(s.targets[0], ast.Tuple) \
                and all(isinstance(e, ast.Name) for e in s.targets[0].elts):
            # a, b = pair  /  a, _, b = triple
            t, ty, pure = self.expr(s.value, env)
            names = [e.id for e in s.targets[0].elts]
            for i, n in enumerate(names):
                if n == "_":
                    self.fn.ntmp += 1
                    names[i] = "unused%d" % self.fn.ntmp
            comp = {"StrPair": ["Str", "Str"], "Str3": ["Str", "Str", "Str"], "OptPair": ["StrOpt", "Str"]}.get(ty)
            if comp is None or len(comp) != len(names):
                raise Unsupported("assignment " + _src(s))
            env2 = dict(env)
            for n, cty in zip(names, comp):
                env2[n] = cty
            pat = "(" + ", ".join(names) + ")"
            if pure:
                return "let %s := %s\n" % (pat, t) + self.block(rest, env2, fall)
            return "%s >>= fun %s =>\n%s" % (t, pat, self.block(rest, env2, fall))
        if isinstance(s, ast.Assign):
            targets = s.targets
            if rest and isinstance(rest[-1], ast.Raise) and all(isinstance(x, (ast.Assign, ast.Raise)) for x in rest):
                # the block ends in `raise`: an assignment whose value only feeds the message is not translated
                try:
                    self.expr(s.value, env)
                except Unsupported:
                    used = {n.id for r in rest[:-1] for n in ast.walk(r.value) if isinstance(n, ast.Name)}
                    if not any(isinstance(x, ast.Name) and x.id in used for x in targets):
                        return self.block(rest, env, fall)
                    return self.block(rest, env, fall)
            if isinstance(s.value, ast.List) and not s.value.elts and len(targets) == 1 and isinstance(targets[0], ast.Name) \
                    and self.var_types.get(targets[0].id) in ("VerList", "VerListList", "ConOptList", "ConList"):
                ty0 = self.var_types[targets[0].id]
                env2 = dict(env)
                env2[targets[0].id] = ty0
                return "let %s : %s := []\n" % (targets[0].id, LEAN_TYPE[ty0]) + self.block(rest, env2, fall)
            t, ty, pure = self.expr(s.value, env)
            env2 = dict(env)
            if all(isinstance(x, ast.Name) for x in targets):
                names = [x.id for x in targets]
                if ty == "None":
                    # `a = b = None`: the type comes from the later assignments (pre-pass)
                    lets = ""
                    for n in names:
                        nty = self.var_types.get(n)
                        if env.get(n) == "Str" or nty == "StrOpt":
                            nty = "StrOpt"
                        if nty not in ("ConOpt", "Cmp", "StrOpt"):
                            raise Unsupported("None assigned to %s of type %s" % (n, nty))
                        env2[n] = nty
                        lets += "let %s : %s := %s\n" % (n, LEAN_TYPE[nty], "CmpVal.pyNone" if nty == "Cmp" else "none")
                    return lets + self.block(rest, env2, fall)
                lets = ""
                first = names[0]
                vty = self.var_types.get(first, ty)
                val = t
                if vty == "ConOpt" and ty == "Con":
                    val = "(some %s)" % t if pure else None
                    ty2 = "ConOpt"
                else:
                    ty2 = ty
                if pure:
                    for n in names:
                        env2[n] = ty2
                        lets += "let %s : %s := %s\n" % (n, LEAN_TYPE[ty2], val)
                    return lets + self.block(rest, env2, fall)
                if len(names) == 1 and ty == "Str" and self.optional_after.get(first):
                    env2[first] = "StrOpt"
                    inner = self.block(rest, env2, fall)
                    return "%s >>= fun %s_ =>\nlet %s : Option (List Char) := some %s_\n%s" % (t, first, first, first, inner)
                if len(names) == 1:
                    env2[first] = ty2
                    inner = self.block(rest, env2, fall)
                    if ty2 == "ConOpt" and ty == "Con":
                        return "%s >>= fun %s_ =>\nlet %s : %s := some %s_\n%s" % (t, first, first, LEAN_TYPE[ty2], first, inner)
                    return "%s >>= fun %s =>\n%s" % (t, first, inner)
            raise Unsupported("assignment " + _src(s))
        if isinstance(s, ast.For):
            return self.for_loop(s, rest, env, fall)
        if isinstance(s, ast.While):
            return self.while_loop(s, rest, env, fall)
        if isinstance(s, ast.Expr) and isinstance(s.value, ast.Call) and isinstance(s.value.func, ast.Attribute) \
                and isinstance(s.value.func.value, ast.Name) and s.value.func.value.id in env:
            # xs.append(x) / xs.pop() / seen.add(x): the variable takes the new value
            name, meth, args = s.value.func.value.id, s.value.func.attr, s.value.args
            ty = env[name]
            if meth == "pop" and not args and ty == "ConList":
                # (of a non-empty list: every `pop()` translated here is guarded by the truth value of the list)
                return "let %s : %s := %s.dropLast\n" % (name, LEAN_TYPE[ty], name) + self.block(rest, env, fall)
            if meth == "append" and len(args) == 1 and ty in ("VerList", "VerListList", "ConOptList", "ConList"):
                t, aty, pure = self.expr(args[0], env)
                want = {"VerList": "Ver", "VerListList": "VerList", "ConOptList": "ConOpt", "ConList": "Con"}[ty]
                if aty == want or (want == "ConOpt" and aty == "Con"):
                    if want == "ConOpt" and aty == "Con":
                        t = ("(some %s)" % t) if pure else None
                    if pure:
                        return "let %s : %s := (%s ++ [%s])\n" % (name, LEAN_TYPE[ty], name, t) + self.block(rest, env, fall)
                    v = fn.tmp()
                    return "%s >>= fun %s =>\nlet %s : %s := (%s ++ [%s])\n" % (self.expr(args[0], env)[0], v, name, LEAN_TYPE[ty], name, v) \
                        + self.block(rest, env, fall)
            if meth in ("append", "add") and len(args) == 1 and ty in ("ConList", "ConSet"):
                t, aty, pure = self.expr(args[0], env)
                if aty == "Con" and pure:
                    new = ("(%s ++ [%s])" if meth == "append" else "(%s :: %s)"[::1]) % ((name, t) if meth == "append" else (t, name))
                    return "let %s : %s := %s\n" % (name, LEAN_TYPE[ty], new) + self.block(rest, env, fall)
            raise Unsupported("method call " + _src(s))
        raise Unsupported("statement " + _src(s).split("\n")[0])

    def ret(self, t, pure):
        return (".ok %s" % t) if pure else t

    # ---- loops.  `self.rho` is the Lean type a term of the current context produces inside `Except Err`
    # (the function's result type at top level, `Step σ ρ` inside a loop body); `self.depth` counts the loops around.

    def _state(self, names, env):
        st = []
        for n in names:
            if n in env and n not in st:
                st.append(n)
        return st

    def _tuple(self, state):
        return "(" + ", ".join(state) + ")" if len(state) > 1 else (state[0] if state else "()")

    def _sig(self, captured, env):
        return ("".join(" (%s : %s)" % (n, LEAN_TYPE[env[n]]) for n in captured),
                " " + self.hargs + "".join(" " + n for n in captured))

    def _in_body(self, sty, state, thunk):
        """translate a loop body: returns wrap once more, falling off the end is `next`"""
        saved = (self.ret, self.rho, self.depth)
        outer_ret = self.ret
        self.rho = "Step (%s) (%s)" % (sty, saved[1])
        self.depth += 1
        self.ret = lambda t, pure: ((".ok (.ret %s)" % _strip_ok(outer_ret(t, True))) if pure
                                    else "(%s >>= fun r_ => .ok (.ret %s))" % (t, _strip_ok(outer_ret("r_", True))))
        try:
            return thunk(lambda e: ".ok (.next %s)" % self._tuple(state)), self.rho
        finally:
            self.ret, self.rho, self.depth = saved

    def for_loop(self, s, rest, env, fall):
        fn = self.fn
        if s.orelse:
            raise Unsupported("for-else")
        it, ity, ip = self.expr(s.iter, env)
        if not ip:
            raise Unsupported("impure iterable")
        tnames = [e.id for e in (s.target.elts if isinstance(s.target, ast.Tuple) else [s.target])]
        state = self._state(tnames + _assigned(s.body), env)
        fn.nloops += 1
        k = fn.nloops
        captured = [n for n in env if n not in state]
        sty = " × ".join(LEAN_TYPE[env[n]] for n in state) or "Unit"
        stpat = "(" + ", ".join(state) + ")" if len(state) > 1 else (state[0] if state else "_st")
        item_ty = {"ConList": "Con", "PairList": "Pair", "VerList": "Ver", "VerListList": "VerList", "StrList": "Str",
                   "Dict": "DictItem"}[ity]
        env_b = dict(env)
        pre = ""
        if isinstance(s.target, ast.Tuple) and item_ty == "DictItem":
            for i, (e, vty) in enumerate(zip(s.target.elts, ("Str", "StrOpt"))):
                env_b[e.id] = vty
                pre += "let %s : %s := item.%d\n" % (e.id, LEAN_TYPE[vty], i + 1)
        elif isinstance(s.target, ast.Tuple):
            for i, e in enumerate(s.target.elts):
                vty = self.var_types.get(e.id, "Con")
                env_b[e.id] = vty
                pre += "let %s : %s := %s\n" % (e.id, LEAN_TYPE[vty], ("some item.%d" if vty == "ConOpt" else "item.%d") % (i + 1))
        elif item_ty in ("Ver", "VerList", "Str"):
            env_b[s.target.id] = item_ty
            pre += "let %s : %s := item\n" % (s.target.id, LEAN_TYPE[item_ty])
        else:
            vty = self.var_types.get(s.target.id, "Con")
            env_b[s.target.id] = vty
            pre += "let %s : %s := %s\n" % (s.target.id, LEAN_TYPE[vty], "some item" if vty == "ConOpt" else "item")
        body, rho_b = self._in_body(sty, state, lambda fall_b: self.block(s.body, env_b, fall_b))
        params, args = self._sig(captured, env)
        if "item" in captured:
            # an enclosing loop's variable is called `item` too: the element of this loop gets its own name
            pre = pre.replace(":= item\n", ":= item_%d\n" % k).replace("item.1", "item_%d.1" % k).replace("item.2", "item_%d.2" % k) \
                     .replace("some item\n", "some item_%d\n" % k)
        iname = "item_%d" % k if "item" in captured else "item"
        bname = "%s_for%d_body" % (fn.lean_name, k)
        aname = "%s_for%d_after" % (fn.lean_name, k)
        unpack = ("let %s := st\n" % stpat) if state else ""
        fn.defs.append("/-- body of `for %s in %s:` -/\ndef %s %s%s (%s : %s) (st : %s) : Except ERR (%s) :=\n%s\n".replace("ERR", self.err)
                       % (_src(s.target), _src(s.iter), bname, self.hdr, params, iname, LEAN_TYPE[item_ty], sty, rho_b, _ind(unpack + pre + body)))
        after = self.block(rest, env, fall)
        fn.defs.append("/-- the statements after `for %s in %s:` -/\ndef %s %s%s (st : %s) : Except ERR (%s) :=\n%s\n".replace("ERR", self.err)
                       % (_src(s.target), _src(s.iter), aname, self.hdr, params, sty, self.rho, _ind(unpack + after)))
        return "pyFor %s %s (%s%s) (%s%s)" % (it, self._tuple(state), bname, args, aname, args)

    def while_loop(self, s, rest, env, fall):
        fn = self.fn
        if s.orelse:
            raise Unsupported("while-else")
        state = self._state(_assigned(s.body), env)
        lists = [n for n in state if env[n] in ("ConList", "ConSet", "PairList")]
        if not lists:
            raise Unsupported("while loop without a list to bound it")
        fn.nloops += 1
        k = fn.nloops
        captured = [n for n in env if n not in state]
        sty = " × ".join(LEAN_TYPE[env[n]] for n in state) or "Unit"
        stpat = "(" + ", ".join(state) + ")" if len(state) > 1 else (state[0] if state else "_st")
        params, args = self._sig(captured, env)
        unpack = ("let %s := st\n" % stpat) if state else ""
        ct, _cty, cpure = self.truth(s.test, env)
        cname = "%s_while%d_cond" % (fn.lean_name, k)
        bname = "%s_while%d_body" % (fn.lean_name, k)
        aname = "%s_while%d_after" % (fn.lean_name, k)
        fn.defs.append("/-- condition of `while %s:` -/\ndef %s %s%s (st : %s) : Except Err Bool :=\n%s\n"
                       % (_src(s.test), cname, self.hdr, params, sty, _ind(unpack + (".ok %s" % ct if cpure else ct))))
        body, rho_b = self._in_body(sty, state, lambda fall_b: self.block(s.body, env, fall_b))
        fn.defs.append("/-- body of `while %s:` -/\ndef %s %s%s (st : %s) : Except Err (%s) :=\n%s\n"
                       % (_src(s.test), bname, self.hdr, params, sty, rho_b, _ind(unpack + body)))
        after = self.block(rest, env, fall)
        fn.defs.append("/-- the statements after `while %s:` -/\ndef %s %s%s (st : %s) : Except Err (%s) :=\n%s\n"
                       % (_src(s.test), aname, self.hdr, params, sty, self.rho, _ind(unpack + after)))
        # every round of the loops translated here shortens one of these lists: their total length bounds the rounds
        fuel = " + ".join("%s.length" % n for n in lists) + " + 1"
        return "pyWhile (%s) %s (%s%s) (%s%s) (%s%s)" % (fuel, self._tuple(state), cname, args, bname, args, aname, args)


def _strip_ok(t):
    assert t.startswith(".ok "), t
    return t[4:] if not (" " in t[4:] and not t[4:].startswith("(")) else "(" + t[4:] + ")"


def _ind(text, n=2):
    return textwrap.indent(text, " " * n)


MODULE_NS = {}      # module-level names of version_constraint.py (constants such as a tuple of comparator texts)


def _is_literalish(node, env=None):
    """a literal, or an expression over module-level constants only (no local variable)"""
    for n in ast.walk(node):
        if isinstance(n, ast.Name):
            if env is not None and n.id in env:
                return False
            if n.id not in MODULE_NS:
                return False
            if callable(MODULE_NS[n.id]):
                return False
        elif isinstance(n, (ast.Call, ast.Attribute, ast.Subscript, ast.Lambda, ast.ListComp, ast.GeneratorExp)):
            return False
    return True


def _falls(stmts):
    """can control reach the end of this statement list?"""
    for s in stmts:
        if isinstance(s, (ast.Return, ast.Raise, ast.Continue)):
            return False
        if isinstance(s, ast.If) and s.orelse and not _falls(s.body) and not _falls(s.orelse):
            return False
    return True


def _assigned(stmts):
    out = []
    for s in stmts:
        for n in ast.walk(s):
            if isinstance(n, ast.Assign):
                for t in n.targets:
                    for e in ast.walk(t):
                        if isinstance(e, ast.Name) and e.id not in out:
                            out.append(e.id)
            if isinstance(n, ast.For):
                for e in ast.walk(n.target):
                    if isinstance(e, ast.Name) and e.id not in out:
                        out.append(e.id)
            if isinstance(n, ast.Expr) and isinstance(n.value, ast.Call) and isinstance(n.value.func, ast.Attribute) \
                    and n.value.func.attr in ("append", "pop", "add", "sort") and isinstance(n.value.func.value, ast.Name):
                if n.value.func.value.id not in out:
                    out.append(n.value.func.value.id)
    return out


def _path_to(root, target):
    """path (list of (field, index)) from root to the node `target` (identity)"""
    if root is target:
        return []
    for field, value in ast.iter_fields(root):
        if isinstance(value, ast.AST):
            p = _path_to(value, target)
            if p is not None:
                return [(field, None)] + p
        elif isinstance(value, list):
            for i, v in enumerate(value):
                if isinstance(v, ast.AST):
                    p = _path_to(v, target)
                    if p is not None:
                        return [(field, i)] + p
    return None


def _follow(root, path):
    for field, i in path:
        root = getattr(root, field) if i is None else getattr(root, field)[i]
    return root


def _replace(root, path, new):
    parent = _follow(root, path[:-1])
    field, i = path[-1]
    if i is None:
        setattr(parent, field, new)
    else:
        getattr(parent, field)[i] = new


def _var_types(fdef, params):
    """one type per local variable: the join of everything assigned to it (None joins a constraint to
    `ConOpt`, a comparator text stays a `CmpVal`, which has a None of its own)"""
    types = dict(params)
    def join(n, t):
        old = types.get(n)
        if old is None or old == t:
            types[n] = t
        elif {old, t} == {"Con", "NoneT"} or {old, t} == {"ConOpt", "NoneT"} or {old, t} == {"Con", "ConOpt"}:
            types[n] = "ConOpt"
        elif {old, t} == {"Cmp", "NoneT"}:
            types[n] = "Cmp"
        elif old == "NoneT":
            types[n] = t if t != "Con" else "ConOpt"
        elif t == "NoneT":
            pass
        else:
            types[n] = old
    def infer(v, env):
        if isinstance(v, ast.Constant) and v.value is None:
            return "NoneT"
        if isinstance(v, ast.Attribute) and v.attr == "comparator":
            return "Cmp"
        if isinstance(v, ast.Call) and isinstance(v.func, ast.Name) and v.func.id == "set" and not v.args:
            return "ConSet"
        if isinstance(v, ast.ListComp):
            return "ConList"
        if isinstance(v, ast.Name):
            return env.get(v.id)
        return None
    def elem_type(v, env):
        if isinstance(v, ast.Name):
            return env.get(v.id)
        if isinstance(v, ast.Call) and isinstance(v.func, ast.Attribute) and v.func.attr == "invert":
            return "ConOpt"
        if isinstance(v, ast.Call) and isinstance(v.func, ast.Name) and v.func.id == "VersionConstraint":
            return "Con"
        return None
    LISTOF = {"Ver": "VerList", "VerList": "VerListList", "ConOpt": "ConOptList", "Con": "ConList"}
    changed = True
    rounds = 0
    while changed and rounds < 5:
        rounds += 1
        before = dict(types)
        for n in ast.walk(fdef):
            if isinstance(n, ast.Assign):
                t = infer(n.value, types)
                if t:
                    for tg in n.targets:
                        if isinstance(tg, ast.Name):
                            join(tg.id, t)
            if isinstance(n, ast.For):
                it = n.iter
                elts = n.target.elts if isinstance(n.target, ast.Tuple) else [n.target]
                ity = types.get(it.id) if isinstance(it, ast.Name) else None
                for e in elts:
                    if isinstance(e, ast.Name):
                        if ity == "VerList":
                            types[e.id] = "Ver"
                        elif ity == "VerListList":
                            types[e.id] = "VerList"
                        elif e.id not in types or types[e.id] in ("Con", "ConOpt", "NoneT"):
                            join(e.id, "Con")
            if isinstance(n, ast.Expr) and isinstance(n.value, ast.Call) and isinstance(n.value.func, ast.Attribute) \
                    and n.value.func.attr == "append" and isinstance(n.value.func.value, ast.Name) and n.value.args:
                et = elem_type(n.value.args[0], types)
                if et in LISTOF:
                    types[n.value.func.value.id] = LISTOF[et]
            if isinstance(n, ast.Assign) and len(n.targets) == 1 and isinstance(n.targets[0], ast.Name):
                v = n.value
                if isinstance(v, ast.Call) and isinstance(v.func, ast.Name) and v.func.id == "sorted":
                    types[n.targets[0].id] = "VerList" if fdef.name == "normalize" else types.get(n.targets[0].id, "ConList")
                if isinstance(v, ast.Subscript) and isinstance(v.value, ast.Name) and types.get(v.value.id) == "VerList":
                    types[n.targets[0].id] = "Ver"
        changed = before != types
    return {k: ("ConOpt" if v == "NoneT" else v) for k, v in types.items()}


def translate_function(fdef, lean_name, params, ret, calls, class_defaults=None, src="version_constraint.py", tr_class=None):
    fn = Fn(fdef.name, lean_name, params, ret, calls)
    tr = (tr_class or Tr)(fn)
    tr.class_defaults = class_defaults or {}
    tr.var_types = _var_types(fdef, params)
    # variables that an `if/else` assigns None in one branch and a value in the other: the value is wrapped in `some`
    tr.optional_after = {}
    for n in ast.walk(fdef):
        if isinstance(n, ast.If) and n.orelse:
            def assigned_none(stmts):
                return {t.id for st in stmts if isinstance(st, ast.Assign) and isinstance(st.value, ast.Constant) and st.value.value is None
                        for t in st.targets if isinstance(t, ast.Name)}
            def assigned_val(stmts):
                return {t.id for st in stmts if isinstance(st, ast.Assign) and not (isinstance(st.value, ast.Constant) and st.value.value is None)
                        for t in st.targets if isinstance(t, ast.Name)}
            for v in (assigned_none(n.body) & assigned_val(n.orelse)) | (assigned_none(n.orelse) & assigned_val(n.body)):
                tr.optional_after[v] = True
    tr.rho = LEAN_TYPE[ret]
    tr.depth = 0
    env = dict(params)
    body = tr.block(fdef.body, env, lambda e: ".error .TypeError  -- falls off the end (returns None)")
    sig = "".join(" (%s : %s)" % (n, LEAN_TYPE[t]) for n, t in params)
    text = "".join(t + "\n" for t in fn.tables) + "".join(d + "\n" for d in fn.defs)
    text += ("/-- `%s` of univers/" + src + ", translated -/\ndef %s %s%s : Except %s (%s) :=\n%s\n") % (
        fdef.name, lean_name, tr.hdr, sig, tr.err, LEAN_TYPE[ret], _ind(body))
    return text


def _find(tree, name, cls=None):
    scope = tree.body
    if cls:
        scope = next(n for n in tree.body if isinstance(n, ast.ClassDef) and n.name == cls).body
    return next(n for n in scope if isinstance(n, ast.FunctionDef) and n.name == name)


HEADER = """/- GENERATED by harness/translate_layerb.py from /repo/src/univers/version_constraint.py — do not edit -/
import Univers.Vers.PyRt
set_option linter.unusedVariables false
namespace Univers.Gen.LayerB
open Univers Univers.PyRt

"""

CON_CONTAINS = ("/-- `VersionConstraint.__contains__` (the class guard is C14's business): `comp_operator(version, self.version)` -/\n"
                "def con_contains {V} (o : VOps V) (perm : List (Con V) → List (Con V)) (self : Con V) (version : V) : Except Err Bool := .ok (self.sat o version)\n\n")

# (source file, python function, class or None, generated file, lean name, parameters, result type, imports)
VC, VRG = "version_constraint.py", "version_range.py"
JOBS = [
    (VC, "contains_version", None, "PyContainsVersion", "contains_version", [("version", "Ver"), ("constraints", "ConList")], "Bool", []),
    (VC, "validate_comparators", None, "PyValidateComparators", "validate_comparators", [("constraints", "ConList")], "Bool", []),
    (VC, "deduplicate", None, "PyDeduplicate", "deduplicate", [("constraints", "ConList")], "ConList", []),
    (VC, "simplify_constraints", None, "PySimplifyConstraints", "simplify_constraints", [("constraints", "ConList")], "ConList", []),
    (VC, "is_star", "VersionConstraint", "PyConIsStar", "con_is_star", [("self", "Con")], "Bool", []),
    (VC, "invert", "VersionConstraint", "PyConInvert", "con_invert", [("self", "Con")], "ConOpt", ["PyConIsStar"]),
    (VC, "validate", "VersionConstraint", "PyConValidate", "con_validate", [("constraints", "ConList")], "Bool", ["PyValidateComparators"]),
    (VC, "simplify", "VersionConstraint", "PyConSimplify", "con_simplify", [("constraints", "ConList")], "ConList",
     ["PyDeduplicate", "PySimplifyConstraints"]),
    (VRG, "is_star", "VersionRange", "PyRangeIsStar", "range_is_star", [("self", "Range")], "Bool", ["PyConIsStar"]),
    (VRG, "invert", "VersionRange", "PyRangeInvert", "range_invert", [("self", "Range")], "RangeOpt", ["PyRangeIsStar", "PyConInvert"]),
    (VRG, "__contains__", "VersionRange", "PyRangeContains", "range_contains", [("self", "Range"), ("version", "Ver")], "Bool",
     ["PyContainsVersion"]),
    (VRG, "from_versions", "VersionRange", "PyRangeFromVersions", "range_from_versions", [("cls", "RangeClass"), ("sequence", "VerList")],
     "Range", []),
    (VRG, "normalize", "VersionRange", "PyRangeNormalize", "range_normalize", [("self", "Range"), ("known_versions", "VerList")], "Range",
     ["PyRangeContains"]),
]

# callee python name (or (name, type of the receiver)) -> (lean name, result type, takes perm)
CALLS = {
    "__contains__": ("con_contains", "Bool", True),
    ("__contains__", "Range"): ("range_contains", "Bool", True),
    "contains_version": ("contains_version", "Bool", True),
    "validate_comparators": ("validate_comparators", "Bool", True),
    "deduplicate": ("deduplicate", "ConList", True),
    "simplify_constraints": ("simplify_constraints", "ConList", True),
    "is_star": ("con_is_star", "Bool", True),
    ("is_star", "Range"): ("range_is_star", "Bool", True),
    "invert": ("con_invert", "ConOpt", True),
}


def _class_defaults(tree, cls):
    """defaults of the attr.ib fields of a class: {field: default literal}"""
    out = {}
    for n in tree.body:
        if isinstance(n, ast.ClassDef) and n.name == cls:
            for st in n.body:
                if isinstance(st, ast.Assign) and len(st.targets) == 1 and isinstance(st.targets[0], ast.Name) \
                        and isinstance(st.value, ast.Call):
                    for kw in st.value.keywords:
                        if kw.arg == "default" and isinstance(kw.value, ast.Constant):
                            out[st.targets[0].id] = kw.value.value
    return out


def generate(src_path):
    """{file name: Lean text}, {python function: status}; one generated file per function, so that a function the
    translator cannot read (or that changed) leaves the agreement theorems of the others alone.  `src_path` is
    version_constraint.py; version_range.py is read from the same directory."""
    import os
    src_dir = os.path.dirname(src_path)
    trees = {VC: ast.parse(open(src_path).read())}
    try:
        trees[VRG] = ast.parse(open(os.path.join(src_dir, VRG)).read())
    except OSError:
        pass
    files, status = {}, {}
    MODULE_NS.clear()
    try:
        # module-level constants, from the module itself (the harness imports univers from the tree under test)
        import importlib.util
        spec = importlib.util.spec_from_file_location("_vc_under_translation", src_path)
        mod = importlib.util.module_from_spec(spec)
        spec.loader.exec_module(mod)
        for k, v in vars(mod).items():
            if isinstance(v, (str, tuple, frozenset, list, set)) and not k.startswith("__"):
                MODULE_NS[k] = v
    except Exception:  # noqa: BLE001
        pass
    defaults = _class_defaults(trees[VC], "VersionConstraint")
    for src, pyname, cls, fname, lean, params, ret, imports in JOBS:
        out = [HEADER.replace("import Univers.Vers.PyRt\n", "import Univers.Vers.PyRt\n" + "".join("import Univers.Gen.%s\n" % i for i in imports))
               .replace("version_constraint.py", src)]
        if pyname == "contains_version":
            # the isinstance guard of VersionConstraint.__contains__ is vacuous in the typed model (one version class);
            # `self.comp_operator(version, self.version)` is COMPARATORS[self.comparator] applied, i.e. `Con.sat`
            out.append(CON_CONTAINS)
        key = (cls + "." if cls else "") + pyname
        try:
            if src not in trees:
                raise Unsupported("source file not found")
            out.append(translate_function(_find(trees[src], pyname, cls), lean, params, ret, CALLS, defaults, src))
            status[key] = "translated"
        except (Unsupported, StopIteration) as e:
            out.append("-- `%s` could not be translated: %s\n\n" % (pyname, e or "not found"))
            status[key] = "unsupported: %s" % (e or "function not found")
        out.append("end Univers.Gen.LayerB\n")
        files[fname + ".lean"] = "".join(out)
    return files, status


if __name__ == "__main__":
    import sys
    files, status = generate(sys.argv[1] if len(sys.argv) > 1 else "/repo/src/univers/version_constraint.py")
    for k, v in files.items():
        sys.stdout.write("-- ==== %s\n%s" % (k, v))
    sys.stderr.write(repr(status) + "\n")
