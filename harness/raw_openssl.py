"""raw three-way result: the two hand-written operators `__lt__` / `__gt__` of the version class"""


def sign(A, B):
    if A < B:
        return -1
    if A > B:
        return 1
    return 0
