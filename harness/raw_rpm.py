"""raw three-way result of the rpm scheme's comparison routine (see harness/scheme_corr.py)"""
from univers import rpm


def sign(A, B):
    return rpm.compare_rpm_versions(A.value, B.value)
