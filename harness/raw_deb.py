"""raw three-way result of the Debian comparison routine on two `univers.versions.DebianVersion`"""
from univers import debian


def sign(A, B):
    return debian.compare_versions(A.value, B.value)
