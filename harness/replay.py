"""
./check replay <path>: replay one recorded violation against /repo's current working tree.

Every random choice of a check derives from (seed, property, stream), so the run that produced the record is
re-run with the recorded seed and tier (evidence and replay files go to a scratch directory); the violation is
reproduced when the same key fails again.  A record that carries a `python` one-liner is also executed directly
on the real code first, for the reader.  Exit 1 + VIOLATION line when reproduced, 0 when the current tree no
longer fails on it, 2 on a tooling problem.
"""
import json
import os
import shutil
import subprocess
import sys
import tempfile

from harness import common


def main(argv):
    if not argv:
        print("usage: check replay <path>")
        return 2
    path = argv[0]
    try:
        d = json.load(open(path))
    except Exception as e:  # noqa: BLE001
        print("cannot read %s: %s" % (path, e), file=sys.stderr)
        return 2
    pid, key = d.get("property"), d.get("key")
    seed, tier = d.get("seed", 0), d.get("tier", "quick")
    print("replay of %s: property=%s seed=%s tier=%s" % (path, pid, seed, tier))
    for k in ("stream", "line", "scheme", "constraints", "version", "text", "native", "variant", "history", "clause", "impl", "model", "spec"):
        if k in d:
            print("  %-12s %s" % (k, common.short(d[k], 400)))
    if d.get("python"):
        env = dict(os.environ, PYTHONPATH=str(common.SRC))
        p = subprocess.run(["/venv/bin/python", "-c", d["python"]], stdout=subprocess.PIPE, stderr=subprocess.STDOUT, text=True,
                           env=env, timeout=600)
        print("  on the real code: %s" % d["python"])
        print("  -> " + (p.stdout.strip()[-800:] or "(no output)"))
    tmp = tempfile.mkdtemp(prefix="verif_replay_")
    try:
        env = dict(os.environ, VERIF_SEED=str(seed), VERIF_EVIDENCE_DIR=tmp + "/evidence", VERIF_REPLAYS_DIR=tmp + "/replays")
        p = subprocess.run([str(common.VERIF / "check"), str(pid), "--tier", str(tier)], stdout=subprocess.PIPE, stderr=subprocess.PIPE,
                           text=True, env=env, cwd=str(common.VERIF))
        if p.returncode not in (0, 1):
            print(p.stderr[-1500:], file=sys.stderr)
            return 2
        again = None
        for line in p.stdout.splitlines():
            if line.startswith("VIOLATION") and "replay=" in line:
                rp = line.split("replay=")[1].split()[0]
                try:
                    r = json.load(open(rp))
                except Exception:  # noqa: BLE001
                    continue
                if r.get("key") == key:
                    again = r
        if again is not None:
            print("reproduced: %s" % common.short(again.get("clause") or again.get("impl") or "", 400))
            print("VIOLATION property=%s replay=%s%s" % (pid, path, "" if again.get("found_failing_input") else " no-failing-input-found"))
            return 1
        print("not reproduced on the current tree (the recorded key does not fail with seed %s, tier %s)" % (seed, tier))
        return 0
    finally:
        shutil.rmtree(tmp, ignore_errors=True)
