"""
Ranked pools: versions of one scheme arranged into strictly increasing equivalence classes
according to the REAL operators, keeping only members on which the six operators (and the
hash) are mutually consistent.  Layer-B checks talk to the model in terms of ranks, so they
do not depend on which lawful order a scheme implements (DESIGN §5.3).
"""
import operator

from harness import schemes as S

OPS = {"lt": operator.lt, "le": operator.le, "gt": operator.gt, "ge": operator.ge,
       "eq": operator.eq, "ne": operator.ne}


def _expected(sign):
    return {"lt": sign < 0, "le": sign <= 0, "gt": sign > 0, "ge": sign >= 0,
            "eq": sign == 0, "ne": sign != 0}


def consistent(a, b, sign, need_hash=True):
    """all six operators, both operand orders, agree with `sign` (a vs b); hashes agree on eq"""
    try:
        exp = _expected(sign)
        for k, f in OPS.items():
            if bool(f(a, b)) != exp[k]:
                return False
        exp = _expected(-sign)
        for k, f in OPS.items():
            if bool(f(b, a)) != exp[k]:
                return False
    except TypeError:
        return False
    if sign == 0 and need_hash:
        try:
            if hash(a) != hash(b):
                return False
        except TypeError:
            pass            # unhashable: reported by C12, not a Layer-B matter
    return True


class Pool:
    def __init__(self, name, need_hash=True):
        self.name = name
        self.need_hash = need_hash
        self.classes = []       # list of lists of (text, version), strictly increasing
        self.rejected = []      # (text, reason)
        self.unrankable = []    # (text, version, other text, other version): the six real operators contradict each other
        self.cycles = []        # (text, v, other text, other, [(text, version) of the classes next to where `<` located v]):
                                # each pair is ranked consistently, the three together are not (a < r < b < a)
        self.hashable = True

    def insert(self, text, v):
        # locate by the real `<` / `==`
        try:
            hash(v)
        except TypeError:
            self.hashable = False
        pos = None
        same = None
        for i, cl in enumerate(self.classes):
            rep = cl[0][1]
            try:
                if v == rep and not (v < rep) and not (v > rep):
                    same = i
                    break
                if v < rep:
                    pos = i
                    break
            except TypeError:
                self.rejected.append((text, "typeerror"))
                return False
        if same is None and pos is None:
            pos = len(self.classes)
        # verify against every member
        for i, cl in enumerate(self.classes):
            if same is not None:
                sign = -1 if same < i else (1 if same > i else 0)
            else:
                sign = -1 if pos <= i else 1
            for wt, w in cl:
                if not consistent(v, w, sign, self.need_hash):
                    self.rejected.append((text, "inconsistent"))
                    if not consistent(v, w, sign, False):
                        self.unrankable.append((text, v, wt, w))
                        near = []
                        if same is not None:
                            near.append(self.classes[same][0])
                        else:
                            if pos < len(self.classes):
                                near.append(self.classes[pos][0])
                            if pos > 0:
                                near.append(self.classes[pos - 1][0])
                        near = [z for z in near if z[1] is not w]
                        if near:
                            self.cycles.append((text, v, wt, w, near))
                    return False
        if same is not None:
            if all(t != text for t, _ in self.classes[same]):
                self.classes[same].append((text, v))
        else:
            self.classes.insert(pos, [(text, v)])
        return True

    def n(self):
        return len(self.classes)

    def rep(self, i, rng=None):
        cl = self.classes[i]
        return cl[0] if rng is None else rng.choice(cl)


def zero_pad(s, rng):
    """a digit run that is exactly "0" written "00" (the padding of a zero is the edge of every "strip the leading
    zeros" rule)"""
    import re
    runs = [m.span() for m in re.finditer(r"[0-9]+", s) if m.group(0) == "0"]
    if not runs:
        return s
    i, j = rng.choice(runs)
    return s[:i] + "00" + s[j:]


def letter_variant(s, rng):
    idx = [i for i, ch in enumerate(s) if ch.isalpha() and ch.isascii()]
    if idx:
        i = rng.choice(idx)
        ch = s[i]
        nxt = {"z": "y", "Z": "Y"}.get(ch, chr(ord(ch) + 1))
        return s[:i] + nxt + s[i + 1:]
    return s + rng.choice(["a", "b", "rc1", "beta1"])


VOCAB = {
    "ebuild": ["_alpha", "_beta", "_pre", "_rc", "_p"], "alpine": ["_alpha", "_beta", "_pre", "_rc", "_p"],
    "maven": ["alpha", "beta", "milestone", "rc", "snapshot", "ga", "final", "sp", "cr"],
    "nuget": ["alpha", "beta", "rc", "cr", "final", "ga"],
    "pypi": ["a", "b", "rc", ".post", ".dev"], "gem": ["a", "b", "rc", "pre", "beta"],
    "openssl": ["-alpha", "-beta", "-pre"], "legacy_openssl": ["-alpha", "-beta", "-pre"],
    "semver": ["alpha", "beta", "rc"], "golang": ["alpha", "beta", "rc", "incompatible", "build"],
    "composer": ["alpha", "beta", "RC", "rc", "patch", "pl", "p", "dev", "stable"], "nginx": ["alpha", "beta", "rc"],
    "conan": ["alpha", "beta", "rc", "pre"], "deb": ["~rc", "~beta", "+dfsg", "+b", "ubuntu"], "rpm": ["~rc", "^git", ".el", ".fc"],
    "alpm": ["rc", "beta", "a", "b"],
}


def word_neighbours(name, s, rng):
    """the same version with one qualifier word replaced by another word of the scheme's vocabulary (1.0_alpha1 /
    1.0_rc1), and with the qualifier (and what follows it) cut off (1.1.0-beta1 / 1.1.0)"""
    import re
    words = VOCAB.get(name)
    if not words:
        return []
    out = []
    alts = sorted(words, key=len, reverse=True)
    m = None
    for w in alts:
        for mm in re.finditer(re.escape(w), s, flags=re.I):
            # a word, not a piece of a longer word
            if not (mm.start() > 0 and s[mm.start() - 1].isalpha() and w[0].isalpha()) and \
                    not (mm.end() < len(s) and s[mm.end()].isalpha()):
                m = mm
                break
        if m:
            break
    if not m:
        return []
    others = [w for w in words if w != m.group(0)]
    for w in rng.sample(others, min(2, len(others))):
        out.append(s[:m.start()] + w + s[m.end():])
    cut = s[:m.start()].rstrip("-._~+^")
    if cut:
        out.append(cut)
    return out


TAILS = {
    "ebuild": ["_p", "_p0", "_p_alpha1", "-r0", "-r1", "-r01", "-r007", "_pre1", "_rc1", "_p1_pre1", "_p1_rc1"],
    "alpine": ["_p", "_p0", "_p_alpha1", "-r0", "-r1", "-r01", "_pre1", "_rc1"],
    "rpm": ["~rc1", "^git1", "^20200101", "-1", "-2", "~", "^"],
    "deb": ["~rc1", "-1", "-01", "a", "a0", "~rc0", "~rc", "-0ubuntu", "-0ubuntu0", "A", "+", "-1-0", "-0", "-1-1"],
    "nuget": [".1234", ".1234-rc1", ".1234-beta", "-rc1", ".257", ".257-rc1", ".300-a"],
    "alpm": ["-1", "-2", ".0", "a", "rc1"],
    "openssl": ["a", "b", "ab", "ba", "ac", "za", "z"], "legacy_openssl": ["a", "b", "ab", "ba", "ac", "za", "z"],
    "maven": ["-ga", "-final", "-beta-ga", "-rc1-final", "-beta", "-rc1", "-RC1", "-SNAPSHOT", "-snapshot"],
    "gem": ["-rc-2", "-1-2", ".pre.rc.pre.2", "-rc.1", "-rc1", "-rc", "-1", "-2.b"],
    "semver": ["+build-1", "+build.1", "-rc.1", "+exp.sha-5114f85", "+exp-sha"],
    "golang": ["+incompatible", "+build-1", "+build.1", "-rc.1"], "composer": ["+build-1", "+build.1", "-rc.1"],
    "nginx": ["+build-1", "+build.1"], "conan": ["-rc-2", "-rc", "+b-1", "+b.1"],
    "pypi": ["-1", ".post1", "+local", "+ubuntu.1", ".1"],
}
PREFIXES = {"alpm": [":", "0:", "00:"], "rpm": ["v", "vv", "0:"], "maven": ["v", "vv", "Vv"], "conan": ["v", "vv"],
            "ebuild": ["0"], "deb": ["0:"]}


def tail_neighbours(name, s, rng):
    """the same base with other short endings of the scheme (1.0 / 1.0_p / 1.0_p0 / 1.0-r1; 2.1.0.1234 / 2.1.0.1234-rc1;
    1.0.2b / 1.0.2ab) and with a short prefix (an empty epoch, a doubled `v`): versions that one line of a comparison
    routine tells apart"""
    import re
    tails = TAILS.get(name, [])
    out = []
    m = re.search(r"[-+~_^]", s.split(":")[-1])
    base = s if not m else s[:len(s) - len(s.split(":")[-1]) + m.start()]
    if name in ("openssl", "legacy_openssl"):
        base = s.rstrip("abcdefghijklmnopqrstuvwxyz")
    for t in rng.sample(tails, min(3, len(tails))):
        out.append(base + t)
        if rng.random() < 0.3:
            out.append(s + t)
    if base and base != s:
        out.append(base)
    if name == "rpm" and rng.random() < 0.6:
        # before the release, the release, after it: one base with `~`, plain, and with `^`
        out += [base + "~rc1", base, base + "^git1"]
    pres = PREFIXES.get(name, [])
    if pres and rng.random() < 0.7:
        # two of them, so that the prefixed spellings also meet each other (`:1.0` / `0:1.0`)
        for pre in pres[:1] + rng.sample(pres[1:], min(1, len(pres) - 1)):
            out.append(pre + s.split(":")[-1] if pre.endswith(":") else pre + s)
    return [t for t in out if t != s]


def cut_tails(s):
    """what is left when the text is cut at its last separator, and at the last separator before a letter
    (1.1.0-beta1 / 1.1.0, 1.0_p1-r2 / 1.0_p1, 2.0.0+build / 2.0.0)"""
    import re
    out = []
    for m in list(re.finditer(r"[-+~_^]", s))[-2:]:
        t = s[:m.start()]
        if t and t not in out and t != s:
            out.append(t)
    return out


def build_pool(name, rng, size=40, respell=0.3, need_hash=True):
    p = Pool(name, need_hash)
    tries = 0
    while p.n() < size and tries < size * 6:
        tries += 1
        try:
            s, v = S.gen_valid(name, rng)
        except RuntimeError:
            break
        p.insert(s, v)
        if rng.random() < 0.3:
            # a neighbour that differs in letters only (schemes may hash by the digits alone: unequal versions
            # with equal hashes are legal and must not be confused by anything that remembers a hash)
            s3 = letter_variant(s, rng)
            try:
                p.insert(s3, S.make(name, s3))
            except Exception:  # noqa: BLE001
                pass
        if rng.random() < 0.5:
            # the same text with the case of one letter changed (another version where case matters, another
            # spelling where it does not: either way nothing may confuse the two by folding case)
            idx = [i for i, ch in enumerate(s) if ch.isalpha() and ch.isascii()]
            if idx:
                i = rng.choice(idx)
                s4 = s[:i] + s[i].swapcase() + s[i + 1:]
                try:
                    p.insert(s4, S.make(name, s4))
                except Exception:  # noqa: BLE001
                    pass
        if rng.random() < 0.5:
            # near-equal neighbours: another spelling of the same version with one numeric field moved by a little, and
            # with its LAST number moved by two or three (where the operators of a scheme contradict each other, it is
            # between versions like these: a three-way result read as -1/0/1 by one operator and by sign by another)
            import re
            try:
                from harness.scheme_corr import bump_number
                t = S.RESPELL[name](s, rng)
                cands = [bump_number(t, rng)]
                runs = [m.span() for m in re.finditer(r"[0-9]+", t)]
                if runs and runs[-1][1] - runs[-1][0] < 10:
                    i, j = runs[-1]
                    cands.append(t[:i] + str(int(t[i:j]) + rng.choice([2, 3])) + t[j:])
                for s5 in cands:
                    if s5 != s:
                        try:
                            p.insert(s5, S.make(name, s5))
                        except Exception:  # noqa: BLE001
                            pass
            except Exception:  # noqa: BLE001
                pass
        if rng.random() < 0.4:
            # a digit run written with a leading zero (equal where the scheme reads a number, another version where it
            # reads text: either way the two must be ranked consistently)
            import re
            runs = [m.start() for m in re.finditer(r"[0-9]+", s)]
            if runs:
                i = rng.choice(runs[-2:] if rng.random() < 0.6 else runs)
                s7 = s[:i] + "0" + s[i:]
                try:
                    p.insert(s7, S.make(name, s7))
                except Exception:  # noqa: BLE001
                    pass
        for s6 in word_neighbours(name, s, rng) + (cut_tails(s) if rng.random() < 0.4 else []) \
                + (tail_neighbours(name, s, rng) if rng.random() < 0.4 else []):
            try:
                p.insert(s6, S.make(name, s6))
            except Exception:  # noqa: BLE001
                pass
        if rng.random() < respell:
            # other spellings of the SAME version (up to two), found among a few respellings; a respelling that
            # turns out to be another version is inserted as such
            alts = 0
            for attempt in range(9):
                try:
                    s2 = zero_pad(s, rng) if attempt == 0 else S.RESPELL[name](s, rng)
                    v2 = S.make(name, s2)
                except Exception:  # noqa: BLE001
                    continue
                if s2 == s:
                    continue
                try:
                    same = bool(v2 == v)
                except Exception:  # noqa: BLE001
                    same = False
                if same and alts < 2:
                    if p.insert(s2, v2):
                        alts += 1
                elif not same and rng.random() < 0.15:
                    p.insert(s2, v2)
                if alts >= 2:
                    break
    # top-up: the neighbours above take room in the pool; at least a third of its classes (up to `size`/3) get a second
    # spelling of the same version if the scheme has one (what `=`, hashing and de-duplication must treat as one)
    want = max(2, min(size, p.n()) // 3)
    have = sum(1 for cl in p.classes if len(cl) >= 2)
    order = list(range(p.n()))
    rng.shuffle(order)
    for i in order:
        if have >= want:
            break
        if i >= p.n() or len(p.classes[i]) >= 2:
            continue
        s0, v0 = p.classes[i][0]
        for attempt in range(6):
            try:
                s2 = zero_pad(s0, rng) if attempt == 0 else S.RESPELL[name](s0, rng)
                if s2 == s0:
                    continue
                v2 = S.make(name, s2)
                if bool(v2 == v0) and p.insert(s2, v2) and len(p.classes[min(i, p.n() - 1)]) >= 2:
                    have += 1
                    break
            except Exception:  # noqa: BLE001
                continue
    return p
