"""
Layer-C correspondence for the advisory notations and the simple relation converters:
the real functions of `univers/version_range.py` against the Lean model
`Univers/Text/Advisory.lean`, through the driver lines

    advisory github <scheme> <hexes>          build_range_from_github_advisory_constraint
    advisory snyk   <scheme> <hexes>          build_range_from_snyk_advisory_string
    advisory gitlab <gitlab_scheme> <hex>     from_gitlab_native
    native deb <hexes> | native rpm <hexes>   <Class>.from_natives
    native openssl <hex> | native nginx <hex> <Class>.from_native

`<hexes>`: the `string_or_list` argument, hex fields joined by `;` (`[]` = the empty list; a
single string and the one-element list are sent both ways on the Python side).
Answers: `ok:<items>` | `err:<ExcClassName>`; items are compared as multisets (the range
constructor sorts).

Version classes for which the driver has no Layer-A model (`advisory stubs`) are replaced, on
the Python side and for the duration of the run, by the base class `univers.versions.Version`
(which is what the driver's stub models), so that the TEXT layer is compared exactly for every
scheme.  An exception raised by the `sorted()` of the range constructor (outside the model: the
model's result is the list before sorting) is counted apart and reported, not compared.

Usage:  /venv/bin/python -m harness.corr_advisory [--n N] [--seed S] [--umodel PATH]
Exit status 0 = no disagreement.
"""
import argparse
import subprocess
import sys
import traceback

from harness import common, schemes as S
from harness.common import hx

from univers import versions as V
from univers import version_range as R

GEN_BY_VCLASS = {
    "SemverVersion": "semver", "GolangVersion": "golang", "ComposerVersion": "composer",
    "NginxVersion": "nginx", "PypiVersion": "pypi", "DebianVersion": "deb", "RpmVersion": "rpm",
    "MavenVersion": "maven", "NugetVersion": "nuget", "RubygemsVersion": "gem",
    "GentooVersion": "ebuild", "ArchLinuxVersion": "alpm", "ConanVersion": "conan",
    "OpensslVersion": "openssl", "AlpineLinuxVersion": "alpine",
}
TAG = {">=": "ge", "<=": "le", "!=": "ne", "<": "lt", ">": "gt", "=": "eq"}
DELEGATED = ("conan", "maven", "nuget")
WS = [" ", " ", " ", "  ", "\t", "\n", " \t"]


# ----------------------------------------------------------------------------- the real side

def canon(rng_obj):
    items = []
    for c in rng_obj.constraints:
        if c.comparator == "*":
            items.append("star")
        else:
            items.append("%s:%s" % (TAG[c.comparator], hx(str(c.version))))
    return "ok:" + (",".join(sorted(items)) if items else "-")


def in_sort(tb):
    for fr in traceback.extract_tb(tb):
        if fr.name == "__attrs_post_init__" and fr.filename.endswith("version_range.py"):
            return True
    return False


def real(kind, scheme, arg):
    """arg: a string or a list of strings"""
    try:
        if kind == "github":
            r = R.build_range_from_github_advisory_constraint(scheme, arg)
        elif kind == "snyk":
            r = R.build_range_from_snyk_advisory_string(scheme, arg)
        elif kind == "gitlab":
            purl = scheme
            if purl not in R.PURL_TYPE_BY_GITLAB_SCHEME.values():
                purl = R.PURL_TYPE_BY_GITLAB_SCHEME.get(scheme, None)
            if purl in DELEGATED:
                return "err:Delegated"
            r = R.from_gitlab_native(scheme, arg)
        elif kind == "deb":
            r = R.DebianVersionRange.from_natives(arg)
        elif kind == "rpm":
            r = R.RpmVersionRange.from_natives(arg)
        elif kind == "openssl":
            r = R.OpensslVersionRange.from_native(arg)
        elif kind == "nginx":
            r = R.NginxVersionRange.from_native(arg)
        else:
            raise common.Tooling("unknown kind %r" % kind)
    except RecursionError:
        return "err:RecursionError"
    except Exception as e:  # noqa: BLE001
        if in_sort(e.__traceback__):
            return "sort-err:" + type(e).__name__
        return "err:" + type(e).__name__
    return canon(r)


def canon_model(ans):
    if ans.startswith("ok:") and ans != "ok:-":
        return "ok:" + ",".join(sorted(ans[3:].split(",")))
    return ans


class StubPatch:
    """replace the version class of every range class whose version class is served by the
    driver's stub with the base class `Version`"""

    def __init__(self, stubs):
        self.stubs = set(stubs)
        self.saved = []

    def __enter__(self):
        seen = set()
        todo = [R.VersionRange]
        while todo:
            c = todo.pop()
            if c in seen:
                continue
            seen.add(c)
            todo.extend(c.__subclasses__())
            vc = c.__dict__.get("version_class")
            if vc is not None and vc.__name__ in self.stubs:
                self.saved.append((c, vc))
                c.version_class = V.Version
        return self

    def __exit__(self, *a):
        for c, vc in self.saved:
            c.version_class = vc
        return False


# ----------------------------------------------------------------------------- generators

def pick(rng, xs):
    return xs[rng.randrange(len(xs))]


def sp(rng, p=0.5):
    return pick(rng, WS) if rng.random() < p else ""


def vclass_of_scheme(scheme):
    rc = R.RANGE_CLASS_BY_SCHEMES.get(scheme)
    if rc is None:
        return None
    return ORIG_VC.get(rc, rc.version_class)


ORIG_VC = {}


def gen_version(rng, scheme):
    """a (mostly valid) version text of the scheme"""
    vc = vclass_of_scheme(scheme)
    name = GEN_BY_VCLASS.get(vc.__name__ if vc else "", "semver")
    r = rng.random()
    if r < 0.06:
        return pick(rng, ["", "*", "x", "1.x", "latest", "v", "1..2", "-", "+", "1.0]", "(1.0", "=1", "<2", ">", "!1"])
    if r < 0.30:
        return "%d.%d.%d" % (rng.randrange(4), rng.randrange(12), rng.randrange(4))
    if r < 0.36:
        return "%d.%d" % (rng.randrange(4), rng.randrange(12))
    try:
        s = S.GEN[name](rng)
    except Exception:  # noqa: BLE001
        s = "1.2.3"
    if rng.random() < 0.1:
        s = "v" + s
    return s


def mutate(rng, s, alphabet):
    if not s:
        return pick(rng, ["", " ", ",", "||"])
    k = rng.randrange(6)
    i = rng.randrange(len(s))
    if k == 0:
        return s[:i] + s[i + 1:]
    if k == 1:
        return s[:i] + s[i] + s[i:]
    if k == 2:
        return s[:i] + pick(rng, alphabet) + s[i:]
    if k == 3 and len(s) > 1:
        i = rng.randrange(len(s) - 1)
        return s[:i] + s[i + 1] + s[i] + s[i + 2:]
    if k == 4:
        return s[:i] + pick(rng, alphabet) + s[i + 1:]
    return s[:i] + pick(rng, [" ", "\t"]) + s[i:]


ALPHA = list("<>=!~^,|()[] +-*\t.01v") + ["||", "==", "<>", "~=", "==="]

REG_SCHEMES = list(R.RANGE_CLASS_BY_SCHEMES)
BAD_SCHEMES = ["nope", "alpine", "GEM", "go", "packagist", "vers"]


def pick_scheme(rng, pool=None):
    if rng.random() < 0.03:
        return pick(rng, BAD_SCHEMES)
    return pick(rng, pool or REG_SCHEMES)


def gen_cmp_item(rng, scheme, keys, foreign, glue_ws=True):
    r = rng.random()
    if r < 0.05:
        c = pick(rng, foreign)
    else:
        c = pick(rng, keys)
    v = gen_version(rng, scheme)
    if glue_ws:
        return sp(rng, 0.3) + c + sp(rng, 0.5) + v + sp(rng, 0.2)
    return c + v


def gen_github(rng):
    scheme = pick_scheme(rng)
    keys = list(R.vers_by_github_native_comparators)
    foreign = ["==", "~>", "^", "<>", "=>", "", "~", "*", "=<"]
    strings = []
    for _ in range(pick(rng, [1, 1, 1, 2, 3])):
        n = pick(rng, [1, 1, 2, 2, 3])
        items = [gen_cmp_item(rng, scheme, keys, foreign) for _ in range(n)]
        strings.append(pick(rng, [",", ", ", " ,"]).join(items))
    if rng.random() < 0.03:
        strings = []
    if rng.random() < 0.2 and strings:
        i = rng.randrange(len(strings))
        strings[i] = mutate(rng, strings[i], ALPHA)
    return ("github", scheme, strings)


def gen_snyk(rng):
    scheme = pick_scheme(rng)
    keys = list(R.vers_by_snyk_native_comparators)
    foreign = ["~>", "^", "<>", "=>", "", "~", "*", "==="]
    strings = []
    for _ in range(pick(rng, [1, 1, 1, 2, 3])):
        form = pick(rng, ["comma", "space", "bracket", "bracket", "mixed"])
        n = pick(rng, [1, 2, 2, 3])
        if form == "comma":
            items = [gen_cmp_item(rng, scheme, keys, foreign) for _ in range(n)]
            s = pick(rng, [",", ", ", " ,"]).join(items)
        elif form == "space":
            items = [gen_cmp_item(rng, scheme, keys, foreign, glue_ws=False) for _ in range(n)]
            s = sp(rng, 0.2) + pick(rng, [" ", " ", " ", "  ", "\t"]).join(items) + sp(rng, 0.2)
        elif form == "bracket":
            lo = gen_version(rng, scheme) if rng.random() < 0.75 else ""
            hi = gen_version(rng, scheme) if rng.random() < 0.75 else ""
            s = (pick(rng, ["[", "(", "[", "(", "", "]"]) + sp(rng, 0.2) + lo + sp(rng, 0.2)
                 + pick(rng, [",", ",", ", ", " ", ""]) + hi + sp(rng, 0.2)
                 + pick(rng, ["]", ")", "]", ")", "", "("]))
        else:
            items = []
            for _ in range(n):
                if rng.random() < 0.5:
                    items.append(gen_cmp_item(rng, scheme, keys, foreign, glue_ws=False))
                elif rng.random() < 0.5:
                    items.append(pick(rng, "[(") + gen_version(rng, scheme))
                else:
                    items.append(gen_version(rng, scheme) + pick(rng, "])"))
            s = pick(rng, [",", " ", ", "]).join(items)
        strings.append(s)
    if rng.random() < 0.03:
        strings = []
    if rng.random() < 0.2 and strings:
        i = rng.randrange(len(strings))
        strings[i] = mutate(rng, strings[i], ALPHA)
    return ("snyk", scheme, strings)


GITLAB_SCHEMES = list(R.PURL_TYPE_BY_GITLAB_SCHEME) + list(R.PURL_TYPE_BY_GITLAB_SCHEME.values())


def gen_gitlab(rng):
    if rng.random() < 0.03:
        gs = pick(rng, ["nope", "deb", "rpm", "generic", "PyPI"])
    else:
        gs = pick(rng, GITLAB_SCHEMES)
        if gs in DELEGATED and rng.random() < 0.8:
            gs = pick(rng, ["gem", "go", "npm", "pypi", "packagist", "golang", "composer"])
    purl = gs if gs in R.PURL_TYPE_BY_GITLAB_SCHEME.values() else R.PURL_TYPE_BY_GITLAB_SCHEME.get(gs)
    rc = R.RANGE_CLASS_BY_SCHEMES.get(purl)
    keys = list(getattr(rc, "vers_by_native_comparators", {"=": "=", "<": "<", ">": ">", "<=": "<=", ">=": ">="}))
    foreign = ["~>", "^", "<>", "=>", "~", "*", "!=", "==", "===", "~="]
    if purl == "pypi":
        sep = ","
    elif purl == "composer":
        sep = pick(rng, [" ", " ", ","])
    else:
        sep = " " if rng.random() < 0.93 else ","
    alts = []
    for _ in range(pick(rng, [1, 1, 2, 3])):
        toks = []
        for _ in range(pick(rng, [1, 2, 2, 3])):
            c = pick(rng, foreign) if rng.random() < 0.06 else pick(rng, keys)
            v = gen_version(rng, purl or "generic")
            r = rng.random()
            if r < 0.55:
                toks.append(c + v)
            elif r < 0.8:
                toks.extend([c, v])
            elif r < 0.86 and len(c) > 1:
                toks.extend([c[0], c[1:], v])
            elif r < 0.93:
                toks.append(v)
            else:
                toks.append(c + pick(rng, ["\t", " "]) + v)
        s = ""
        for i, t in enumerate(toks):
            if i:
                s += sep if rng.random() < 0.85 else pick(rng, [sep + sep, sep + " ", " " + sep, " "])
            s += t
        alts.append(s)
    string = pick(rng, ["||", " || ", "|| ", " ||"]).join(alts)
    if rng.random() < 0.2:
        string = mutate(rng, string, ALPHA)
    return ("gitlab", gs, string)


def gen_rel(rng, kind):
    if kind == "deb":
        keys = list(R.DebianVersionRange.vers_by_native_comparators)
        foreign = ["==", "<>", "!=", "~", "", "=>", "<<<", "><"]
        scheme = "deb"
    else:
        keys = list(R.RpmVersionRange.vers_by_native_comparators)
        foreign = ["<<", ">>", "~", "", "=>", "=<", "><", "<>="]
        scheme = "rpm"
    strings = []
    for _ in range(pick(rng, [1, 1, 1, 2, 3])):
        c = pick(rng, foreign) if rng.random() < 0.07 else pick(rng, keys)
        v = gen_version(rng, scheme)
        body = sp(rng, 0.2) + c + sp(rng, 0.6) + v + sp(rng, 0.2)
        r = rng.random()
        if kind == "deb" and r < 0.5:
            body = pick(rng, ["(", "(", "((", ")", ""]) + body + pick(rng, [")", ")", "))", "(", ""])
        elif kind == "rpm" and r < 0.3:
            body = pick(rng, ["", "", ","]) + body + pick(rng, [",", ",,", ", "])
        if rng.random() < 0.15:
            body = mutate(rng, body, ALPHA)
        strings.append(body)
    if rng.random() < 0.03:
        strings = []
    return (kind, "-", strings)


def gen_openssl(rng):
    n = pick(rng, [1, 1, 2, 3])
    vs = []
    for _ in range(n):
        v = gen_version(rng, "openssl")
        if rng.random() < 0.2:
            v = v.upper()
        vs.append(sp(rng, 0.2) + v + sp(rng, 0.2))
    s = pick(rng, [",", ", "]).join(vs)
    if rng.random() < 0.2:
        s = mutate(rng, s, ALPHA)
    return ("openssl", "-", s)


def gen_nginx(rng):
    def ver():
        r = rng.random()
        if r < 0.7:
            return "%d.%d.%d" % (rng.randrange(3), rng.randrange(30), rng.randrange(20))
        if r < 0.8:
            return "%d.%d" % (rng.randrange(3), rng.randrange(30))
        return gen_version(rng, "nginx")
    if rng.random() < 0.05:
        s = pick(rng, ["all", "ALL", " a l l ", "none", "All", "all,1.2.3", "", "all+"])
        return ("nginx", "-", s)
    cl = []
    for _ in range(pick(rng, [1, 1, 2, 3])):
        r = rng.random()
        if r < 0.35:
            a = ver()
            b = a if rng.random() < 0.1 else ver()
            cl.append(a + pick(rng, ["-", "-", " - ", "--"]) + b)
        elif r < 0.7:
            cl.append(ver() + pick(rng, ["+", "+", "++", " +", "+ "]))
        elif r < 0.95:
            cl.append(ver())
        else:
            cl.append(ver() + "+" + pick(rng, ["1", "-", ver()]))
    s = pick(rng, [",", ", ", " , "]).join(cl)
    if rng.random() < 0.2:
        s = mutate(rng, s, ALPHA)
    return ("nginx", "-", s)


def ascii_only(x):
    if isinstance(x, list):
        return all(ascii_only(y) for y in x)
    return all(ord(c) < 128 for c in x)


def make_cases(n, seed):
    rng = common.rng_for(seed, "corr_advisory")
    gens = [gen_github, gen_github, gen_snyk, gen_snyk, gen_snyk, gen_gitlab, gen_gitlab, gen_gitlab,
            lambda r: gen_rel(r, "deb"), lambda r: gen_rel(r, "rpm"), gen_openssl, gen_nginx, gen_nginx]
    cases = list(FIXED)
    while len(cases) < n + len(FIXED):
        c = pick(rng, gens)(rng)
        if ascii_only(c[2]):
            cases.append(c)
    return cases


# witnesses and documented examples, always run
FIXED = [
    ("rpm", "-", ["<> 1.0"]), ("rpm", "-", ["== 1.0"]), ("rpm", "-", ["> 2.23,"]), ("rpm", "-", []),
    ("deb", "-", ["(>> 2.23)"]), ("deb", "-", ["= 5.0", "(>> 2.23)", "< 2.24"]), ("deb", "-", ["~2.3"]),
    ("nginx", "-", "1.2.3-1.2.3"), ("nginx", "-", "1.2-1.2.0"), ("nginx", "-", "1.2.3-1.2.3+b1"),
    ("nginx", "-", "1.2.3-rc1-1.2.3-rc1"), ("nginx", "-", "1.2.3-01.2.3, 1.4.0-1.4.1"), ("rpm", "-", ["<>1.0", "<1", ">2"]),
    ("gitlab", "pypi", "==,==,1.0"), ("gitlab", "pypi", "===,1.0"), ("gitlab", "pypi", "<,~=1.0"), ("nginx", "-", "0.8.40+, 0.7.66+"), ("nginx", "-", "1.5.0+, 1.4.1+"),
    ("nginx", "-", "all"), ("nginx", "-", "none"), ("nginx", "-", "1.1.4-1.2.8, 1.3.9-1.4.0"),
    ("nginx", "-", "1.2.0-rc1+"), ("nginx", "-", ""), ("nginx", "-", "1.9+"),
    ("openssl", "-", "1.0.1A, 3.0.0"), ("openssl", "-", ""),
    ("github", "maven", [">= 2.13.0, < 2.16.0"]), ("github", "nope", ["> 1"]), ("github", "pypi", [""]),
    ("github", "pypi", []), ("github", "nope", []),
    ("snyk", "pypi", [">=4.0.0, <4.0.10"]), ("snyk", "golang", [">=9.6.0-rc1 <9.8.1-rc1"]),
    ("snyk", "pypi", ["(,9.21]"]), ("snyk", "pypi", ["[1.0]"]), ("snyk", "pypi", ["[1.4.5,)"]),
    ("snyk", "nope", [">1"]), ("snyk", "pypi", [""]), ("snyk", "pypi", ["(,)"]),
    ("gitlab", "pypi", "~=,1.0"), ("gitlab", "pypi", "~=1.0"), ("gitlab", "pypi", "===1.0"),
    ("gitlab", "pypi", "=,=,1.0"), ("gitlab", "gem", "> = 1.0"), ("gitlab", "gem", "< > 1.0"),
    ("gitlab", "gem", ""), ("gitlab", "gem", ">"), ("gitlab", "nope", ">1"), ("gitlab", "maven", "1.0"),
    ("gitlab", "packagist", ">=1.0,<2.0||>=3.0 <4.0"), ("gitlab", "go", ">=1.0 <2.0||>=3.0"),
    ("gitlab", "npm", "<1.2.3||>=2.0.0 <2.0.5"), ("gitlab", "nope", ""),
]


def line_of(case):
    kind, scheme, arg = case
    if isinstance(arg, list):
        h = ";".join(hx(a) for a in arg) if arg else "[]"
    else:
        h = hx(arg)
    if kind in ("github", "snyk", "gitlab"):
        return "advisory %s %s %s" % (kind, scheme, h)
    return "native %s %s" % (kind, h)


def model_lines(lines, umodel):
    exe = str(umodel or common.UMODEL)
    p = subprocess.run([exe], input="\n".join(lines) + "\n", stdout=subprocess.PIPE,
                       stderr=subprocess.PIPE, text=True, timeout=3600)
    if p.returncode != 0:
        raise common.Tooling("model driver failed rc=%s: %s" % (p.returncode, p.stderr[-2000:]))
    out = p.stdout.split("\n")
    if out and out[-1] == "":
        out.pop()
    if len(out) != len(lines):
        raise common.Tooling("model driver answered %d lines for %d" % (len(out), len(lines)))
    return out


def run(n=2000, seed=0, umodel=None, verbose=True, stub_all=False):
    """stub_all: text layer only — every version class but NginxVersion is replaced by the base
    class on both sides (independent of the state of the Layer-A models)"""
    pre = "stub " if stub_all else ""
    stubs_ans = model_lines([pre + "advisory stubs"], umodel)[0]
    if stubs_ans == "bad-op":
        raise common.Tooling("driver has no `advisory` handler")
    stubs = [s for s in stubs_ans.split(",") if s]
    for rc in R.RANGE_CLASS_BY_SCHEMES.values():
        ORIG_VC.setdefault(rc, rc.version_class)
    cases = make_cases(n, seed)
    lines = [pre + line_of(c) for c in cases]
    with StubPatch(stubs):
        exp = []
        for kind, scheme, arg in cases:
            e = real(kind, scheme, arg)
            if isinstance(arg, list) and len(arg) == 1:
                # a single string and the one-element list must behave alike
                e2 = real(kind, scheme, arg[0])
                if e2 != e:
                    e = "str-vs-list:%s/%s" % (e, e2)
            exp.append(e)
    got = [canon_model(a) for a in model_lines(lines, umodel)]
    stats = {"total": len(cases), "ok": 0, "sort_err": 0, "stubs": stubs}
    per_kind = {}
    dis = []
    sort_witness = []
    internal = {}
    for c, l, e, g in zip(cases, lines, exp, got):
        k = c[0]
        per_kind.setdefault(k, {"n": 0, "ok": 0})
        per_kind[k]["n"] += 1
        if e.startswith("sort-err:"):
            stats["sort_err"] += 1
            if len(sort_witness) < 5:
                sort_witness.append((c, e))
            continue
        if e.startswith("ok:"):
            stats["ok"] += 1
            per_kind[k]["ok"] += 1
        else:
            stats[e] = stats.get(e, 0) + 1
            name = e[4:]
            if name in ("TypeError", "IndexError", "KeyError", "AttributeError", "UnboundLocalError",
                        "AssertionError", "RecursionError"):
                internal.setdefault((k, name), c)
        if e != g:
            dis.append({"case": c, "line": l, "impl": e, "model": g})
    stats["per_kind"] = per_kind
    stats["disagreements"] = len(dis)
    stats["internal_error_witnesses"] = {"%s:%s" % k: repr(v) for k, v in internal.items()}
    stats["sort_err_witnesses"] = [repr(w) for w in sort_witness]
    if verbose:
        for d in dis[:15]:
            print("DISAGREE %r\n   impl  %s\n   model %s" % (d["case"], d["impl"], d["model"]))
        dist = ", ".join("%s=%s" % (k, v) for k, v in sorted(stats.items())
                         if k.startswith("err:") or k in ("ok", "sort_err"))
        print("corr_advisory: %d cases, %d disagreements; %s; stubs=%s" %
              (len(cases), len(dis), dist, ",".join(stubs) or "-"))
        print("  per kind: " + ", ".join("%s %d/%d ok" % (k, v["ok"], v["n"]) for k, v in sorted(per_kind.items())))
        for k, v in stats["internal_error_witnesses"].items():
            print("  internal error %s witness %s" % (k, v))
        for w in stats["sort_err_witnesses"]:
            print("  sort raised (outside the model): %s" % w)
    return (1 if dis else 0), stats, dis


def main(argv=None):
    ap = argparse.ArgumentParser()
    ap.add_argument("--n", type=int, default=2000)
    ap.add_argument("--seed", type=int, default=common.seed_from_env())
    ap.add_argument("--umodel", default=None)
    ap.add_argument("--stub-all", action="store_true",
                    help="text layer only: base Version class for every scheme but nginx")
    a = ap.parse_args(argv)
    rc, _, _ = run(a.n, a.seed, a.umodel, verbose=True, stub_all=a.stub_all)
    return rc


if __name__ == "__main__":
    sys.exit(main())
