"""
Layer-C correspondence for the npm native range converter and the semver shorthand helpers:
the real `NpmVersionRange.from_native` (with `semantic_version.NpmSpec` behind it) and
`univers.univers_semver.get_caret_constraints / get_tilde_constraints /
get_pessimistic_constraints` against the Lean model `Univers/Text/Npm.lean`, through the
driver lines

    native npm <hex text>                         NpmVersionRange.from_native(text)
    shorthand caret|tilde|pessimistic <hex v>     helper("^"+v | "~"+v | "~>"+v)
    shorthands caret|tilde|pessimistic <hex s>    helper(s)

Answers: `ok:<items>` | `err:<ExcClassName>`; the items are compared as multisets (the range
constructor sorts; the members of an `AllOf` are a frozenset whose order depends on the hashes).

Usage:  /venv/bin/python -m harness.corr_npm [--n N] [--seed S] [--umodel PATH]
Exit status 0 = no disagreement.
"""
import argparse
import subprocess
import sys

from harness import common
from harness.common import hx

from univers.version_range import NpmVersionRange
from univers import univers_semver as US

TAG = {">=": "ge", "<=": "le", "!=": "ne", "<": "lt", ">": "gt", "=": "eq"}
INTERNAL = ("TypeError", "IndexError", "KeyError", "AttributeError", "UnboundLocalError",
            "AssertionError", "RecursionError")
HELPERS = {"caret": (US.get_caret_constraints, "^"), "tilde": (US.get_tilde_constraints, "~"),
           "pessimistic": (US.get_pessimistic_constraints, "~>")}


# ----------------------------------------------------------------------------- the real side

def canon_items(constraints):
    items = []
    for c in constraints:
        if c.comparator == "*":
            items.append("star")
        else:
            items.append("%s:%s" % (TAG[c.comparator], hx(str(c.version))))
    return "ok:" + (",".join(sorted(items)) if items else "-")


def impl_native(text):
    try:
        return canon_items(NpmVersionRange.from_native(text).constraints)
    except Exception as e:  # noqa
        return "err:" + type(e).__name__


def impl_shorthand(kind, string):
    try:
        return canon_items(HELPERS[kind][0](string))
    except Exception as e:  # noqa
        return "err:" + type(e).__name__


def canon_answer(ans):
    if ans.startswith("ok:") and ans != "ok:-":
        return "ok:" + ",".join(sorted(ans[3:].split(",")))
    return ans


# ----------------------------------------------------------------------------- generator

OPS = [">=", "<=", ">", "<", "=", "==", ""]
WS = [" ", " ", " ", " ", "  ", "\t", "\n", " \t", "\x1f", "\x0c"]
PRE = ["a", "alpha.1", "rc1", "0", "1", "beta-2", "x", "0a", "A.B", "rc.2", "a", "b.7", "01", "a..b", ""]
BUILD = ["b", "001", "build.5", "x", "a-b", "1.x", "b", "5", ""]


def gnum(r):
    k = r.random()
    if k < 0.35:
        return str(r.randint(0, 3))
    if k < 0.8:
        return str(r.randint(0, 12))
    if k < 0.975:
        return str(r.randint(0, 10 ** r.randint(2, 22)))
    if k < 0.985:
        return "0" + str(r.randint(0, 9))
    return r.choice(["x", "X", "*", "00"])


def gfull(r, fancy=0.25):
    v = "%s.%s.%s" % (gnum(r), gnum(r), gnum(r))
    if r.random() < fancy:
        v += "-" + r.choice(PRE)
    if r.random() < fancy / 2:
        v += "+" + r.choice(BUILD)
    if r.random() < 0.03:
        v = r.choice(["v", "V", "vv", "=v"]) + v
    return v


def gpartial(r):
    k = r.random()
    if k < 0.25:
        return gnum(r)
    if k < 0.5:
        return "%s.%s" % (gnum(r), gnum(r))
    if k < 0.53:
        return "%s.%s.%s.%s" % (gnum(r), gnum(r), gnum(r), gnum(r))
    return gfull(r)


def gxrange(r):
    k = r.random()
    if k < 0.35:
        return "%s.x" % gnum(r)
    if k < 0.7:
        return "%s.%s.x" % (gnum(r), gnum(r))
    if k < 0.8:
        return "%s.x.x" % gnum(r)
    if k < 0.85:
        return r.choice(["x.x", "*.x", "X.x", "x.x.x", "1.X", "1.*", "*", "x", "X"])
    if k < 0.93:
        return gfull(r, 0.6) + ".x"
    return r.choice(OPS + ["^", "~", "v", "v^", "=v"]) + "%s.x" % gnum(r)


def gatom(r):
    k = r.random()
    if k < 0.30:
        op = r.choice(OPS)
        sep = r.choice(WS) if (op and r.random() < 0.35) else ""
        return op + sep + (gfull(r) if r.random() < 0.8 else gpartial(r))
    if k < 0.45:
        return "^" + (gfull(r) if r.random() < 0.7 else gpartial(r))
    if k < 0.60:
        return "~" + (gfull(r) if r.random() < 0.6 else gpartial(r))
    if k < 0.80:
        return gxrange(r)
    if k < 0.86:
        return r.choice(OPS[:6]) + r.choice(WS) + gxrange(r)
    if k < 0.89:
        return r.choice(["^", "~", "~>", "^^", "~~", "^~", "v^", "=^"]) + gpartial(r)
    if k < 0.96:
        return r.choice(OPS[:6])
    return r.choice(["latest", "*", "", "-", "|", "x", "1.2.3-", "1.2.3+", "a", "1.0.0.x", ".x", "~", "^",
                     "~.x", "^.x", "1..x", "1.2.3.4.x", "-1.x", "+.x", "1-a.x", "1.2-a.x"])


def ghyphen(r):
    a = gpartial(r) if r.random() < 0.5 else gfull(r)
    b = gpartial(r) if r.random() < 0.5 else gfull(r)
    k = r.random()
    if k < 0.75:
        return a + " - " + b
    if k < 0.80:
        return a + " - " + b + " - " + gpartial(r)
    if k < 0.84:
        return a + r.choice(["  - ", " -  ", " -", "- ", "\t- ", " -\t", "\n - ", " - \n"]) + b
    if k < 0.88:
        return r.choice(OPS + ["^", "~", "v"]) + a + " - " + r.choice(OPS + ["^", "~", "v"]) + b
    if k < 0.92:
        return a + " " + gatom(r) + " - " + b
    if k < 0.96:
        return r.choice([" - " + b, a + " - ", " - ", "  -  ", " - - ", a + " - " + b + "\n", "\n" + a + " - " + b])
    return r.choice(["a", "x", "*", "", "latest"]) + " - " + r.choice(["b", "x", "*", "", "1"])


def galt(r):
    if r.random() < 0.2:
        return ghyphen(r)
    n = r.choice([1, 1, 1, 2, 2, 3])
    return r.choice(WS[:5]).join(gatom(r) for _ in range(n))


def gexpr(r):
    k = r.random()
    if k < 0.03:
        return r.choice(["*", "", " ", "* ", " *", "||", "|", "*||*", "x", "X", "latest", ">", "^", "~", "1.x.x",
                         ">= ", " - ", ">1.x", "a - b", "\t", "\n"])
    n = r.choice([1, 1, 1, 2, 2, 3])
    sep = r.choice(["||", " || ", "||", " ||", "|| "])
    return sep.join(galt(r) for _ in range(n))


def mutate(r, s):
    if not s:
        return r.choice(["", " ", "*"])
    k = r.random()
    i = r.randrange(len(s))
    j = r.randrange(len(s))
    if k < 0.2:
        return s[:i] + s[i + 1:]
    if k < 0.4:
        return s[:i] + s[i] + s[i:]
    if k < 0.55:
        lo, hi = min(i, j), max(i, j)
        if lo == hi:
            return s
        return s[:lo] + s[hi] + s[lo + 1:hi] + s[lo] + s[hi + 1:]
    if k < 0.8:
        return s[:i] + r.choice(list(" |-.x*^~<>=vV+0\t\n") + ["||", " - ", ".x"]) + s[i:]
    if k < 0.9:
        return s[:i] + r.choice(list(" |-.x*^~<>=v0")) + s[i + 1:]
    return s[:i]


def gen_texts(r, n):
    out = []
    for _ in range(n):
        s = gexpr(r)
        for _ in range(r.choice([0, 0, 0, 0, 0, 0, 0, 1, 1, 2])):
            s = mutate(r, s)
        out.append(s)
    return out


def gen_versions(r, n):
    out = []
    for _ in range(n):
        k = r.random()
        if k < 0.6:
            v = gfull(r, 0.4)
        elif k < 0.85:
            v = gpartial(r)
        else:
            v = r.choice(["", " ", "a", "^1", "~1", ">1", "~>1", ">~1", " 1 . 2 ", "v1", "1.0.0-0", "0.0.0", "0.0.0-a",
                          "1.0.0-a", "1.2.0-a", "1.2.3-a"])
        if r.random() < 0.1:
            v = mutate(r, v)
        out.append(v)
    return out


FIXED = [">", "^", "~", "1.x.x", ">= ", "||", " - ", "", " ", "*", ">1.x", "a - b", "1.0.0\n - 2.0.0",
         "1.0.0 - 2.0.0 - 3.0.0", "~1.2.3-a", "1.2.3-a.x", "1.2.3+b.x", "x.x", "^1.x", "> ^1.x", "v^1.x",
         "1.0.0-a - 2.0.0-b", "^1.2.3", "^0.2.3", "^0.0.3", "~1.2.3", "~1.2", "~1", "1.2.x", "1.x",
         "1.2.3 - 2.3.4", ">=1.2.3 <2.0.0", "1.2.3 || >=2.0.0 <3.0.0", "~0.0.0-0", "= = 1.0", "<==1.0"]


# ----------------------------------------------------------------------------- run

def run(n=3000, seed=0, umodel=None, verbose=True):
    r = common.rng_for(seed, "corr_npm")
    texts = FIXED + gen_texts(r, n)
    vers = gen_versions(common.rng_for(seed, "corr_npm", "shorthand"), max(1, n // 4))
    jobs = []   # (line, impl answer, description)
    for t in texts:
        jobs.append(("native npm %s" % hx(t), impl_native(t), ("native", t)))
    for v in vers:
        for kind, (_, pre) in HELPERS.items():
            jobs.append(("shorthand %s %s" % (kind, hx(v)), impl_shorthand(kind, pre + v), (kind, pre + v)))
            jobs.append(("shorthands %s %s" % (kind, hx(v)), impl_shorthand(kind, v), (kind + "-raw", v)))
    exe = umodel or str(common.UMODEL)
    p = subprocess.run([exe], input="\n".join(j[0] for j in jobs) + "\n", stdout=subprocess.PIPE,
                       stderr=subprocess.PIPE, text=True)
    if p.returncode != 0:
        raise common.Tooling("driver failed: " + p.stderr[-1000:])
    out = p.stdout.split("\n")[:-1]
    if len(out) != len(jobs):
        raise common.Tooling("driver answered %d lines for %d" % (len(out), len(jobs)))
    stats = {"native": len(texts), "shorthand": len(jobs) - len(texts)}
    dis = []
    internal = {}
    for (line, impl, desc), ans in zip(jobs, out):
        key = ("native " if desc[0] == "native" else "shorthand ") + (impl if impl.startswith("err:") else "ok")
        stats[key] = stats.get(key, 0) + 1
        if impl.startswith("err:") and impl[4:] in INTERNAL:
            internal.setdefault((desc[0], impl[4:]), desc[1])
        if canon_answer(ans) != impl:
            dis.append({"kind": desc[0], "text": desc[1], "impl": impl, "model": ans})
            if len(dis) <= 15 and verbose:
                print("MISMATCH %s %r: impl=%s model=%s" % (desc[0], desc[1], show(impl), show(canon_answer(ans))))
    stats["internal_error_witnesses"] = {"%s/%s" % k: v for k, v in sorted(internal.items())}
    if verbose:
        print("corr_npm seed=%d %s mismatches=%d" % (seed, stats, len(dis)))
    return (1 if dis else 0), stats, dis


def show(ans):
    if ans.startswith("ok:") and ans != "ok:-":
        parts = []
        for it in ans[3:].split(","):
            if ":" in it:
                c, h = it.split(":", 1)
                parts.append("%s:%s" % (c, common.unhx(h)))
            else:
                parts.append(it)
        return "ok:" + ",".join(parts)
    return ans


if __name__ == "__main__":
    ap = argparse.ArgumentParser()
    ap.add_argument("--n", type=int, default=3000)
    ap.add_argument("--seed", type=int, default=0)
    ap.add_argument("--umodel", default=None)
    a = ap.parse_args()
    sys.exit(run(a.n, a.seed, a.umodel)[0])
