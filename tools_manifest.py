#!/venv/bin/python
"""Regenerates MANIFEST.json from the table below (keeps it valid and in one place)."""
import json, os, sys
HERE = os.path.dirname(os.path.abspath(__file__))
props = [json.loads(l) for l in open(os.path.join(HERE, "properties.jsonl"))]
ids = [p["id"] for p in props]

TB = ("Trusted: Lean 4.33 kernel; axioms propext/Classical.choice/Quot.sound only (audited by #print axioms on every run, no sorry/"
      "native_decide/own axioms); the Lean specs as the reading of the property; harness/translate.py (tables regenerated from /repo) and "
      "harness/translate_layerb.py (the functions of the constraint algebra translated statement by statement into Lean on every run; the "
      "agreement theorems Vers/Gen*Thm prove each equal to the model function, an obligation of the thorough tier, recorded in the quick "
      "tier: DESIGN §20); the other hand-written models are tied to the code by differential correspondence (sampling, bounded-exhaustive "
      "for the constraint algebra), not by proof. ")

def P(text, note, design, technique, level="proof"):
    return dict(level=level, text=text, note=TB + note, design=design, technique=technique)

CLAIMED = {
 "C01": P("Per scheme, Lean refinement theorem `vercmp = compare on a lawful sort key` for a model that mirrors the scheme's comparison "
          "routine branch for branch, plus the dispatch theorem that `<`/`>` as Python dispatches them are the views of that comparison; the "
          "generic theorems swo_of_ltgt and sort_classes_invariant (sorting any two permutations gives the same sequence of equivalence "
          "classes, stated on the quotient) then hold for every triple/list, no bound. Sub-domains: alpm per pkgrel kind and conan per "
          "homogeneous shape (the property's own exclusions); ebuild/alpine and nuget on every constructible value. maven: counterexamples "
          "kernel-checked, theorem on the documented shape only (known finding K01).",
          "Reference keys and Python dispatch semantics are modelled. Correspondence: 1.2k (quick) / 6k (thorough) pairs per scheme from grammar, "
          "respelling and mutation streams + all triples of a pool on the real operators.",
          "§7 C01", "Lean 4 proof (refinement to a padded-lexicographic sort key, Std.TransCmp) + correspondence"),
 "C02": P("Per scheme, `Lawful verOps vercmp`: the six operators as Python dispatches them (attrs tuple semantics, total_ordering, hand-written "
          "dunders) are the six views of one three-way comparison, for every pair of values (semver/openssl: every constructible value); generic "
          "consequences ops_agree and constraint_meaning; the COMPARATORS table regenerated from /repo is proved to map each comparator to that "
          "operator. Five schemes violated this on the unchanged tree (deb, ebuild, alpine, legacy openssl, openssl): repaired (F05 F06 F10).",
          "Correspondence as C01 with all six operators observed; every ordered pair of a pool put to the property's oracle on the real code; "
          "single-comparator constraints checked through VersionConstraint.__contains__.",
          "§7 C02", "Lean 4 proof over a model of Python rich-comparison dispatch + correspondence"),
 "C03": P("Per scheme, the code's comparison routine equals compare on a sort key written from the ecosystem's published procedure (dpkg, "
          "rpmvercmp, pacman vercmp, Gentoo PMS 3.3, SemVer 2.0 §11 + build tie-break, PEP 440, Maven ComparableVersion, Gem::Version, NuGet, "
          "Conan on homogeneous items, two-epoch openssl) — unconditional for deb, rpm, alpm, semver family, pypi, gem, openssl; on constructible "
          "values for nuget; partial with kernel-checked counterexamples for ebuild/alpine (zero-led first component, K03) and maven (K02).",
          "The fidelity of the reference keys to the ecosystems' tools is trusted (validated by the agents against upstream vectors, dpkg and "
          "maven-artifact where present). A lawful but different order is reported with no-failing-input-found only if the sign differs nowhere sampled.",
          "§7 C03", "Lean 4 proof (refinement to the reference sort key) + correspondence"),
 "C04": P("Lean 4 theorems over a model of contains_version / VersionRange.__contains__ that mirrors the Python branch for branch: for every "
          "well-formed version-sorted constraint list of any length over any scheme whose operators are lawful, and every version, the model "
          "returns exactly the interval-set meaning `denote`, never raises, and depends only on the comparisons with the constraint versions; "
          "range level through the sorting theorems. '!='-only ranges were broken on the unchanged tree (F01, repaired). FUNCTION TIE: contains_version and VersionRange.__contains__ are translated from the Python source on every run and proved equal to the model function (contains_version_eq, range_contains_eq).",
          "Correspondence bounded-exhaustive over comparator patterns up to length 4 quick / 5 thorough x every probe position on real versions "
          "of all 17 version classes; lawfulness of the scheme's operators is C02's business and is assumed here.",
          "§7 C04", "Lean 4 proof (induction over the bound list) + model/implementation correspondence"),
 "C05": P("Lean theorems over a model of VersionRange.from_string / __str__ / to_dict / VersionConstraint.split: registry_complete and "
          "registry_sound decided over the regenerated registry and class tables; fromString_toString and toString_fromString_canonical for every "
          "registered scheme and every constraint list with delimiter-free version texts; version order of the printed constraints through "
          "sortCons_of_wf. 'alpine' was missing from the registry on the unchanged tree (F14, repaired). FUNCTION TIE: remove_spaces, VersionConstraint.split / from_string / "
          "__str__ / to_dict and VersionRange.from_string (with its flags) / __str__ / to_dict are translated from the Python source on every run and proved equal to the model "
          "functions (py_remove_spaces_eq, vc_split_eq, vc_from_string_eq, vc_str_eq, vc_to_dict_eq, vr_from_string_eq, vr_str_eq, vr_to_dict_eq).",
          "mkVer (the version class) is a parameter of the text theorems, instantiated by the Layer-A models in the driver. Correspondence: generated, "
          "decorated and mutated vers strings for all schemes; object round trip for every range class.",
          "§7 C05", "Lean 4 proof (string split/join lemmas, decide over regenerated tables) + correspondence"),
 "C06": P("Per ecosystem, Lean exactness theorems: the model of from_native on every rendering of an expression of the fragment yields exactly the "
          "documented desugaring (npm caret/tilde/x-range/hyphen, gem ~>, PEP 440 clauses, Maven/NuGet brackets, Conan tilde/caret, Debian/RPM "
          "relations, nginx dash and plus forms, openssl lists), plus soundness against the in-repo matcher for gem and maven. Membership "
          "equality with the ecosystems' own matchers is additionally checked on the real code with release probes around every bound, and for deb / rpm relations "
          "over ANY version of the scheme against the order of the scheme's Lean model (dpkg's / rpmvercmp's order, tied to the code by C03). FUNCTION TIE: the "
          "relation converters of DebianVersionRange and RpmVersionRange (split, build_constraint_from_string, from_native, from_natives) are translated from the "
          "Python source on every run and proved equal, on ASCII text, to the model functions (deb_from_natives_eq, rpm_from_natives_eq, ...).",
          "PARTIAL: the text-to-AST step of the third-party parsers (semantic_version.NpmSpec, packaging SpecifierSet) is modelled and tied by "
          "correspondence only; the fidelity of third-party matchers to the ecosystems is trusted. Known: maven soft requirement '1.0' gives vers:maven/None (K07).",
          "§7 C06", "Lean 4 proof on the AST fragment + correspondence + native-matcher oracle on the real code"),
 "C07": P("Lean 4 theorems over a model of VersionConstraint.validate / validate_comparators: for EVERY finite list of constraints (any order, "
          "duplicates, stars) over a scheme with lawful operators, the model returns True exactly when the list is well-formed (WF) and raises "
          "ValueError otherwise; every accepted list can be tested for membership without error (via C04). F02 repaired. FUNCTION TIE: validate_comparators and VersionConstraint.validate are translated from the Python source on every run and proved equal to the model function (validate_comparators_eq, con_validate_eq).",
          "Correspondence exhaustive over comparator patterns up to length 4 quick / 5 thorough, with duplicates and stars; set() membership modelled by ==.",
          "§7 C07", "Lean 4 proof (sorted-permutation uniqueness, rule equivalence) + correspondence"),
 "C08": P("Lean 4 theorem simplify_spec over a model of VersionConstraint.simplify: for EVERY version-sorted list with pairwise distinct versions "
          "(any comparator pattern, any length, any lawful scheme, any hash seed) the result is a sub-list of the input, has the same redundant-range "
          "meaning denoteR for every version, is accepted by validation and is a fixed point; exact duplicates disappear. The unfixed index walk "
          "violated all clauses (F04, repaired). FUNCTION TIE: deduplicate, simplify_constraints (with its while loop) and VersionConstraint.simplify are translated from the Python source on every run and proved equal to the model function (deduplicate_eq, simplify_constraints_eq, con_simplify_eq).",
          "Correspondence exhaustive over comparator patterns up to length 4 quick / 5 thorough (+duplicates) on every scheme, the four clauses "
          "evaluated through the Lean spec whenever model and code differ.",
          "§7 C08", "Lean 4 proof (contextual-equivalence invariant of the stack walk) + correspondence"),
 "C09": P("Lean 4 theorems over a model of VersionRange.invert / VersionConstraint.invert: the INVERTED_COMPARATORS tables regenerated from /repo "
          "are proved to map every comparator to its logical complement; for every non-empty well-formed version-sorted range without vacuous "
          "constraints the inverse is well-formed, contains a version exactly when the original does not, and inverting again returns the original; "
          "a single constraint's inverse flips membership; '*' has no inverse. FUNCTION TIE: VersionConstraint.is_star/invert and VersionRange.is_star/invert are translated from the Python source on every run and proved equal to the model function (con_invert_eq, range_invert_eq).",
          "Correspondence exhaustive over comparator patterns up to length 4 quick / 5 thorough on every scheme. The empty range is excluded (theorem).",
          "§7 C09", "Lean 4 proof (first-cut-above characterisation of interval unions) + decide over regenerated tables + correspondence"),
 "C10": P("Lean 4 theorems over a model of VersionRange.normalize / from_versions (sorted(known) with the real '<', membership of each with the real "
          "__contains__, grouping of maximal runs, one '=' or one '>=,<=' pair per run, constructor sort): for EVERY well-formed version-sorted range, "
          "every finite list of known versions (any order, duplicates) and every lawful scheme, normalize never raises, validation accepts the result, "
          "it is empty exactly when no known version is a member, it contains a known version exactly when the original does, every bound is a known "
          "member, the blocks are strictly increasing and separated by a known non-member (maximal runs), two ranges agreeing on the known versions "
          "give the same result, and two lists with the same elements give the same comparators on equal versions (uniqueness of the canonical block "
          "list); from_versions contains exactly the versions equal to a listed one. FUNCTION TIE: VersionRange.normalize, from_versions and __contains__ are translated from the Python source on every run and proved equal to the model function (range_normalize_eq, range_from_versions_eq).",
          "The model takes constructed versions (text-to-version is C11/C16); version_class(str) of the known versions is outside the theorem and "
          "covered by the correspondence.",
          "§7 C10", "Lean 4 proof (block-builder invariant, canonical block list uniqueness) + correspondence on ranks for every scheme"),
 "C11": P("Per version class, a Lean model `construct` of normalize + is_valid + build_value with every escaping exception explicit, and `str`; "
          "theorems: nothing but InvalidVersion escapes (construct_declared), every constructed value is well-formed (construct_wf) and "
          "construct (str r) = ok r for well-formed r (str_roundtrip) — all schemes; rpm with a recorded exception (K05). Seven defects repaired "
          "(F15-F18, deb epoch).",
          "The recognisers for third-party regexes (PEP 440, semver, coerce) are hand translations tied by correspondence. ASCII text only; the "
          "CPython 4300-digit int() limit is outside the models.",
          "§7 C11", "Lean 4 proof (parser/printer inverse on well-formed values) + correspondence + oracle on the real code"),
 "C12": P("Lean theorems: all_hashable and frozen_flags decided over the class table regenerated from /repo; per scheme eq_imp_hash "
          "(== implies equal hash key) for every value (gentoo/nuget: constructible values), lifted to constraints and ranges. Unhashable classes "
          "and hash/== disagreements on the unchanged tree were repaired (F03 F07-F11); maven recorded (K04).",
          "PARTIAL: hash() is modelled by the key it is computed from; mutation through retained aliases cannot be expressed by the value-semantics "
          "model and is covered by before/after snapshots of every public operation's arguments only.",
          "§7 C12", "Lean 4 proof (hash key invariance under the scheme's equivalence) + decide over the class table + correspondence"),
 "C13": P("Lean theorems: canonical_perm (any permutation of a well-formed constraint list builds the same range), text_whitespace / text_case / "
          "text_bars / text_presentation for the vers parser (every text, resp. every spelling of an expression), and hash_seed_independent "
          "(the set iteration order inside simplify is an arbitrary permutation parameter: every seed). F13, F33 repaired. FUNCTION TIE: the text functions of "
          "version_constraint.py and VersionRange.from_string are translated from the Python source on every run and proved equal to the model functions (as for C05).",
          "The configuration quantifier (hash seed) is discharged by the permutation parameter; additionally one workload is run in sub-processes "
          "under 4 (quick) / 16 (thorough) PYTHONHASHSEED values and compared byte for byte.",
          "§7 C13", "Lean 4 proof + correspondence + hash-seed sub-processes"),
 "C14": P("Lean 4 theorems (decide +kernel) over the class table regenerated from /repo: for every ordered pair of unrelated version classes, every "
          "value, the four ordering operators raise TypeError, == is False and != is True (both the method and the reflected method decline on the "
          "operand's class alone); a foreign version in a constraint or range is rejected by the isinstance guard.",
          "The model of CPython's rich-comparison dispatch and the translator's guard-shape extraction are tied by an exhaustive correspondence over "
          "the full class-pair matrix x six operators x sampled values.",
          "§7 C14", "Lean 4 proof by kernel decision over the regenerated class table + exhaustive class-matrix correspondence"),
 "C15": P("Lean theorems over models of the GitHub, Snyk (comma, space, bracket) and GitLab converters, table-driven by the comparator dicts and "
          "scheme tables regenerated from /repo: github_exact, snyk_exact, gitlab_exact (parse of every rendering of an expression = exactly the "
          "stated constraints), notations_agree, split_req_order_ok over all comparator dicts (dict order cannot shadow a comparator; F21 F24 repaired). "
          "FUNCTION TIE: split_req, split_req_bracket_notation, build_constraint_from_github_advisory_string, build_range_from_github_advisory_constraint and "
          "build_range_from_snyk_advisory_string are translated from the Python source on every run and proved equal, on ASCII text, to the model functions "
          "(py_split_req_eq, py_split_req_bracket_eq, py_github_constraint_eq, py_github_range_eq, py_snyk_range_eq).",
          "Version texts must not begin with a comparator character (the proof forces it; it is the property's domain). Oracle on the real code: one "
          "logical range rendered in every notation and as vers must give equal ranges.",
          "§7 C15", "Lean 4 proof (render/parse inverse) + decide over regenerated tables + correspondence"),
 "C16": P("Every partial Python operation of the modelled parsers is an explicit error constructor, so 'no internal error escapes' is a theorem about "
          "reachable constructors for EVERY text: construct_declared per version class, fromString_declared, npm_declared, gem_native_declared, "
          "pypi_native_declared, maven/nuget_native_declared_real, conan_declared_real, deb/rpm/openssl/nginx/gitlab_declared. Termination of the "
          "models is their acceptance by Lean. Six internal-error escapes on the unchanged tree were repaired (F12 F19 F20 F23 ...); maven "
          "RecursionError recorded (K06).",
          "PARTIAL: running time (regex backtracking, big-int arithmetic, recursion limit) is runtime behaviour: measured on inputs of length 2^k with a "
          "fitted exponent, not proved; a child process that is killed after 10 s per input screens short adversarial inputs first (a hang inside the re module cannot be "
          "interrupted from within), and the whole check runs under a supervisor with a deadline. gem InvalidRequirementError (an AttributeError subclass) and ConanException count as the library's declared errors.",
          "§7 C16", "Lean 4 proof (reachable error constructors) + correspondence + fuzzing and timing on the real code"),
 "C17": P("Lean theorems history_meaning / history_membership / history_text_stable by induction on the list of operations: starting from any "
          "well-formed range, ANY finite sequence of print+parse, rebuild from shuffled constraints, simplify (any hash seed), validate and invert "
          "twice never fails, keeps the range well-formed with exactly the same membership for every version, and after a simplify step the "
          "constraint tuple no longer changes. Composes C04, C07, C08, C09, C13 and denoteR_eq_denote.",
          "print+parse is the identity on the constraint tuple by C05 (text layer) and is modelled as rebuilding the range. Correspondence: seeded "
          "random walks on real ranges of every registered scheme with the membership vector compared with the Lean spec after every step.",
          "§7 C17", "Lean 4 proof (induction over histories) + random-walk correspondence"),
 "C18": P("Lean theorems: semver_successors (v < next_patch <= next_minor <= next_major for every value incl. pre-releases and build), gem "
          "v < bump, v <= release, release final; conan v < upper_bound(i) < bump(i); caret/tilde/pessimistic bounds and gem ~> bounds (lower < upper, "
          "start satisfies both) — over the Layer-A orders. F25 F26 repaired.",
          "conan bounds need numeric items up to the index. Correspondence on the helpers + the property's oracle on the real code.",
          "§7 C18", "Lean 4 proof over the scheme models + correspondence"),
}

NOT_YET = "machinery for this property is not built yet at this commit (planned: Lean 4 proof + correspondence, see DESIGN.md §7)"

checks = []
na = []
for pid in ids:
    if pid in CLAIMED:
        c = CLAIMED[pid]
        checks.append({
            "property_id": pid,
            "quick_cmd": "./check %s --tier quick" % pid,
            "thorough_cmd": "./check %s --tier thorough" % pid,
            "evidence_file": "/verif/evidence/%s.json" % pid,
            "replay_cmd_template": "./check replay {path}",
            "engine": "lean4+correspondence",
            "level_claimed": {"category": c["level"], "text": c["text"], "design_ref": c["design"]},
            "level_note": c["note"],
            "technique": c["technique"],
        })
    else:
        na.append({"property_id": pid, "reason": NOT_YET})

manifest = {
    "version": 1,
    "setup_cmd": "./setup.sh",
    "hooks": {
        "guard": "UNIVERS_VERIF",
        "enable": "no source hooks are needed: every observation point is a public call; checks import /repo/src in-process",
        "baseline_off_cmd": "cd /repo && /venv/bin/python -m pytest -ra -q -p no:cacheprovider --timeout=900 --continue-on-collection-errors",
        "source_commits": [],
        "add_only": True,
    },
    "engines": [
        {"name": "lean4+correspondence", "path": "lean/ harness/", "serves_properties": [c["property_id"] for c in checks],
         "kind_free_text": "Lean 4.33 model + spec + theorems (lake build, #print axioms audit); tables regenerated from /repo by harness/translate.py; "
                           "hand-written models tied to the code by a line-protocol correspondence (compiled driver umodel)"},
    ],
    "checks": checks,
    "not_applicable": na,
    "notes": "exit codes: 0 held, 1 VIOLATION line(s), 2 tooling failure (never a verdict). VERIF_SEED seeds every random choice. Every check runs its sweep in a child process under a deadline (VERIF_DEADLINE_S, default 1500 s quick / 9000 s thorough, plus VERIF_GRACE_S = 600 s for setup): a call into the library that never returns is reported as a VIOLATION with no-failing-input-found instead of hanging the check. Thirty-three functions of /repo are translated into Lean on every run and proved equal to the model (FUNCTION TIE notes per check); the theorems of Vers/GenLayerBExact, Text/GenVersExact and Text/GenAdvisoryExact chain those agreement theorems with the property theorems (translated source satisfies the specification). Textual ties are proof obligations in the thorough tier; in the quick tier they deepen the sweep and the search (DESIGN.md section 20).",
}
json.dump(manifest, open(os.path.join(HERE, "MANIFEST.json"), "w"), indent=1)
print("claimed:", [c["property_id"] for c in checks])
