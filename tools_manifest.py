#!/venv/bin/python
"""Regenerates MANIFEST.json from the table below (keeps it valid and in one place)."""
import json, os, sys
HERE = os.path.dirname(os.path.abspath(__file__))
props = [json.loads(l) for l in open(os.path.join(HERE, "properties.jsonl"))]
ids = [p["id"] for p in props]

CLAIMED = {
 "C04": dict(
   level="proof",
   text=("Lean 4 theorems over a model of contains_version / VersionRange.__contains__ that mirrors the Python branch for "
         "branch: for every well-formed version-sorted constraint list of any length over any scheme whose operators are "
         "lawful, and every version, the model returns exactly the interval-set meaning `denote` and never raises. The model "
         "is tied to /repo by a bounded-exhaustive correspondence on real versions of all 17 version classes."),
   note=("Trusted: Lean kernel; axioms propext/Classical.choice/Quot.sound only; the spec `denote`; the correspondence "
         "(differential testing, exhaustive over comparator patterns up to length 4 quick / 5 thorough); the scheme's "
         "operators being lawful is property C02's business and is assumed here."),
   design="§7 C04", technique="Lean 4 proof (induction over the bound list) + model/implementation correspondence"),
 "C07": dict(
   level="proof",
   text=("Lean 4 theorems over a model of VersionConstraint.validate / validate_comparators: for EVERY finite list of "
         "constraints (any order, duplicates, stars) over a scheme with lawful operators, the model returns True exactly "
         "when the list is well-formed (WF: every version once, star alone, '=' rule, alternation rule read in version order) "
         "and raises ValueError otherwise; every accepted list can be tested for membership without error (via C04). "
         "Tied to /repo by a bounded-exhaustive correspondence on real versions of every hashable scheme."),
   note=("Trusted: Lean kernel; standard axioms; the spec WF; the correspondence (exhaustive over comparator patterns up to "
         "length 4 quick / 5 thorough, with duplicates and stars); set() membership modelled by == (hash agreement is C12); "
         "type checks of the arguments are vacuous in the typed model."),
   design="§7 C07", technique="Lean 4 proof (sorted-permutation uniqueness, rule equivalence) + correspondence"),
 "C09": dict(
   level="proof",
   text=("Lean 4 theorems over a model of VersionRange.invert / VersionConstraint.invert: the INVERTED_COMPARATORS tables "
         "regenerated from /repo on every run are proved (by decide) to map every comparator to its logical complement; for every "
         "non-empty well-formed version-sorted range without vacuous constraints (any length, any lawful scheme) the inverse is "
         "well-formed, contains a version exactly when the original does not (on the spec and on the model of the membership test), "
         "and inverting again returns the original; a single constraint's inverse flips membership; '*' has no inverse."),
   note=("Trusted: Lean kernel; standard axioms; specs denote/WFSorted/NonVacuous; translator for the two tables; correspondence "
         "exhaustive over comparator patterns up to length 4 quick / 5 thorough on every scheme. The empty range is excluded "
         "(a theorem shows its inverse is empty again)."),
   design="§7 C09", technique="Lean 4 proof (first-cut-above characterisation of interval unions) + decide over regenerated tables + correspondence"),
 "C08": dict(
   level="proof",
   text=("Lean 4 theorem simplify_spec over a model of VersionConstraint.simplify (deduplicate + the single-pass stack walk of "
         "simplify_constraints + sorted(set(..)) with the set's iteration order an arbitrary permutation): for EVERY version-sorted "
         "list with pairwise distinct versions (any comparator pattern, any length, any lawful scheme) the result is a sub-list of the "
         "input, has the same redundant-range meaning denoteR for every version, is accepted by validation and is a fixed point; "
         "exact duplicates disappear; the result is independent of the hash seed (simplify_seed_independent). The unfixed index walk "
         "violated all clauses (finding F04, repaired by a fix: commit)."),
   note=("Trusted: Lean kernel; standard axioms; specs denoteR/validate; correspondence exhaustive over comparator patterns up to "
         "length 4 quick / 5 thorough (+duplicates) on every hashable scheme, with the four clauses evaluated through the Lean spec "
         "whenever model and code differ."),
   design="§7 C08", technique="Lean 4 proof (contextual-equivalence invariant of the stack walk) + correspondence"),
 "C14": dict(
   level="proof",
   text=("Lean 4 theorems (decide +kernel) over the class table regenerated from /repo on every run (MRO, defining class, origin "
         "and guard shape of every rich-comparison dunder of every Version subclass): for every ordered pair of unrelated version "
         "classes, every value, the four ordering operators raise TypeError, == is False and != is True, because both the method "
         "and the reflected method decline on the operand's class alone; a foreign version in a constraint or range is rejected by "
         "the isinstance guard. Adding a scheme or an operator re-runs the theorem over the new matrix."),
   note=("Trusted: Lean kernel; the model of CPython's rich-comparison dispatch (Univers/Py/Dispatch.lean); the translator's guard-shape "
         "extraction (AST), tied to behaviour by an exhaustive correspondence over the full class-pair matrix x six operators x sampled "
         "values, and foreign membership tests for every scheme."),
   design="§7 C14", technique="Lean 4 proof by kernel decision over the regenerated class table + exhaustive class-matrix correspondence"),
}

NOT_YET = "machinery for this property is not built yet at this commit (planned: Lean 4 proof + correspondence, see DESIGN.md §7)"

checks = []
na = []
for pid in ids:
    if pid in CLAIMED:
        c = CLAIMED[pid]
        checks.append({
            "property_id": pid,
            "quick_cmd": "./check %s --tier quick" % pid,
            "thorough_cmd": "./check %s --tier thorough" % pid,
            "evidence_file": "/verif/evidence/%s.json" % pid,
            "replay_cmd_template": "./check replay {path}",
            "engine": "lean4+correspondence",
            "level_claimed": {"category": c["level"], "text": c["text"], "design_ref": c["design"]},
            "level_note": c["note"],
            "technique": c["technique"],
        })
    else:
        na.append({"property_id": pid, "reason": NOT_YET})

manifest = {
    "version": 1,
    "setup_cmd": "./setup.sh",
    "hooks": {
        "guard": "UNIVERS_VERIF",
        "enable": "no source hooks are needed: every observation point is a public call; checks import /repo/src in-process",
        "baseline_off_cmd": "cd /repo && /venv/bin/python -m pytest -ra -q -p no:cacheprovider --timeout=900 --continue-on-collection-errors",
        "source_commits": [],
        "add_only": True,
    },
    "engines": [
        {"name": "lean4+correspondence", "path": "lean/ harness/", "serves_properties": [c["property_id"] for c in checks],
         "kind_free_text": "Lean 4.33 model + spec + theorems (lake build, #print axioms audit); tables regenerated from /repo by harness/translate.py; "
                           "hand-written models tied to the code by a line-protocol correspondence (compiled driver umodel)"},
    ],
    "checks": checks,
    "not_applicable": na,
    "notes": "exit codes: 0 held, 1 VIOLATION line(s), 2 tooling failure/timeout (never a verdict). VERIF_SEED seeds every random choice.",
}
json.dump(manifest, open(os.path.join(HERE, "MANIFEST.json"), "w"), indent=1)
print("claimed:", [c["property_id"] for c in checks])
