#!/bin/sh
# Build the framework from files on disk only (offline): regenerate the tables from /repo,
# build the Lean library (all models, specs and theorems) and the model driver.
set -e
cd "$(dirname "$0")"
/venv/bin/python -m harness.translate > /dev/null
cd lean
lake build Univers umodel
