/-
Line-protocol driver: dispatch on the first word of each line.
-/
import Univers.Driver.Util
import Univers.Driver.Advisory
import Univers.Driver.Alpm
import Univers.Driver.Conan
import Univers.Driver.Deb
import Univers.Driver.Dispatch
import Univers.Driver.Domain
import Univers.Driver.Gem
import Univers.Driver.GemPypi
import Univers.Driver.Generic
import Univers.Driver.Gentoo
import Univers.Driver.Maven
import Univers.Driver.MavenConan
import Univers.Driver.Npm
import Univers.Driver.Nuget
import Univers.Driver.Openssl
import Univers.Driver.Pypi
import Univers.Driver.Rpm
import Univers.Driver.Semver
import Univers.Driver.TextVers
import Univers.Driver.Vers

namespace Univers.Driver

def handlers : List (List String → Option String) := [advisoryCmd, alpmCmd, conanCmd, debCmd, dispatchCmd, domainCmd, gemCmd, gemPypiCmd, genericCmd, gentooCmd, mavenCmd, mavenConanCmd, npmCmd, nugetCmd, opensslCmd, pypiCmd, rpmCmd, semverCmd, textVersCmd, versCmd]

def answer (line : String) : String :=
  let ws := (line.splitOn " ").filter (· ≠ "")
  match handlers.findSome? (fun h => h ws) with
  | some out => out
  | none => "bad-op"

partial def loop (h : IO.FS.Stream) (out : IO.FS.Stream) : IO Unit := do
  let line ← h.getLine
  if line.isEmpty then return ()
  let l := (line.dropEndWhile (fun c => c == '\n' || c == '\r')).toString
  out.putStrLn (answer l)
  loop h out

def mainLoop : IO Unit := do
  let stdin ← IO.getStdin
  let stdout ← IO.getStdout
  loop stdin stdout
  stdout.flush

end Univers.Driver
