/-
Layer A model of `univers.versions.MavenVersion` and of `univers.maven.Version`
(a port of an old Apache Maven `ComparableVersion`), branch for branch, defects included.

Python modelled:
* `versions.Version.normalize` (remove ALL whitespace, `lstrip("vV")`), `MavenVersion.is_valid`
  (`build_value` in a `try … except ValueError`), `MavenVersion.build_value = maven.Version`,
  `Version.__str__ = str(self.value)`, the attrs-generated operators on the field `value`;
* `maven.Version`: `__init__` (the character loop, `_parse_buffer`, `_new_list`, `_normalize`,
  `list2tuple`), `__cmp__`, `_compare`, `_int_compare`, `_string_compare`, `_list_compare`,
  `_string_value`, `QUALIFIERS`, `ALIASES`, `__eq__`, `__lt__`, `__ne__`, the
  `functools.total_ordering` methods, `__hash__`, `__str__`.

Not modelled: the interpreter's recursion limit (`RecursionError` at about 3000 separators) and
the 4300-digit limit of `int()` (a `ValueError`, hence `InvalidVersion`, on a run of more than
4300 digits).
-/
import Univers.Basic.PadLex
import Univers.Vers.Model
import Univers.Py.Attrs

namespace Univers.Maven

open Univers

/-- an element of `Version._parsed`: `int`, `str` or a nested `tuple` -/
inductive Item where
  | int (n : Nat)
  | str (s : List Char)
  | list (l : List Item)
  deriving Repr, Inhabited

/-- `maven.Version`: `_parsed` and `_unparsed` -/
structure Raw where
  parsed : List Item
  text : List Char
  deriving Repr, Inhabited

inductive PErr where
  | invalid
  | other (name : String)
  deriving Repr, DecidableEq

/-! ### `Version.normalize` -/

/-- `str.isspace()` on ASCII: `\t \n \v \f \r`, `\x1c`–`\x1f` and the space -/
def isSpace (c : Char) : Bool :=
  (9 ≤ c.toNat && c.toNat ≤ 13) || (28 ≤ c.toNat && c.toNat ≤ 32)

/-- `remove_spaces(string).lstrip("vV")` -/
def normalizeStr (s : List Char) : List Char :=
  (s.filter (fun c => !isSpace c)).dropWhile (fun c => c == 'v' || c == 'V')

/-! ### parsing -/

/-- `not item` -/
def Item.falsy : Item → Bool
  | .int n => n == 0
  | .str s => s.isEmpty
  | .list l => l.isEmpty

def Item.isList : Item → Bool
  | .list _ => true
  | _ => false

/-- number of `l.pop()` executed by `_normalize`; the argument is `l[::-1]`:
a falsy item pops, a truthy list goes on, a truthy int/str breaks. -/
def popCount : List Item → Nat
  | [] => 0
  | x :: xs => if x.falsy then popCount xs + 1 else if x.isList then popCount xs else 0

/-- `_normalize(l)`: every pop removes the LAST element of `l`, not the inspected one (Maven's
Java removes the inspected one; on the lists `__init__` builds the two coincide) -/
def normalize (l : List Item) : List Item :=
  l.take (l.length - popCount l.reverse)

/-- `int(buf)` on ASCII digits -/
def toNat (s : List Char) : Nat :=
  s.foldl (fun n c => n * 10 + (c.toNat - 48)) 0

/-- `buf.isdigit()` -/
def allDigits (s : List Char) : Bool := !s.isEmpty && s.all Char.isDigit

/-- `ALIASES.get(buf, buf)` on a string -/
def alias (s : List Char) : List Char :=
  if s = ['g', 'a'] then []
  else if s = ['f', 'i', 'n', 'a', 'l'] then []
  else if s = ['c', 'r'] then ['r', 'c']
  else s

/-- `_parse_buffer(buf, followed_by_digit)` -/
def parseBuffer (buf : List Char) (followedByDigit : Bool) : Item :=
  if allDigits buf then .int (toNat buf)
  else if followedByDigit && buf.length == 1 then
    if buf = ['a'] then .str (alias "alpha".toList)
    else if buf = ['b'] then .str (alias "beta".toList)
    else if buf = ['m'] then .str (alias "milestone".toList)
    else .str (alias buf)
  else .str (alias buf)

/-- the item appended on `.` and `-`: `0` when `idx == start` -/
def flush (buf : List Char) : Item :=
  if buf.isEmpty then .int 0 else parseBuffer buf false

/-- the nesting that the shared references build: every closed list ends with the next one -/
def nest : List (List Item) → List Item
  | [] => []
  | [s] => s
  | s :: rest => s ++ [.list (nest rest)]

/-- the `else` of the `for`, the two final `_normalize` calls and `list2tuple` -/
def finish (done : List (List Item)) (cur : List Item) (buf : List Char) : List Item :=
  let cur := if buf.isEmpty then cur else cur ++ [parseBuffer buf false]
  normalize (nest (done ++ [normalize cur]))

/-- `for idx, ch in enumerate(buf)` in `__init__`.  State: `done`, the lists already closed by
`_new_list` (outermost first, each one normalized at the moment it was closed); `cur` =
`current_list`; `buf` = `buf[start:idx]`; `isDigit` = `is_digit`. -/
def loop (done : List (List Item)) (cur : List Item) (buf : List Char) (isDigit : Bool) :
    List Char → List Item
  | [] => finish done cur buf
  | ch :: rest =>
    if ch = '.' then
      loop done (cur ++ [flush buf]) [] isDigit rest
    else if ch = '-' then
      loop (done ++ [normalize (cur ++ [flush buf])]) [] [] isDigit rest
    else if ch.isDigit then
      if !isDigit && !buf.isEmpty then
        loop (done ++ [normalize (cur ++ [parseBuffer buf true])]) [] [ch] true rest
      else loop done cur (buf ++ [ch]) true rest
    else
      if isDigit && !buf.isEmpty then
        loop (done ++ [normalize (cur ++ [parseBuffer buf false])]) [] [ch] false rest
      else loop done cur (buf ++ [ch]) false rest

/-- `maven.Version.__init__`; `version.strip()` is the identity after `normalize`, `lower()`
acts on ASCII letters -/
def parse (s : List Char) : List Item :=
  loop [] [] [] false (s.map Char.toLower)

/-- `MavenVersion(string)`.  `maven.Version(...)` raises nothing on ASCII text, hence
`is_valid` is always true (the empty string included). -/
def construct (s : List Char) : Except PErr Raw :=
  let n := normalizeStr s
  .ok ⟨parse n, n⟩

/-- `str(version)` = `str(self.value)` = `_unparsed` -/
def str (r : Raw) : List Char := r.text

/-! ### comparison -/

/-- `QUALIFIERS.index(s)` -/
def qIndex (s : List Char) : Option Nat :=
  if s = "alpha".toList then some 0
  else if s = "beta".toList then some 1
  else if s = "milestone".toList then some 2
  else if s = "rc".toList then some 3
  else if s = "snapshot".toList then some 4
  else if s = [] then some 5
  else if s = "sp".toList then some 6
  else none

/-- `_string_value(s)`: `str(index + 1)` or `"7-" + s` -/
def stringValue (s : List Char) : List Char :=
  match qIndex s with
  | some i => [Char.ofNat (49 + i)]
  | none => '7' :: '-' :: s

/-- Python `str` comparison (code points, shorter prefix first) of the two `_string_value`s -/
def stringCompare (a b : List Char) : Ordering :=
  lexList (fun (x y : Char) => compare x y) (stringValue a) (stringValue b)

/-- `_compare(this, None)`: `_int_compare` returns `this`, `_string_compare` compares with
`""`, `_list_compare` looks at `l[0]` only -/
def cmpNone : Item → Ordering
  | .int n => if n = 0 then .eq else .gt
  | .str s => stringCompare s []
  | .list [] => .eq
  | .list (x :: _) => cmpNone x
termination_by structural x => x

/-- the `zip_longest` loop of `_list_compare` once the left list is exhausted:
`-1 * self._compare(right, None)` -/
def cmpNilList : List Item → Ordering
  | [] => .eq
  | y :: ys => (cmpNone y).swap.then (cmpNilList ys)

/-- the `zip_longest` loop of `_list_compare` once the right list is exhausted -/
def cmpListNil : List Item → Ordering
  | [] => .eq
  | x :: xs => (cmpNone x).then (cmpListNil xs)

mutual
/-- `_compare(this, other)`, both not `None` -/
def cmpItem : Item → Item → Ordering
  | .int a, .int b => compare a b
  | .int _, .str _ => .gt
  | .int _, .list _ => .gt
  | .str a, .str b => stringCompare a b
  | .str _, .int _ => .lt
  | .str _, .list _ => .lt
  | .list _, .int _ => .lt
  | .list _, .str _ => .gt
  | .list a, .list b => cmpList a b
termination_by structural x => x
/-- the `zip_longest` loop of `_list_compare` -/
def cmpList : List Item → List Item → Ordering
  | [], ys => cmpNilList ys
  | x :: xs, [] => (cmpNone x).then (cmpListNil xs)
  | x :: xs, y :: ys => (cmpItem x y).then (cmpList xs ys)
termination_by structural x => x
end

/-- `Version.__cmp__` (the `self is other` shortcut is not observable: `cmpList l l = .eq`) -/
def vercmp (a b : Raw) : Ordering := cmpList a.parsed b.parsed

/-- `maven.Version`: `__eq__`, `__ne__`, `__lt__` hand-written from `__cmp__`; `__le__`,
`__gt__`, `__ge__` from `functools.total_ordering` (`_le_from_lt`: `lt or self == other`,
`_gt_from_lt`: `not lt and self != other`, `_ge_from_lt`: `not lt`) -/
def valOps : VOps Raw where
  eq a b := vercmp a b == .eq
  ne a b := vercmp a b != .eq
  lt a b := vercmp a b == .lt
  le a b := (vercmp a b == .lt) || (vercmp a b == .eq)
  gt a b := !(vercmp a b == .lt) && (vercmp a b != .eq)
  ge a b := !(vercmp a b == .lt)

/-- `MavenVersion` defines no dunder: all six are the attrs-generated ones of `Version` -/
def verOps : VOps Raw := Univers.Py.attrsOps valOps

def hashable : Bool := true

/-- attrs hashes `(value,)`; `maven.Version.__hash__` is `hash(self._unparsed)` -/
def hashKey (r : Raw) : List Char := r.text

end Univers.Maven
