/-
Theorems for the maven scheme (`univers.maven.Version`, a port of Maven's `ComparableVersion`).

`Std.TransCmp vercmp` is FALSE on the whole of `Raw`, already on values `construct` produces:
* `trans_counterexample`        — the order cycle `1.x < 1.0.rc < 1 < 1.x`;
* `incomp_trans_counterexample` — `1-0.1 == 1 == 1-0.2` but `1-0.1 < 1-0.2`
  (`_list_compare(l, None)` looks at `l[0]` only).
What holds:
* `OrientedCmp vercmp` on all `Raw` (`cmpList_swap`);
* `vercmp_eq_key_partial`: on `InDomain` (shape `N(.N)*(-qualifier | -N(.N)*)*`, no `-` component
  null or starting with 0) `vercmp` is the reference key order; hence `vercmp_transCmp_partial`,
  `vercmp_isLE_trans_partial`, `vercmp_eq_trans_partial`;
* `verOps_lawful`: the six operators of `MavenVersion` are the ones induced by `vercmp`, on all `Raw`;
* `eq_imp_hash_counterexample` (`1.0 == 1`, different hash keys) and the converse `hash_imp_eq`;
* `str_roundtrip`, `construct_wellFormed`.
Core Lean only.
-/
import Univers.Scheme.MavenSpec
import Univers.Vers.Spec

namespace Univers.Maven

open Univers Std

/-! ### concrete parses -/

def mk (s : String) : Raw := ⟨parse (normalizeStr s.toList), normalizeStr s.toList⟩

theorem construct_mk (s : String) : construct s.toList = .ok (mk s) := rfl

example : (mk "1.x").parsed = [.int 1, .str ['x']] := by rfl
example : vercmp (mk "1.x") (mk "1.0.rc") = .lt := by decide

theorem trans_counterexample :
    vercmp (mk "1.x") (mk "1.0.rc") = .lt ∧ vercmp (mk "1.0.rc") (mk "1") = .lt ∧
    vercmp (mk "1") (mk "1.x") = .lt := by decide

theorem incomp_trans_counterexample :
    vercmp (mk "1-0.1") (mk "1") = .eq ∧ vercmp (mk "1") (mk "1-0.2") = .eq ∧
    vercmp (mk "1-0.1") (mk "1-0.2") = .lt := by decide

theorem cmpListNil_swap : ∀ l, (cmpListNil l).swap = cmpNilList l
  | [] => rfl
  | x :: xs => by simp only [cmpListNil, cmpNilList, Ordering.swap_then', cmpListNil_swap xs]

mutual
theorem cmpItem_swap : ∀ a b, cmpItem a b = (cmpItem b a).swap
  | .int a, .int b => by simp [cmpItem, Nat.compare_swap]
  | .int _, .str _ => rfl
  | .int _, .list _ => rfl
  | .str a, .str b => by
      simp only [cmpItem, stringCompare]
      exact OrientedCmp.eq_swap
  | .str _, .int _ => rfl
  | .str _, .list _ => rfl
  | .list _, .int _ => rfl
  | .list _, .str _ => rfl
  | .list a, .list b => by simp only [cmpItem]; exact cmpList_swap a b
theorem cmpList_swap : ∀ a b, cmpList a b = (cmpList b a).swap
  | [], [] => rfl
  | [], y :: ys => by
      simp only [cmpList, cmpNilList, Ordering.swap_then', cmpListNil_swap]
  | x :: xs, [] => by
      simp only [cmpList, cmpNilList, Ordering.swap_then', Ordering.swap_swap, ← cmpListNil_swap]
  | x :: xs, y :: ys => by
      simp only [cmpList, Ordering.swap_then']
      rw [← cmpList_swap xs ys, ← cmpItem_swap x y]
end

instance : OrientedCmp vercmp where
  eq_swap := by intro a b; exact cmpList_swap _ _

/-! ### qualifiers -/

/-- the spec's qualifier table is the model's `QUALIFIERS.index` -/
theorem qualTok_eq (s : List Char) :
    qualTok s = match qIndex s with | some i => (i, [], []) | none => (7, s, []) := by
  unfold qualTok qIndex
  repeat' split
  all_goals first | rfl | simp_all

theorem qIndex_lt {s : List Char} {i : Nat} (h : qIndex s = some i) : i < 7 := by
  unfold qIndex at h
  repeat' split at h
  all_goals simp_all <;> omega

theorem stringCompare_eq (a b : List Char) :
    stringCompare a b = tokCmp (qualTok a) (qualTok b) := by
  rw [qualTok_eq, qualTok_eq]
  unfold stringCompare stringValue
  cases ha : qIndex a with
  | some i =>
    have hi := qIndex_lt ha
    cases hb : qIndex b with
    | some j =>
      have hj := qIndex_lt hb
      have key : ∀ i < 7, ∀ j < 7,
          lexList (fun (x y : Char) => compare x y) [Char.ofNat (49 + i)] [Char.ofNat (49 + j)]
            = compare i j := by decide
      rw [key i hi j hj]
      simp [tokCmp, lexPair, lexList, padLex]
    | none =>
      have key : ∀ i < 7, (compare (Char.ofNat (49 + i)) '7').then Ordering.lt = .lt
          ∧ compare i 7 = .lt := by decide
      simp [lexList, tokCmp, lexPair, key i hi]
  | none =>
    cases hb : qIndex b with
    | some j =>
      have hj := qIndex_lt hb
      have key : ∀ j < 7, (compare '7' (Char.ofNat (49 + j))).then Ordering.gt = .gt
          ∧ compare 7 j = .gt := by decide
      simp [lexList, tokCmp, lexPair, key j hj]
    | none =>
      simp [lexList, tokCmp, lexPair, padLex]

/-! ### the chain view -/

def segItems (s : List Atom) : List Item := s.map Atom.item

def tailItems : List (List Atom) → List Item
  | [] => []
  | t :: r => [.list (segItems t ++ tailItems r)]

mutual
theorem chainIn_unchain : ∀ (x : Item) c, chainIn x = some c →
    x = .list (segItems c.1 ++ tailItems c.2)
  | .list l, c, h => by
    simp only [chainIn] at h
    rw [chain_unchain l c h]
  | .int _, _, h => by simp [chainIn] at h
  | .str _, _, h => by simp [chainIn] at h
/-- `chain` is a right inverse of the nesting -/
theorem chain_unchain : ∀ (l : List Item) c, chain l = some c → segItems c.1 ++ tailItems c.2 = l
  | [], c, h => by simp only [chain, Option.some.injEq] at h; subst h; rfl
  | .int n :: r, c, h => by
    cases hr : chain r with
    | none => simp [chain, hr] at h
    | some c' =>
      simp [chain, hr] at h
      subst h
      simp [segItems, Atom.item, ← chain_unchain r c' hr]
  | .str q :: r, c, h => by
    cases hr : chain r with
    | none => simp [chain, hr] at h
    | some c' =>
      simp [chain, hr] at h
      subst h
      simp [segItems, Atom.item, ← chain_unchain r c' hr]
  | .list l :: [], c, h => by
    cases hl : chainIn (.list l) with
    | none => simp [chain, hl] at h
    | some c' =>
      simp only [chain, hl, Option.map_some, Option.some.injEq] at h
      subst h
      have := chainIn_unchain (.list l) c' hl
      simp only [Item.list.injEq] at this
      subst this
      simp [segItems, tailItems]
  | .list _ :: _ :: _, c, h => by simp [chain] at h
end

/-! ### dotted numbers -/

def intItems (I : List Nat) : List Item := I.map Item.int

theorem ints?_items : ∀ (t : List Atom) (I : List Nat), ints? t = some I → segItems t = intItems I
  | [], I, h => by cases h; rfl
  | .int n :: r, I, h => by
    cases hr : ints? r with
    | none => simp [ints?, hr] at h
    | some I' =>
      simp [ints?, hr] at h
      subst h
      simp [segItems, intItems, Atom.item]
      exact ints?_items r I' hr
  | .str _ :: _, I, h => by simp [ints?] at h

theorem normNums_tail {i : Nat} {I : List Nat} (h : normNums (i :: I) = true) :
    normNums I = true := by
  cases I with
  | nil => rfl
  | cons j J => simpa [normNums, List.getLast?_cons_cons] using h

theorem normNums_single {i : Nat} (h : normNums [i] = true) : i ≠ 0 := by
  simpa [normNums] using h

/-- a list is a tail: empty, or one inner list -/
def IsTail (T : List Item) : Prop := T = [] ∨ ∃ L, T = [.list L]

theorem isTail_tailItems (r : List (List Atom)) : IsTail (tailItems r) := by
  cases r with
  | nil => exact .inl rfl
  | cons t r => exact .inr ⟨_, rfl⟩

theorem cmpNilList_ints : ∀ (I : List Nat) (T : List Item), I ≠ [] → normNums I = true →
    cmpNilList (intItems I ++ T) = .lt
  | [], _, h, _ => absurd rfl h
  | i :: I, T, _, hn => by
    by_cases hi : i = 0
    · subst hi
      cases I with
      | nil => simp [normNums] at hn
      | cons j J =>
        have := cmpNilList_ints (j :: J) T (by simp) (normNums_tail hn)
        show (cmpNone (.int 0)).swap.then (cmpNilList (intItems (j :: J) ++ T)) = .lt
        rw [this]; simp [cmpNone]
    · simp [intItems, cmpNilList, cmpNone, hi]

theorem cmpListNil_ints : ∀ (I : List Nat) (T : List Item), I ≠ [] → normNums I = true →
    cmpListNil (intItems I ++ T) = .gt
  | [], _, h, _ => absurd rfl h
  | i :: I, T, _, hn => by
    by_cases hi : i = 0
    · subst hi
      cases I with
      | nil => simp [normNums] at hn
      | cons j J =>
        have := cmpListNil_ints (j :: J) T (by simp) (normNums_tail hn)
        show (cmpNone (.int 0)).then (cmpListNil (intItems (j :: J) ++ T)) = .gt
        rw [this]; simp [cmpNone]
    · simp [intItems, cmpListNil, cmpNone, hi]

theorem padLex_nil_nums : ∀ (I : List Nat), I ≠ [] → normNums I = true →
    padLex (fun (a b : Nat) => compare a b) 0 [] I = .lt
  | [], h, _ => absurd rfl h
  | i :: I, _, hn => by
    by_cases hi : i = 0
    · subst hi
      cases I with
      | nil => simp [normNums] at hn
      | cons j J =>
        have := padLex_nil_nums (j :: J) (by simp) (normNums_tail hn)
        simp [padLex, this]
    · have : compare 0 i = .lt := by rw [Nat.compare_eq_lt]; omega
      simp [padLex, this]

theorem padLex_nums_nil : ∀ (I : List Nat), I ≠ [] → normNums I = true →
    padLex (fun (a b : Nat) => compare a b) 0 I [] = .gt
  | [], h, _ => absurd rfl h
  | i :: I, _, hn => by
    by_cases hi : i = 0
    · subst hi
      cases I with
      | nil => simp [normNums] at hn
      | cons j J =>
        have := padLex_nums_nil (j :: J) (by simp) (normNums_tail hn)
        simp [padLex, this]
    · have : compare i 0 = .gt := by rw [Nat.compare_eq_gt]; omega
      simp [padLex, this]

theorem cmpList_cons_nil (x : Item) (xs : List Item) : cmpList (x :: xs) [] = cmpListNil (x :: xs) := by
  simp [cmpList, cmpListNil]

/-- Lemma A: two dotted numbers without trailing zero, each followed by a tail -/
theorem cmpList_ints : ∀ (I J : List Nat) (Ta Tb : List Item),
    normNums I = true → normNums J = true → IsTail Ta → IsTail Tb →
    cmpList (intItems I ++ Ta) (intItems J ++ Tb)
      = (padLex (fun (a b : Nat) => compare a b) 0 I J).then (cmpList Ta Tb)
  | [], [], Ta, Tb, _, _, _, _ => by simp [intItems, padLex]
  | [], j :: J, Ta, Tb, _, hJ, hTa, _ => by
    rw [padLex_nil_nums (j :: J) (by simp) hJ]
    rcases hTa with rfl | ⟨L, rfl⟩
    · simpa [cmpList, intItems] using cmpNilList_ints (j :: J) Tb (by simp) hJ
    · simp [intItems, cmpList, cmpItem]
  | i :: I, [], Ta, Tb, hI, _, _, hTb => by
    rw [padLex_nums_nil (i :: I) (by simp) hI]
    rcases hTb with rfl | ⟨L, rfl⟩
    · have := cmpListNil_ints (i :: I) Ta (by simp) hI
      simp only [intItems, List.map_cons, List.cons_append] at this
      simp [intItems, cmpList_cons_nil, this]
    · simp [intItems, cmpList, cmpItem]
  | i :: I, j :: J, Ta, Tb, hI, hJ, hTa, hTb => by
    have ih := cmpList_ints I J Ta Tb (normNums_tail hI) (normNums_tail hJ) hTa hTb
    simp only [intItems, List.map_cons, List.cons_append, cmpList, cmpItem, padLex] at ih ⊢
    rw [ih, Ordering.then_assoc]

/-! ### components -/

theorem tokCmp_nums (I J : List Nat) :
    tokCmp (numsTok I) (numsTok J) = padLex (fun (a b : Nat) => compare a b) 0 I J := by
  simp [tokCmp, numsTok, lexPair, lexList]

theorem qualTok_fst_lt (q : List Char) : (qualTok q).1 < 8 := by
  rw [qualTok_eq]
  cases h : qIndex q with
  | some i => have := qIndex_lt h; simp; omega
  | none => simp

theorem tokCmp_qual_nums (q : List Char) (I : List Nat) : tokCmp (qualTok q) (numsTok I) = .lt := by
  have h := qualTok_fst_lt q
  have : compare (qualTok q).1 8 = .lt := by rw [Nat.compare_eq_lt]; exact h
  simp [tokCmp, numsTok, lexPair, this]

theorem tokCmp_nums_qual (q : List Char) (I : List Nat) : tokCmp (numsTok I) (qualTok q) = .gt := by
  rw [OrientedCmp.eq_swap (cmp := tokCmp), tokCmp_qual_nums]; rfl

theorem qualTok_nil : qualTok [] = Tok.null := by decide

theorem tokCmp_qual_null {q : List Char} (hq : q ≠ []) : tokCmp (qualTok q) Tok.null ≠ .eq := by
  unfold qualTok
  repeat' split
  all_goals simp_all [tokCmp, lexPair, Tok.null, lexList, padLex]

theorem tokCmp_nums_null (I : List Nat) : tokCmp (numsTok I) Tok.null = .gt := by
  have : compare 8 5 = Ordering.gt := by decide
  simp [tokCmp, numsTok, Tok.null, lexPair, this]

/-- the two kinds of good components -/
theorem goodSeg_cases {t : List Atom} (h : goodSeg t = true) :
    (∃ q, t = [.str q] ∧ q ≠ []) ∨
    (∃ i I, i ≠ 0 ∧ normNums (i :: I) = true ∧ segTok t = numsTok (i :: I)
      ∧ segItems t = intItems (i :: I)) := by
  unfold goodSeg at h
  split at h
  · next q => exact .inl ⟨q, rfl, by simpa using h⟩
  · next hne =>
    split at h
    · next i I hI =>
      refine .inr ⟨i, I, ?_, ?_, ?_, ints?_items _ _ hI⟩
      · simp at h; exact h.1
      · simp at h; exact h.2
      · unfold segTok
        split
        · next q => exact absurd rfl (hne q)
        · simp [hI]
    · cases h

/-- Lemma G: a good component against the null padding, as the port computes it (`l[0]` only) -/
theorem cmpNone_goodSeg {t : List Atom} (h : goodSeg t = true) (X : List Item) :
    cmpNone (.list (segItems t ++ X)) = tokCmp (segTok t) Tok.null
      ∧ tokCmp (segTok t) Tok.null ≠ .eq := by
  rcases goodSeg_cases h with ⟨q, rfl, hq⟩ | ⟨i, I, hi, _, htok, hitems⟩
  · refine ⟨?_, tokCmp_qual_null hq⟩
    simp [segItems, Atom.item, cmpNone, segTok, stringCompare_eq, qualTok_nil]
  · rw [htok, hitems, tokCmp_nums_null]
    simp [intItems, cmpNone, hi]

/-- Lemma B: two good components, each followed by a tail -/
theorem cmpList_goodSeg {ta tb : List Atom} (ha : goodSeg ta = true) (hb : goodSeg tb = true)
    {Ta Tb : List Item} (hTa : IsTail Ta) (hTb : IsTail Tb) :
    cmpList (segItems ta ++ Ta) (segItems tb ++ Tb)
      = (tokCmp (segTok ta) (segTok tb)).then (cmpList Ta Tb) := by
  rcases goodSeg_cases ha with ⟨q, rfl, _⟩ | ⟨i, I, _, hI, htok, hitems⟩
  · rcases goodSeg_cases hb with ⟨q', rfl, _⟩ | ⟨j, J, _, hJ, htok', hitems'⟩
    · simp [segItems, Atom.item, cmpList, cmpItem, segTok, stringCompare_eq]
    · rw [htok', hitems']
      simp [segItems, Atom.item, intItems, cmpList, cmpItem, segTok, tokCmp_qual_nums]
  · rcases goodSeg_cases hb with ⟨q', rfl, _⟩ | ⟨j, J, _, hJ, htok', hitems'⟩
    · rw [htok, hitems]
      simp [segItems, Atom.item, intItems, cmpList, cmpItem, segTok, tokCmp_nums_qual]
    · rw [htok, hitems, htok', hitems', tokCmp_nums]
      exact cmpList_ints _ _ _ _ hI hJ hTa hTb

theorem cmpList_tailItems : ∀ (ra rb : List (List Atom)),
    ra.all goodSeg = true → rb.all goodSeg = true →
    cmpList (tailItems ra) (tailItems rb) = padLex tokCmp Tok.null (ra.map segTok) (rb.map segTok)
  | [], [], _, _ => by simp [tailItems, cmpList, cmpNilList, padLex]
  | [], tb :: rb, _, hb => by
    simp only [List.all_cons, Bool.and_eq_true] at hb
    obtain ⟨h1, h2⟩ := cmpNone_goodSeg hb.1 (tailItems rb)
    have h3 : tokCmp Tok.null (segTok tb) = (tokCmp (segTok tb) Tok.null).swap :=
      OrientedCmp.eq_swap
    simp only [tailItems, cmpList, cmpNilList, List.map_cons, List.map_nil, padLex, h1, h3]
    cases h : tokCmp (segTok tb) Tok.null <;> simp_all
  | ta :: ra, [], ha, _ => by
    simp only [List.all_cons, Bool.and_eq_true] at ha
    obtain ⟨h1, h2⟩ := cmpNone_goodSeg ha.1 (tailItems ra)
    simp only [tailItems, cmpList, cmpListNil, List.map_cons, List.map_nil, padLex, h1]
    cases h : tokCmp (segTok ta) Tok.null <;> simp_all
  | ta :: ra, tb :: rb, ha, hb => by
    simp only [List.all_cons, Bool.and_eq_true] at ha hb
    have ih := cmpList_tailItems ra rb ha.2 hb.2
    simp only [tailItems, cmpList, cmpItem, cmpNilList, List.map_cons, padLex, Ordering.then_eq]
    rw [cmpList_goodSeg ha.1 hb.1 (isTail_tailItems ra) (isTail_tailItems rb), ih]

/-! ### C03 on the domain: the port orders like Maven's `ComparableVersion` -/

theorem segTok_ints {s : List Atom} {I : List Nat} (h : ints? s = some I) : segTok s = numsTok I := by
  unfold segTok
  split
  · simp [ints?] at h
  · simp [h]

/-- REFINEMENT on `InDomain` -/
theorem vercmp_eq_key_partial (a b : Raw) (ha : InDomain a = true) (hb : InDomain b = true) :
    vercmp a b = keyCmp (key a) (key b) := by
  unfold InDomain at ha hb
  unfold vercmp key keyCmp
  cases hca : chain a.parsed with
  | none => simp [hca] at ha
  | some ca =>
    cases hcb : chain b.parsed with
    | none => simp [hcb] at hb
    | some cb =>
      simp only [hca, hcb, Bool.and_eq_true, goodHead] at ha hb ⊢
      cases hIa : ints? ca.1 with
      | none => simp [hIa] at ha
      | some I =>
        cases hIb : ints? cb.1 with
        | none => simp [hIb] at hb
        | some J =>
          simp only [hIa, hIb] at ha hb
          rw [← chain_unchain _ _ hca, ← chain_unchain _ _ hcb, ints?_items _ _ hIa,
            ints?_items _ _ hIb,
            cmpList_ints I J _ _ ha.1 hb.1 (isTail_tailItems _) (isTail_tailItems _),
            cmpList_tailItems _ _ ha.2 hb.2]
          simp only [List.map_cons, padLex, segTok_ints hIa, segTok_ints hIb, tokCmp_nums]

/-- the domain as a type -/
def Dom : Type := { r : Raw // InDomain r = true }

/-- `vercmp` restricted to the domain -/
def domCmp (a b : Dom) : Ordering := vercmp a.1 b.1

theorem domCmp_eq_key : domCmp = cmpOn (fun (a : Dom) => key a.1) keyCmp := by
  funext a b; exact vercmp_eq_key_partial a.1 b.1 a.2 b.2

/-- C01 on the domain: `vercmp` is a lawful comparator (total preorder) there -/
instance vercmp_transCmp_partial : TransCmp domCmp := by
  rw [domCmp_eq_key]; infer_instance

theorem vercmp_isLE_trans_partial (a b c : Raw) (ha : InDomain a = true) (hb : InDomain b = true)
    (hc : InDomain c = true) (h1 : (vercmp a b).isLE = true) (h2 : (vercmp b c).isLE = true) :
    (vercmp a c).isLE = true :=
  TransCmp.isLE_trans (cmp := domCmp) (a := ⟨a, ha⟩) (b := ⟨b, hb⟩) (c := ⟨c, hc⟩) h1 h2

theorem vercmp_eq_trans_partial (a b c : Raw) (ha : InDomain a = true) (hb : InDomain b = true)
    (hc : InDomain c = true) (h1 : vercmp a b = .eq) (h2 : vercmp b c = .eq) :
    vercmp a c = .eq :=
  TransCmp.eq_trans (cmp := domCmp) (a := ⟨a, ha⟩) (b := ⟨b, hb⟩) (c := ⟨c, hc⟩) h1 h2

/-- `InDomain` looks at the parsed value only (stated so that the examples below evaluate the
parser and the predicate separately) -/
theorem inDomain_congr {r : Raw} {l : List Item} {v : Bool} (h : r.parsed = l)
    (hl : InDomain ⟨l, []⟩ = v) : InDomain r = v := by
  unfold InDomain at hl ⊢; rw [h]; exact hl

/-- the hypothesis is satisfiable, and the known witnesses are outside -/
example : InDomain (mk "1.2.3") = true :=
  inDomain_congr (l := [.int 1, .int 2, .int 3]) rfl (by decide)
example : InDomain (mk "1.0-SNAPSHOT") = true :=
  inDomain_congr (l := [.int 1, .list [.str "snapshot".toList]]) rfl (by decide)
example : InDomain (mk "1.0.0-RC2") = true :=
  inDomain_congr (l := [.int 1, .list [.str "rc".toList, .list [.int 2]]]) rfl (by decide)
example : InDomain (mk "2.0-beta-3-4.1-sp") = true :=
  inDomain_congr (l := [.int 2, .list [.str "beta".toList, .list [.int 3, .list [.int 4, .int 1,
    .list [.str "sp".toList]]]]]) rfl (by decide)
example : InDomain (mk "") = true := inDomain_congr (l := []) rfl (by decide)
example : InDomain (mk "1-0.1") = false :=
  inDomain_congr (l := [.int 1, .list [.int 0, .int 1]]) rfl (by decide)
example : InDomain (mk "1.x") = false :=
  inDomain_congr (l := [.int 1, .str ['x']]) rfl (by decide)
example : InDomain (mk "1.0.rc") = false :=
  inDomain_congr (l := [.int 1, .int 0, .str ['r', 'c']]) rfl (by decide)
example : InDomain (mk "1-ga-1") = false :=
  inDomain_congr (l := [.int 1, .list [.list [.int 1]]]) rfl (by decide)

/-! ### C02: the six operators -/

theorem verOps_lawful : Lawful verOps vercmp := by
  constructor <;> intro a b <;>
    simp only [verOps, valOps, Univers.Py.attrsOps] <;>
    cases vercmp a b <;> rfl

/-! ### C12: `==` against `hash` -/

/-- `MavenVersion("1.0") == MavenVersion("1")` with different hashes: the hash is the hash of
the unparsed text -/
theorem eq_imp_hash_counterexample :
    verOps.eq (mk "1.0") (mk "1") = true ∧ hashKey (mk "1.0") ≠ hashKey (mk "1") := by decide

/-- what `construct` establishes -/
def WellFormed (r : Raw) : Prop := normalizeStr r.text = r.text ∧ r.parsed = parse r.text

theorem vercmp_self (a : Raw) : vercmp a a = .eq := ReflCmp.compare_self

/-- the converse holds: same text, equal versions -/
theorem hash_imp_eq (a b : Raw) (ha : WellFormed a) (hb : WellFormed b)
    (h : hashKey a = hashKey b) : verOps.eq a b = true := by
  have : a.parsed = b.parsed := by rw [ha.2, hb.2]; exact congrArg parse h
  have h2 : vercmp a b = .eq := by
    have := vercmp_self a
    unfold vercmp at this ⊢
    rwa [← ‹a.parsed = b.parsed›]
  simp [verOps, valOps, Univers.Py.attrsOps, h2]

/-! ### C11: `str` round trip -/

theorem normalizeStr_idem (s : List Char) : normalizeStr (normalizeStr s) = normalizeStr s := by
  unfold normalizeStr
  have h1 : ∀ l : List Char, (∀ c ∈ l, (!isSpace c) = true) →
      (l.dropWhile (fun c => c == 'v' || c == 'V')).filter (fun c => !isSpace c)
        = l.dropWhile (fun c => c == 'v' || c == 'V') := by
    intro l hl
    rw [List.filter_eq_self]
    intro c hc
    exact hl c ((List.dropWhile_sublist _).subset hc)
  rw [h1 _ (by intro c hc; exact (List.mem_filter.mp hc).2)]
  generalize s.filter (fun c => !isSpace c) = l
  induction l with
  | nil => rfl
  | cons x xs ih =>
    by_cases hx : (x == 'v' || x == 'V') = true
    · simp only [List.dropWhile_cons, hx, if_true]; exact ih
    · simp [hx]

theorem construct_wellFormed (s : List Char) (r : Raw) (h : construct s = .ok r) : WellFormed r := by
  simp only [construct, Except.ok.injEq] at h
  subst h
  exact ⟨normalizeStr_idem s, rfl⟩

theorem str_roundtrip (r : Raw) (h : WellFormed r) : construct (str r) = .ok r := by
  obtain ⟨h1, h2⟩ := h
  cases r with
  | mk p t =>
    simp only [construct, str, Except.ok.injEq, Raw.mk.injEq] at h1 h2 ⊢
    rw [h1]; exact ⟨h2.symm, rfl⟩

end Univers.Maven
