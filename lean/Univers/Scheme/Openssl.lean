/-
Layer A model of `univers.versions.LegacyOpensslVersion` (scheme `legacy_openssl`, namespace
`Univers.Openssl.Legacy`) and `univers.versions.OpensslVersion` (scheme `openssl`, namespace
`Univers.Openssl`), the latter built on the former and on `Univers.Semver`.

`LegacyOpensslVersion`:
* `parse` with its table of base versions, every `int(...)` and `patch[0]` that could raise
  kept as an `Except` (theorem `Legacy.parse_no_raise` in `OpensslThm.lean`: on ASCII text none
  of them is reachable behind the `startswith` test);
* `is_valid`, `build_value`, `__str__`;
* hand-written `__lt__`/`__gt__` with the pre-release rule, hand-written `__le__`/`__ge__`
  (`lt or ==`, `gt or ==`); `__eq__ __ne__ __hash__` INHERITED from the attrs-generated methods
  of `Version`.  The class is not
  re-decorated with `attr.s`, so its `attr.ib` declarations `major/minor/build/patch` are not
  attrs fields: `attr.fields(LegacyOpensslVersion)` = `string, normalized_string, value`, and only
  `value` (the 4-tuple) takes part in eq / order / hash.

`OpensslVersion`: `is_valid_new`, `is_valid_legacy`, `is_valid`, `build_value` (value = a
`LegacyOpensslVersion` or a `SemverVersion` OBJECT), hand-written `__eq__ __lt__ __gt__ __le__
__ge__`, inherited attrs `__ne__` (which calls `self.__eq__`), `__hash__` = `hash(self.value)`.
No Mathlib.
-/
import Univers.Scheme.Semver

namespace Univers.Openssl

open Univers
open Univers.Semver (isPySpace removeSpaces lstripV parseNat natStr isDigitStr
  splitOn strCmp tupleOp)

/-- the constructor outcomes are those of the semver model (`invalid` / another exception) -/
abbrev PErr := Semver.PErr

namespace Legacy

/-- the tuple `(major, minor, build, patch)` returned by `parse` -/
structure Raw where
  major : Nat
  minor : Nat
  build : Nat
  patch : List Char
  deriving DecidableEq, Repr

/-- `all_legacy_base` -/
def legacyBases : List (List Char) :=
  ["0.9.1", "0.9.2", "0.9.3", "0.9.4", "0.9.5", "0.9.6", "0.9.7", "0.9.8",
   "1.0.0", "1.0.1", "1.0.2", "1.1.0", "1.1.1"].map String.toList

/-- `int(s)`: on a non-empty string of ASCII digits the number, otherwise `ValueError`.
(Python's `int` also accepts a sign, `_` between digits and surrounding blanks; these forms
cannot reach the three calls in `parse`, see `parse_no_raise`.) -/
def pyInt (s : List Char) : Except PErr Nat :=
  if isDigitStr s then .ok (parseNat s) else .error (.other "ValueError")

/-- `LegacyOpensslVersion.parse(string)`: `.ok none` = returns `False` -/
def parse (s : List Char) : Except PErr (Option Raw) :=
  if !(legacyBases.any fun b => b.isPrefixOf s) then .ok none
  else match splitOn '.' s with
    | [majorS, minorS, buildS] => do
      let major ← pyInt majorS
      let minor ← pyInt minorS
      if isDigitStr buildS then
        -- `if str(int(build)) != build: return False` (no leading zeros, e.g. `1.0.05`)
        if natStr (parseNat buildS) != buildS then .ok none
        else .ok (some ⟨major, minor, parseNat buildS, []⟩)
      else
        let patch := buildS.drop 1
        -- `build[0]` of an empty string
        match buildS with
        | [] => .error (.other "IndexError")
        | b0 :: _ => do
          let build ← pyInt [b0]
          -- `patch[0]` of an empty string
          match patch with
          | [] => .error (.other "IndexError")
          | p0 :: _ => if p0.isDigit then .ok none else .ok (some ⟨major, minor, build, patch⟩)
    | _ => .ok none

/-- `is_valid`: `bool(cls.parse(string))` (a 4-tuple is truthy, `False` is not) -/
def isValid (s : List Char) : Except PErr Bool := do
  let r ← parse s
  .ok r.isSome

/-- `LegacyOpensslVersion(string)`: `Version.__attrs_post_init__` then the unpacking of
`self.value` (a `TypeError` if `build_value` returned `False`, impossible after `is_valid`). -/
def construct (s : List Char) : Except PErr Raw := do
  let n := Semver.normalize s
  if !(← isValid n) then .error .invalid
  else match ← parse n with
    | some v => .ok v
    | none => .error (.other "TypeError")

/-- `f"{self.major}.{self.minor}.{self.build}{self.patch}"` -/
def str (r : Raw) : List Char :=
  natStr r.major ++ '.' :: natStr r.minor ++ '.' :: natStr r.build ++ r.patch

/-- `is_prerelease`: `self.patch.startswith(("-beta", "-alpha"))` -/
def isPrerelease (r : Raw) : Bool :=
  "-beta".toList.isPrefixOf r.patch || "-alpha".toList.isPrefixOf r.patch

/-- comparison of the value tuples `(int, int, int, str)`, position by position -/
def tupleCmp (a b : Raw) : Ordering :=
  (compare a.major b.major).then ((compare a.minor b.minor).then
    ((compare a.build b.build).then (strCmp a.patch b.patch)))

/-- the six operators of the VALUE objects: plain tuples -/
def valOps : VOps Raw := Py.opsOfSign tupleCmp

/-- same base, and one and only one of the two is a pre-release -/
def mixedPre (a b : Raw) : Bool :=
  (a.major == b.major && a.minor == b.minor && a.build == b.build) &&
    (isPrerelease a != isPrerelease b)

/-- `__lt__`/`__gt__` hand-written with the pre-release rule; `__le__` = `self.__lt__(other) or
self == other`, `__ge__` = `self.__gt__(other) or self == other` (hand-written since the repair of
the C02 defect); `__eq__`/`__ne__` inherited from attrs on `(self.value,)` -/
def verOps : VOps Raw where
  lt a b := if mixedPre a b then isPrerelease a else valOps.lt a b
  gt a b := if mixedPre a b then isPrerelease b else valOps.gt a b
  eq a b := (Py.attrsOps valOps).eq a b
  ne a b := (Py.attrsOps valOps).ne a b
  le a b := (if mixedPre a b then isPrerelease a else valOps.lt a b) || (Py.attrsOps valOps).eq a b
  ge a b := (if mixedPre a b then isPrerelease b else valOps.gt a b) || (Py.attrsOps valOps).eq a b

/-- the three-way result of the two hand-written operators -/
def vercmp (a b : Raw) : Ordering :=
  if verOps.lt a b then .lt else if verOps.gt a b then .gt else .eq

def hashable : Bool := true

/-- attrs `__hash__` hashes `(salt, self.value)` -/
def hashKey (r : Raw) : Nat × Nat × Nat × List Char := (r.major, r.minor, r.build, r.patch)

end Legacy

/-- `OpensslVersion.value`: a `LegacyOpensslVersion` object or a `SemverVersion` object -/
inductive Raw where
  | legacy (v : Legacy.Raw)
  | modern (v : Semver.Raw)
  deriving DecidableEq, Repr

/-- `is_valid_new`: `None` (falsy) when `SemverVersion.is_valid` fails, else `major >= 3`;
`semantic_version.Version.coerce(string)` is the same `coerce` run a second time. -/
def isValidNew (s : List Char) : Bool :=
  if Semver.isValid false s then
    match Semver.coerce s with
    | some sem => sem.major ≥ 3
    | none => false
  else false

/-- `is_valid_legacy` -/
def isValidLegacy (s : List Char) : Except PErr Bool := Legacy.isValid s

/-- `is_valid`: `is_valid_new(string) or is_valid_legacy(string)` -/
def isValid (s : List Char) : Except PErr Bool :=
  if isValidNew s then .ok true else isValidLegacy s

/-- the errors of the inner constructors pass through unchanged
(`InvalidVersion` stays `InvalidVersion`) -/
def liftSemver : Except Semver.PErr Semver.Raw → Except PErr Raw
  | .ok v => .ok (.modern v)
  | .error e => .error e

/-- `build_value`; `none` = the implicit `return None` -/
def buildValue (s : List Char) : Except PErr (Option Raw) := do
  if ← isValidLegacy s then
    let v ← Legacy.construct s
    .ok (some (.legacy v))
  else if isValidNew s then
    let v ← liftSemver (Semver.construct s)
    .ok (some v)
  else .ok none

/-- `OpensslVersion(string)`.  A `None` value cannot arise after `is_valid`; it is kept as an
impossible outcome. -/
def construct (s : List Char) : Except PErr Raw := do
  let n := Semver.normalize s
  if !(← isValid n) then .error .invalid
  else match ← buildValue n with
    | some v => .ok v
    | none => .error (.other "NoneValue")

/-- `Version.__str__`: `str(self.value)` -/
def str : Raw → List Char
  | .legacy v => Legacy.str v
  | .modern v => Semver.str v

/-- there is no separate value layer: the operators of the inner objects are called directly -/
def valOps : VOps Raw where
  eq
    | .legacy a, .legacy b => Legacy.verOps.eq a b
    | .modern a, .modern b => Semver.verOps.eq a b
    | _, _ => false
  ne
    | .legacy a, .legacy b => Legacy.verOps.ne a b
    | .modern a, .modern b => Semver.verOps.ne a b
    | _, _ => true
  lt
    | .legacy a, .legacy b => Legacy.verOps.lt a b
    | .modern a, .modern b => Semver.verOps.lt a b
    | .legacy _, .modern _ => true
    | .modern _, .legacy _ => false
  le
    | .legacy a, .legacy b => Legacy.verOps.le a b
    | .modern a, .modern b => Semver.verOps.le a b
    | .legacy _, .modern _ => true
    | .modern _, .legacy _ => false
  gt
    | .legacy a, .legacy b => Legacy.verOps.gt a b
    | .modern a, .modern b => Semver.verOps.gt a b
    | .legacy _, .modern _ => false
    | .modern _, .legacy _ => true
  ge
    | .legacy a, .legacy b => Legacy.verOps.ge a b
    | .modern a, .modern b => Semver.verOps.ge a b
    | .legacy _, .modern _ => false
    | .modern _, .legacy _ => true

/-- `OpensslVersion.__eq__/__lt__/__gt__/__le__/__ge__`, method by method.
Same value class: the dunder of the inner object is called (`LegacyOpensslVersion.__lt__`,
the attrs-generated `SemverVersion.__lt__`, …).  Different value classes: `__eq__` returns
`NotImplemented` on both sides, Python falls back to identity (`False`); the inherited attrs
`__ne__` calls `self.__eq__`, gets `NotImplemented`, Python falls back to `is not` (`True`);
the four order operators answer by the class of `self.value`. -/
def verOps : VOps Raw := valOps

/-- the three-way result of the hand-written `__lt__` and `__gt__` -/
def vercmp (a b : Raw) : Ordering :=
  if verOps.lt a b then .lt else if verOps.gt a b then .gt else .eq

/-- `OpensslVersion.__hash__` returns `hash(self.value)` -/
def hashable : Bool := true

/-- `hash(self.value)`: the attrs hash of the inner `LegacyOpensslVersion` (its value tuple) or
`SemverVersion` (its five fields) -/
def hashKey (r : Raw) : Raw := r

end Univers.Openssl
