/-
Theorems for the semver family: the tuple comparison of `precedence_key` that the code performs
is the SemVer §11 key order (refinement), the operators are the ones induced by it, equal
versions hash equally, `next_*` bracket their version, printing round-trips.
No Mathlib.
-/
import Univers.Scheme.SemverSpec
import Univers.Vers.Spec

namespace Univers.Semver

open Std

/-! ### generic facts on `lexList`, `tupleEq`, `tupleOp` -/

theorem lexList_eq_iff {α : Type} (c : α → α → Ordering) (hc : ∀ x y, c x y = .eq ↔ x = y) :
    ∀ a b : List α, lexList c a b = .eq ↔ a = b := by
  intro a
  induction a with
  | nil => intro b; cases b <;> simp [lexList]
  | cons x xs ih =>
    intro b
    cases b with
    | nil => simp [lexList]
    | cons y ys => simp [lexList, Ordering.then_eq_eq, hc, ih]

theorem charCmp_eq_iff (x y : Char) : charCmp x y = .eq ↔ x = y := by
  simp [charCmp, Char.toNat_inj]

theorem strCmp_def (a b : List Char) : strCmp a b = lexList charCmp a b := rfl

theorem strCmp_eq_iff (a b : List Char) : strCmp a b = .eq ↔ a = b :=
  lexList_eq_iff charCmp charCmp_eq_iff a b

theorem tupleEq_eq_lexList {α : Type} (eq : α → α → Bool) (c : α → α → Ordering)
    (heq : ∀ x y, eq x y = (c x y == .eq)) :
    ∀ a b, tupleEq eq a b = (lexList c a b == .eq) := by
  intro a
  induction a with
  | nil => intro b; cases b <;> simp [tupleEq, lexList]
  | cons x xs ih =>
    intro b
    cases b with
    | nil => simp [tupleEq, lexList]
    | cons y ys =>
      simp only [tupleEq, lexList, heq, ih]
      cases c x y <;> simp [Ordering.then]

/-- what an ordering operator means on a three-way result, and on tuple lengths -/
structure OpMeaning (P : Ordering → Bool) (opLen : Nat → Nat → Bool) : Prop where
  len : ∀ m n, opLen m n = P (compare m n)

theorem tupleOp_eq_lexList {α : Type} (eq op : α → α → Bool) (c : α → α → Ordering)
    (P : Ordering → Bool) (opLen : Nat → Nat → Bool) (hP : OpMeaning P opLen)
    (heq : ∀ x y, eq x y = (c x y == .eq))
    (hop : ∀ x y, c x y ≠ .eq → op x y = P (c x y)) :
    ∀ a b, tupleOp eq op opLen a b = P (lexList c a b) := by
  intro a
  induction a with
  | nil =>
    intro b
    cases b with
    | nil => simp [tupleOp, lexList, hP.len]
    | cons y ys =>
      simp only [tupleOp, lexList, hP.len]
      congr 1
  | cons x xs ih =>
    intro b
    cases b with
    | nil =>
      simp only [tupleOp, lexList, hP.len]
      congr 1
    | cons y ys =>
      simp only [tupleOp, lexList, heq]
      cases h : c x y
      · simp [Ordering.then, hop x y (by simp [h]), h]
      · simp [Ordering.then, ih]
      · simp [Ordering.then, hop x y (by simp [h]), h]


/-! ### the identifiers of `precedence_key` -/

/-- the order the three identifier classes implement: numeric < alphanumeric < Max -/
def identCmp : Ident → Ident → Ordering
  | .num a, .num b => compare a b
  | .num _, .alpha _ => .lt
  | .num _, .max => .lt
  | .alpha _, .num _ => .gt
  | .alpha a, .alpha b => strCmp a b
  | .alpha _, .max => .lt
  | .max, .max => .eq
  | .max, _ => .gt

theorem nat_lt_iff (a b : Nat) : decide (a < b) = (compare a b == .lt) := by
  rcases Nat.lt_trichotomy a b with h | h | h
  · simp [Nat.compare_eq_lt.mpr h, h]
  · subst h; simp
  · simp [Nat.compare_eq_gt.mpr h]; omega
theorem nat_le_iff (a b : Nat) : decide (a ≤ b) = (compare a b != .gt) := by
  rcases Nat.lt_trichotomy a b with h | h | h
  · rw [Nat.compare_eq_lt.mpr h]; exact decide_eq_true (Nat.le_of_lt h)
  · subst h; simp
  · simp [Nat.compare_eq_gt.mpr h]; omega
theorem nat_gt_iff (a b : Nat) : decide (a > b) = (compare a b == .gt) := by
  rcases Nat.lt_trichotomy a b with h | h | h
  · simp [Nat.compare_eq_lt.mpr h]; omega
  · subst h; simp
  · simp [Nat.compare_eq_gt.mpr h, h]
theorem nat_ge_iff (a b : Nat) : decide (a ≥ b) = (compare a b != .lt) := by
  rcases Nat.lt_trichotomy a b with h | h | h
  · simp [Nat.compare_eq_lt.mpr h, h]
  · subst h; simp
  · rw [Nat.compare_eq_gt.mpr h]; exact decide_eq_true (Nat.le_of_lt h)
theorem nat_beq_iff (a b : Nat) : (a == b) = (compare a b == .eq) := by
  rcases Nat.lt_trichotomy a b with h | h | h
  · simp [Nat.compare_eq_lt.mpr h]; omega
  · subst h; simp
  · simp [Nat.compare_eq_gt.mpr h]; omega

theorem str_beq_iff (a b : List Char) : (a == b) = (strCmp a b == .eq) := by
  cases h : strCmp a b <;> simp_all [← strCmp_eq_iff]

theorem Ident.eq_iff (x y : Ident) : Ident.eq x y = (identCmp x y == .eq) := by
  cases x <;> cases y <;> simp only [Ident.eq, identCmp, nat_beq_iff, str_beq_iff] <;> rfl

theorem Ident.lt_iff (x y : Ident) : Ident.lt x y = (identCmp x y == .lt) := by
  cases x <;> cases y <;> simp only [Ident.lt, identCmp, nat_lt_iff] <;> rfl

theorem Ident.gt_iff (x y : Ident) : Ident.gt x y = (identCmp x y == .gt) := by
  cases x <;> cases y <;>
    simp only [Ident.gt, identCmp, nat_lt_iff, bne, nat_beq_iff, str_beq_iff] <;> (try rfl)
  · rename_i a b; cases compare a b <;> rfl
  · rename_i a b; cases strCmp a b <;> rfl

theorem Ident.le_iff (x y : Ident) (h : identCmp x y ≠ .eq) :
    Ident.le x y = (identCmp x y != .gt) := by
  cases x <;> cases y <;>
    simp only [Ident.le, identCmp, nat_lt_iff, bne, nat_beq_iff, str_beq_iff] at h ⊢ <;> (try rfl)
  · rename_i a b; cases compare a b <;> rfl
  · rename_i a b; cases strCmp a b <;> rfl
  · exact absurd rfl h

theorem Ident.ge_iff (x y : Ident) (h : identCmp x y ≠ .eq) :
    Ident.ge x y = (identCmp x y != .lt) := by
  cases x <;> cases y <;>
    simp only [Ident.ge, identCmp, nat_lt_iff, bne] at h ⊢ <;> (try rfl)
  · exact absurd rfl h


/-! ### refinement: tuple comparison of `precedence_key` = the §11 key order -/

/-- the lexicographic order that CPython's tuple comparison of two precedence keys realises -/
def pkeyCmp (a b : PKey) : Ordering :=
  (compare a.major b.major).then ((compare a.minor b.minor).then ((compare a.patch b.patch).then
    ((lexList identCmp a.pre b.pre).then (lexList strCmp a.build b.build))))

/-- an operator family computes `P` of the three-way result on every kind of item -/
structure OpOK (o : Op) (P : Ordering → Bool) : Prop where
  nat : ∀ a b, o.nat a b = P (compare a b)
  ident : ∀ x y, identCmp x y ≠ .eq → o.ident x y = P (identCmp x y)
  str : ∀ x y, strCmp x y ≠ .eq → o.str x y = P (strCmp x y)

theorem opLt_ok : OpOK opLt (· == .lt) :=
  ⟨nat_lt_iff, fun x y _ => Ident.lt_iff x y, fun _ _ _ => rfl⟩
theorem opGt_ok : OpOK opGt (· == .gt) :=
  ⟨nat_gt_iff, fun x y _ => Ident.gt_iff x y, fun _ _ _ => rfl⟩
theorem opLe_ok : OpOK opLe (· != .gt) :=
  ⟨nat_le_iff, Ident.le_iff, fun _ _ _ => rfl⟩
theorem opGe_ok : OpOK opGe (· != .lt) :=
  ⟨nat_ge_iff, Ident.ge_iff, fun _ _ _ => rfl⟩

theorem then_of_ne_eq {o p : Ordering} (h : o ≠ .eq) : o.then p = o := by
  cases o <;> simp_all [Ordering.then]

theorem nat_bne_true {a b : Nat} (h : (a != b) = true) : compare a b ≠ .eq := by
  intro h'; rw [Nat.compare_eq_eq] at h'; subst h'; simp at h

theorem nat_bne_false {a b : Nat} (h : ¬ (a != b) = true) : compare a b = .eq := by
  rw [Nat.compare_eq_eq]; simpa using h

theorem keyOp_eq (o : Op) (P : Ordering → Bool) (h : OpOK o P) (a b : PKey) :
    keyOp o a b = P (pkeyCmp a b) := by
  unfold keyOp pkeyCmp
  split
  · rename_i h1; rw [then_of_ne_eq (nat_bne_true h1), h.nat]
  · rename_i h1; rw [nat_bne_false h1, Ordering.eq_then]
    split
    · rename_i h2; rw [then_of_ne_eq (nat_bne_true h2), h.nat]
    · rename_i h2; rw [nat_bne_false h2, Ordering.eq_then]
      split
      · rename_i h3; rw [then_of_ne_eq (nat_bne_true h3), h.nat]
      · rename_i h3; rw [nat_bne_false h3, Ordering.eq_then]
        rw [tupleEq_eq_lexList Ident.eq identCmp Ident.eq_iff]
        split
        · rename_i h4
          have h4' : lexList identCmp a.pre b.pre ≠ .eq := by
            intro e; rw [e] at h4; simp at h4
          rw [then_of_ne_eq h4']
          exact tupleOp_eq_lexList Ident.eq o.ident identCmp P o.nat ⟨h.nat⟩ Ident.eq_iff h.ident _ _
        · rename_i h4
          have h4' : lexList identCmp a.pre b.pre = .eq := by
            cases e : lexList identCmp a.pre b.pre <;> simp_all
          rw [h4', Ordering.eq_then]
          exact tupleOp_eq_lexList (fun x y => x == y) o.str strCmp P o.nat ⟨h.nat⟩ str_beq_iff h.str _ _

theorem identCmp_identOf (p q : List Char) :
    identCmp (identOf p) (identOf q) = idCmp (sid p) (sid q) := by
  unfold identOf sid
  split <;> split <;> rfl

theorem lexList_map_ident (ps qs : List (List Char)) :
    lexList identCmp (ps.map identOf) (qs.map identOf) = lexList idCmp (ps.map sid) (qs.map sid) := by
  induction ps generalizing qs with
  | nil => cases qs <;> rfl
  | cons p ps ih =>
    cases qs with
    | nil => rfl
    | cons q qs => simp only [List.map, lexList, identCmp_identOf, ih]

theorem identCmp_max_identOf (q : List Char) : identCmp .max (identOf q) = .gt := by
  unfold identOf; split <;> rfl

theorem identCmp_identOf_max (q : List Char) : identCmp (identOf q) .max = .lt := by
  unfold identOf; split <;> rfl

theorem pre_refines_aux : ∀ pa pb : List (List Char),
    lexList identCmp (if pa.isEmpty then [Ident.max] else pa.map identOf)
        (if pb.isEmpty then [Ident.max] else pb.map identOf) =
      preCmp (if pa.isEmpty then (1, []) else (0, pa.map sid))
        (if pb.isEmpty then (1, []) else (0, pb.map sid))
  | [], [] => rfl
  | [], q :: qs => by
    show (identCmp .max (identOf q)).then _ = _
    rw [identCmp_max_identOf]; rfl
  | p :: ps, [] => by
    show (identCmp (identOf p) .max).then _ = _
    rw [identCmp_identOf_max]; rfl
  | p :: ps, q :: qs => by
    show lexList identCmp ((p :: ps).map identOf) ((q :: qs).map identOf) = _
    rw [lexList_map_ident]; rfl

theorem pre_refines (a b : Raw) :
    lexList identCmp (precedenceKey a).pre (precedenceKey b).pre =
      preCmp (key a).2.2.2.1 (key b).2.2.2.1 :=
  pre_refines_aux a.pre b.pre

theorem pkeyCmp_eq_keyCmp (a b : Raw) :
    pkeyCmp (precedenceKey a) (precedenceKey b) = keyCmp (key a) (key b) := by
  unfold pkeyCmp
  rw [pre_refines]
  rfl

theorem valOps_lt_iff (a b : Raw) : valOps.lt a b = (keyCmp (key a) (key b) == .lt) := by
  show keyOp opLt _ _ = _; rw [keyOp_eq _ _ opLt_ok, pkeyCmp_eq_keyCmp]
theorem valOps_gt_iff (a b : Raw) : valOps.gt a b = (keyCmp (key a) (key b) == .gt) := by
  show keyOp opGt _ _ = _; rw [keyOp_eq _ _ opGt_ok, pkeyCmp_eq_keyCmp]
theorem valOps_le_iff (a b : Raw) : valOps.le a b = (keyCmp (key a) (key b) != .gt) := by
  show keyOp opLe _ _ = _; rw [keyOp_eq _ _ opLe_ok, pkeyCmp_eq_keyCmp]
theorem valOps_ge_iff (a b : Raw) : valOps.ge a b = (keyCmp (key a) (key b) != .lt) := by
  show keyOp opGe _ _ = _; rw [keyOp_eq _ _ opGe_ok, pkeyCmp_eq_keyCmp]

/-- REFINEMENT (C01/C03): the comparison the code computes is the SemVer §11 key order with
the build tie-break, for all values. -/
theorem vercmp_eq_key (a b : Raw) : vercmp a b = keyCmp (key a) (key b) := by
  unfold vercmp
  rw [valOps_lt_iff, valOps_gt_iff]
  cases keyCmp (key a) (key b) <;> rfl

instance : TransCmp vercmp := by
  have : vercmp = cmpOn key keyCmp := by funext a b; exact vercmp_eq_key a b
  rw [this]; infer_instance


/-! ### decimal numerals -/

theorem digitChar_toNat : ∀ n, n < 10 → (Nat.digitChar n).toNat = n + 48 := by decide

theorem digitChar_sub (c : Char) (h : c.isDigit = true) : (c.toNat - 48).digitChar = c := by
  have h' := Char.isDigit_iff_toNat.mp h
  simp only [Char.reduceToNat] at h'
  apply Char.toNat_inj.mp
  rw [digitChar_toNat _ (by omega)]; omega

theorem natStr_lt_ten {d : Nat} (h : d < 10) : natStr d = [d.digitChar] :=
  Nat.toDigits_of_lt_base h

theorem natStr_ofDigitChars (cs : List Char) : ∀ n, (∀ c ∈ cs, c.isDigit = true) → 0 < n →
    natStr (Nat.ofDigitChars 10 cs n) = natStr n ++ cs := by
  induction cs with
  | nil => intro n _ _; simp [Nat.ofDigitChars]
  | cons c cs ih =>
    intro n hd hn
    have hc : c.isDigit = true := hd c (by simp)
    have hc' := Char.isDigit_iff_toNat.mp hc
    simp only [Char.reduceToNat] at hc'
    rw [Nat.ofDigitChars_cons, ih _ (fun x hx => hd x (by simp [hx])) (by omega)]
    show Nat.toDigits 10 (10 * n + (c.toNat - 48)) ++ cs = Nat.toDigits 10 n ++ c :: cs
    rw [← Nat.toDigits_append_toDigits (by decide) hn (by omega : c.toNat - 48 < 10),
      Nat.toDigits_of_lt_base (by omega : c.toNat - 48 < 10), digitChar_sub c hc]
    simp

theorem isDigitStr_iff (s : List Char) :
    isDigitStr s = true ↔ s ≠ [] ∧ ∀ c ∈ s, c.isDigit = true := by
  cases s <;> simp [isDigitStr]

/-- a decimal numeral without superfluous leading zero prints back to itself -/
theorem natStr_parseNat (s : List Char) (hd : isDigitStr s = true) (hz : hasLeadingZero s = false) :
    natStr (parseNat s) = s := by
  obtain ⟨hne, hall⟩ := (isDigitStr_iff s).mp hd
  cases s with
  | nil => exact absurd rfl hne
  | cons c cs =>
    have hc : c.isDigit = true := hall c (by simp)
    have hc' := Char.isDigit_iff_toNat.mp hc
    simp only [Char.reduceToNat] at hc'
    by_cases h0 : c = '0'
    · subst h0
      have : cs = [] := by
        simp only [hasLeadingZero, hd] at hz
        simpa using hz
      subst this; rfl
    · have hpos : 0 < c.toNat - 48 := by
        have : c.toNat ≠ 48 := fun e => h0 (Char.toNat_inj.mp (by simpa using e))
        omega
      show natStr (Nat.ofDigitChars 10 (c :: cs) 0) = _
      rw [Nat.ofDigitChars_cons]
      show natStr (Nat.ofDigitChars 10 cs (10 * 0 + (c.toNat - 48))) = _
      rw [natStr_ofDigitChars cs _ (fun x hx => hall x (by simp [hx])) (by omega)]
      simp only [Nat.mul_zero, Nat.zero_add]
      rw [natStr_lt_ten (by omega), digitChar_sub c hc]; rfl

/-! ### well-formedness, and the operators -/

/-- no numeric pre-release identifier has a leading zero (`_validate_identifiers`) -/
def PreCanon (r : Raw) : Prop := ∀ p ∈ r.pre, hasLeadingZero p = false

instance (r : Raw) : Decidable (PreCanon r) := by unfold PreCanon; infer_instance

theorem sid_inj (p q : List Char) (hp : hasLeadingZero p = false) (hq : hasLeadingZero q = false)
    (h : sid p = sid q) : p = q := by
  unfold sid at h
  split at h <;> split at h
  · rename_i h1 h2
    have := SId.num.inj h
    rw [← natStr_parseNat p h1 hp, ← natStr_parseNat q h2 hq, this]
  · cases h
  · cases h
  · exact SId.alnum.inj h

theorem idCmp_eq_iff (x y : SId) : idCmp x y = .eq ↔ x = y := by
  cases x <;> cases y <;> simp [idCmp]
  exact lexList_eq_iff charCmp charCmp_eq_iff _ _

theorem map_sid_inj : ∀ ps qs : List (List Char), (∀ p ∈ ps, hasLeadingZero p = false) →
    (∀ q ∈ qs, hasLeadingZero q = false) → ps.map sid = qs.map sid → ps = qs
  | [], [], _, _, _ => rfl
  | [], _ :: _, _, _, h => by simp at h
  | _ :: _, [], _, _, h => by simp at h
  | p :: ps, q :: qs, hp, hq, h => by
    simp only [List.map, List.cons.injEq] at h
    rw [sid_inj p q (hp p (by simp)) (hq q (by simp)) h.1,
      map_sid_inj ps qs (fun x hx => hp x (by simp [hx])) (fun x hx => hq x (by simp [hx])) h.2]

theorem valOps_eq_iff (a b : Raw) : valOps.eq a b = decide (a = b) := by
  cases a; cases b
  rw [Bool.eq_iff_iff]
  simp [valOps, Raw.mk.injEq, and_assoc]

theorem keyCmp_self (k : Key) : keyCmp k k = .eq := ReflCmp.compare_self

/-- on canonical values: equal key ⇒ structurally equal -/
theorem eq_of_keyCmp_eq (a b : Raw) (ha : PreCanon a) (hb : PreCanon b)
    (h : keyCmp (key a) (key b) = .eq) : a = b := by
  cases a with | mk ma mi pa pra ba => ?_
  cases b with | mk mb mib pb prb bb => ?_
  simp only [keyCmp, key, lexPair, preCmp, buildCmp, natCmp, Ordering.then_eq_eq, Nat.compare_eq_eq] at h
  obtain ⟨h1, h2, h3, ⟨h4, h5⟩, h6⟩ := h
  subst h1 h2 h3
  have h6' : ba = bb :=
    (lexList_eq_iff _ (lexList_eq_iff charCmp charCmp_eq_iff) _ _).mp h6
  subst h6'
  have h5' := (lexList_eq_iff idCmp idCmp_eq_iff _ _).mp h5
  have : pra = prb := by
    cases pra <;> cases prb
    · rfl
    · simp at h4
    · simp at h4
    · simp only [List.isEmpty_cons, Bool.false_eq_true, if_false] at h5'
      exact map_sid_inj _ _ ha hb h5'
  subst this; rfl

/-- C02 for the four order operators, on ALL values -/
theorem verOps_order_lawful (a b : Raw) :
    verOps.lt a b = (vercmp a b == .lt) ∧ verOps.gt a b = (vercmp a b == .gt) ∧
    verOps.le a b = (vercmp a b != .gt) ∧ verOps.ge a b = (vercmp a b != .lt) := by
  simp only [verOps, Py.attrsOps, valOps_eq_iff, vercmp_eq_key]
  rw [valOps_lt_iff, valOps_gt_iff, valOps_le_iff, valOps_ge_iff]
  by_cases h : a = b
  · subst h; simp [keyCmp_self]
  · simp [h]

/-- C02 for `==` / `!=` -/
theorem verOps_eq_lawful (a b : Raw) (ha : PreCanon a) (hb : PreCanon b) :
    verOps.eq a b = (vercmp a b == .eq) ∧ verOps.ne a b = (vercmp a b != .eq) := by
  simp only [verOps, Py.attrsOps, valOps_eq_iff, vercmp_eq_key]
  by_cases h : a = b
  · subst h; simp [keyCmp_self]
  · have : keyCmp (key a) (key b) ≠ .eq := fun e => h (eq_of_keyCmp_eq a b ha hb e)
    simp [h, this]

/-- the values the constructors can produce -/
def CanonRaw : Type := { r : Raw // PreCanon r }

/-- the operators restricted to canonical values -/
def verOpsCanon : VOps CanonRaw where
  lt a b := verOps.lt a.1 b.1
  le a b := verOps.le a.1 b.1
  gt a b := verOps.gt a.1 b.1
  ge a b := verOps.ge a.1 b.1
  eq a b := verOps.eq a.1 b.1
  ne a b := verOps.ne a.1 b.1

/-- C02: on the values the constructors can produce (`construct_preCanon`) the six operators
of `SemverVersion` are the ones induced by `vercmp`. -/
theorem verOps_lawful_partial : Lawful verOpsCanon (fun a b => vercmp a.1 b.1) where
  lt a b := (verOps_order_lawful a.1 b.1).1
  gt a b := (verOps_order_lawful a.1 b.1).2.1
  le a b := (verOps_order_lawful a.1 b.1).2.2.1
  ge a b := (verOps_order_lawful a.1 b.1).2.2.2
  eq a b := (verOps_eq_lawful a.1 b.1 a.2 b.2).1
  ne a b := (verOps_eq_lawful a.1 b.1 a.2 b.2).2

example : PreCanon ⟨1, 2, 3, ["rc".toList, "1".toList], []⟩ := by decide

/-- NOT a defect of the code: a `Raw` that no constructor produces (`_validate_identifiers`
rejects `01`) shows why `verOps_lawful_partial` needs `PreCanon`: `1.0.0-01` and `1.0.0-1`
would have the same precedence key and differ structurally. -/
theorem verOps_lawful_counterexample :
    vercmp ⟨1, 0, 0, [['0', '1']], []⟩ ⟨1, 0, 0, [['1']], []⟩ = .eq ∧
    verOps.eq ⟨1, 0, 0, [['0', '1']], []⟩ ⟨1, 0, 0, [['1']], []⟩ = false := by decide

/-- C12: equal versions have equal hash keys (all values) -/
theorem eq_imp_hash (a b : Raw) : verOps.eq a b = true → hashKey a = hashKey b := by
  simp only [verOps, Py.attrsOps, valOps_eq_iff, decide_eq_true_eq]
  intro h; rw [h]


/-! ### what the constructors establish -/

theorem validate_preCanon (ids : List (List Char)) (h : validateIdentifiers ids false = true) :
    ∀ p ∈ ids, hasLeadingZero p = false := by
  intro p hp
  have := List.all_eq_true.mp h p hp
  cases p with
  | nil => rfl
  | cons c cs =>
    simp only [List.isEmpty_cons, Bool.not_false, Bool.true_and, Bool.and_true,
      Bool.not_eq_true'] at this
    simp only [hasLeadingZero, List.isEmpty_cons, Bool.not_false, Bool.true_and]
    exact this

theorem parse_preCanon (s : List Char) (r : Raw) (h : parse s = some r) : PreCanon r := by
  unfold parse at h
  split at h
  · cases h
  · split at h
    · cases h
    · split at h
      · cases h
      · split at h
        · cases h
        · split at h
          · cases h
          · simp only at h
            split at h
            · cases h
            · split at h
              · cases h
              · rename_i hv _
                cases h
                exact validate_preCanon _ (by simpa using hv)

theorem constructWith_preCanon (again : Bool) (s : List Char) (r : Raw)
    (h : constructWith again s = .ok r) : PreCanon r := by
  unfold constructWith at h
  simp only at h
  split at h
  · cases h
  · split at h
    · rename_i v hv
      cases h
      unfold buildValue coerce at hv
      split at hv
      · cases hv
      · exact parse_preCanon _ _ hv
    · cases h

/-- every `SemverVersion(string)` value is canonical -/
theorem construct_preCanon (s : List Char) (r : Raw) (h : construct s = .ok r) : PreCanon r :=
  constructWith_preCanon false s r h

theorem dropWhile_idem {α : Type} (p : α → Bool) (l : List α) :
    (l.dropWhile p).dropWhile p = l.dropWhile p := by
  induction l with
  | nil => rfl
  | cons a l ih =>
    by_cases h : p a
    · simp [List.dropWhile_cons_of_pos h, ih]
    · simp [List.dropWhile_cons_of_neg h]

/-- the second `lstrip("vV")` of `GolangVersion`/`ComposerVersion.build_value` never removes
anything: the four classes construct the same values. -/
theorem constructWith_true_eq (s : List Char) : constructWith true s = constructWith false s := by
  have h : lstripV (normalize s) = normalize s := dropWhile_idem _ _
  simp only [constructWith, isValid, buildValue, if_true, h]
  rfl

theorem constructGolang_eq : constructGolang = construct := funext constructWith_true_eq
theorem constructComposer_eq : constructComposer = construct := funext constructWith_true_eq
theorem constructNginx_eq : constructNginx = construct := rfl

/-! ### C18: `next_patch`, `next_minor`, `next_major` bracket their version -/

theorem natCmp_self (a : Nat) : natCmp a a = .eq := Nat.compare_eq_eq.mpr rfl
theorem natCmp_succ (a : Nat) : natCmp a (a + 1) = .lt := Nat.compare_eq_lt.mpr (Nat.lt_succ_self a)

/-- `v < v.next_patch()` -/
theorem lt_nextPatch (v : Raw) : vercmp v (nextPatch v) = .lt := by
  rw [vercmp_eq_key]
  cases v with | mk ma mi pa pre bu => ?_
  cases pre <;>
    simp [nextPatch, key, keyCmp, lexPair, preCmp, natCmp_succ, lexList]

theorem releaseCmp (a b c a' b' c' : Nat) :
    keyCmp (key ⟨a, b, c, [], []⟩) (key ⟨a', b', c', [], []⟩) =
      (natCmp a a').then ((natCmp b b').then (natCmp c c')) := by
  simp [key, keyCmp, lexPair, preCmp, buildCmp, lexList]

/-- `v.next_patch() <= v.next_minor()` -/
theorem nextPatch_le_nextMinor (v : Raw) : vercmp (nextPatch v) (nextMinor v) ≠ .gt := by
  rw [vercmp_eq_key]
  cases v with | mk ma mi pa pre bu => ?_
  cases pre with
  | nil =>
    simp only [nextPatch, nextMinor, List.isEmpty_nil, Bool.not_true, Bool.false_and,
      Bool.false_eq_true, if_false, releaseCmp, natCmp_succ, Ordering.lt_then]
    simp
  | cons p ps =>
    by_cases hp : pa = 0
    · subst hp
      simp [nextPatch, nextMinor, releaseCmp]
    · simp [nextPatch, nextMinor, releaseCmp, natCmp_succ, hp]

/-- `v.next_minor() <= v.next_major()` -/
theorem nextMinor_le_nextMajor (v : Raw) : vercmp (nextMinor v) (nextMajor v) ≠ .gt := by
  rw [vercmp_eq_key]
  cases v with | mk ma mi pa pre bu => ?_
  cases pre with
  | nil => simp [nextMinor, nextMajor, releaseCmp, natCmp_succ]
  | cons p ps =>
    by_cases hp : pa = 0
    · subst hp
      by_cases hm : mi = 0
      · subst hm; simp [nextMinor, nextMajor, releaseCmp]
      · simp [nextMinor, nextMajor, releaseCmp, natCmp_succ, hm]
    · simp [nextMinor, nextMajor, releaseCmp, natCmp_succ, hp]

/-- C18 for `semantic_version.Version.next_*`, including the pre-release special cases -/
theorem semver_successors (v : Raw) :
    vercmp v (nextPatch v) = .lt ∧ vercmp (nextPatch v) (nextMinor v) ≠ .gt ∧
    vercmp (nextMinor v) (nextMajor v) ≠ .gt :=
  ⟨lt_nextPatch v, nextPatch_le_nextMinor v, nextMinor_le_nextMajor v⟩

theorem isLE_of_ne_gt {o : Ordering} (h : o ≠ .gt) : o.isLE = true := by
  cases o <;> simp_all [Ordering.isLE]

theorem lt_nextMinor (v : Raw) : vercmp v (nextMinor v) = .lt :=
  TransCmp.lt_of_lt_of_isLE (lt_nextPatch v) (isLE_of_ne_gt (nextPatch_le_nextMinor v))

theorem lt_nextMajor (v : Raw) : vercmp v (nextMajor v) = .lt :=
  TransCmp.lt_of_lt_of_isLE (lt_nextMinor v) (isLE_of_ne_gt (nextMinor_le_nextMajor v))

/-! ### C11: printing round-trips -/

theorem natStr_digits (n : Nat) : ∀ c ∈ natStr n, c.isDigit = true :=
  fun _ hc => Nat.isDigit_of_mem_toDigits (by decide) (by decide) hc

theorem natStr_ne_nil (n : Nat) : natStr n ≠ [] := Nat.toDigits_ne_nil

theorem parseNat_natStr (n : Nat) : parseNat (natStr n) = n := Nat.ofDigitChars_ten_toDigits

theorem digitChar_eq_zero : ∀ n, n < 10 → Nat.digitChar n = '0' → n = 0 := by decide

theorem natStr_head_zero (n : Nat) : (natStr n).head? = some '0' → n = 0 := by
  induction n using Nat.strongRecOn with
  | ind n ih =>
    intro h
    unfold natStr at h
    rw [Nat.toDigits_eq_if (by decide)] at h
    split at h
    · rename_i hlt
      simp only [List.head?_cons, Option.some.injEq] at h
      exact digitChar_eq_zero n hlt h
    · rename_i hge
      have hne : Nat.toDigits 10 (n / 10) ≠ [] := Nat.toDigits_ne_nil
      cases e : Nat.toDigits 10 (n / 10) with
      | nil => exact absurd e hne
      | cons x xs => ?_
      rw [e] at h
      simp only [List.cons_append, List.head?_cons] at h
      have h : (Nat.toDigits 10 (n / 10)).head? = some '0' := by rw [e]; simpa using h
      have := ih (n / 10) (by omega) h
      omega

theorem natStr_noLeadingZero (n : Nat) : hasLeadingZero (natStr n) = false := by
  by_cases h : (natStr n).head? = some '0'
  · have := natStr_head_zero n h
    subst this; rfl
  · simp [hasLeadingZero, h]

theorem isDigitStr_natStr (n : Nat) : isDigitStr (natStr n) = true :=
  (isDigitStr_iff _).mpr ⟨natStr_ne_nil n, natStr_digits n⟩

theorem stripZeros_natStr (n : Nat) : stripZeros (natStr n) = natStr n := by
  by_cases h : (natStr n).head? = some '0'
  · have := natStr_head_zero n h
    subst this; rfl
  · cases e : natStr n with
    | nil => exact absurd e (natStr_ne_nil n)
    | cons c cs =>
      rw [e] at h
      have hc : (c == '0') = false := by simpa using h
      simp [stripZeros, List.dropWhile, hc]

/-- a run of digits followed by something that does not start with a digit -/
def NoDigitHead (r : List Char) : Prop := ∀ c ∈ r.head?, c.isDigit = false

theorem takeWhile_digits (d r : List Char) (hd : ∀ c ∈ d, c.isDigit = true) (hr : NoDigitHead r) :
    (d ++ r).takeWhile Char.isDigit = d ∧ (d ++ r).dropWhile Char.isDigit = r := by
  rw [List.takeWhile_append_of_pos hd, List.dropWhile_append_of_pos hd]
  cases r with
  | nil => simp
  | cons c cs =>
    have : c.isDigit = false := hr c (by simp)
    simp [List.takeWhile, List.dropWhile, this]


/-! character classes -/

theorem alnum_range {c : Char} (h : c.isAlphanum = true) : 48 ≤ c.toNat ∧ c.toNat ≤ 122 := by
  simp [Char.isAlphanum, Char.isAlpha, Char.isUpper, Char.isLower, Char.isDigit,
    UInt32.le_iff_toNat_le, Char.toNat_val] at h
  omega

theorem identChar_range {c : Char} (h : isIdentChar c = true) : 45 ≤ c.toNat ∧ c.toNat ≤ 122 := by
  simp only [isIdentChar, Bool.or_eq_true, beq_iff_eq] at h
  rcases h with (h | h) | h
  · have := alnum_range h; omega
  · subst h; decide
  · subst h; decide

theorem identChar_not_space {c : Char} (h : isIdentChar c = true) : isPySpace c = false := by
  have hr := identChar_range h
  have : c ≠ ' ' := by intro e; subst e; simp at hr
  simp [isPySpace, this]
  omega

theorem identChar_ne_plus {c : Char} (h : isIdentChar c = true) : (c != '+') = true := by
  have hr := identChar_range h
  simp only [bne_iff_ne, ne_eq]
  intro e; subst e; simp at hr

theorem identChar_clean {c : Char} (h : isIdentChar c = true) : cleanChar c = c := by
  simp only [isIdentChar, Bool.or_eq_true, beq_iff_eq] at h
  simp only [cleanChar, Bool.or_eq_true, beq_iff_eq]
  rw [if_pos]
  rcases h with (h | h) | h
  · exact Or.inl (Or.inl (Or.inl h))
  · exact Or.inl (Or.inr h)
  · exact Or.inr h

theorem digit_identChar {c : Char} (h : c.isDigit = true) : isIdentChar c = true := by
  simp [isIdentChar, Char.isAlphanum, h]


/-! `join` / `split` -/

theorem joinWith_cons_cons (sep : Char) (x y : List Char) (ys : List (List Char)) :
    joinWith sep (x :: y :: ys) = x ++ sep :: joinWith sep (y :: ys) := rfl

theorem mem_joinWith {sep : Char} {P : Char → Prop} (hsep : P sep) :
    ∀ ids : List (List Char), (∀ p ∈ ids, ∀ c ∈ p, P c) → ∀ c ∈ joinWith sep ids, P c
  | [], _ => by simp [joinWith]
  | [x], h => by simpa [joinWith] using h
  | x :: y :: ys, h => by
    intro c hc
    rw [joinWith_cons_cons, List.mem_append, List.mem_cons] at hc
    rcases hc with hc | hc | hc
    · exact h x (by simp) c hc
    · exact hc ▸ hsep
    · exact mem_joinWith hsep (y :: ys) (fun p hp => h p (by simp [hp])) c hc

theorem joinWith_ne_nil (sep : Char) : ∀ ids : List (List Char), ids ≠ [] → (∀ p ∈ ids, p ≠ []) →
    joinWith sep ids ≠ []
  | [], h, _ => absurd rfl h
  | [x], _, h => by simpa [joinWith] using h
  | x :: y :: ys, _, _ => by simp [joinWith_cons_cons]

theorem splitOn_no_sep (sep : Char) : ∀ p : List Char, sep ∉ p → splitOn sep p = [p]
  | [], _ => rfl
  | c :: cs, h => by
    have hc : (c == sep) = false := by
      simp only [beq_eq_false_iff_ne, ne_eq]; intro e; exact h (by simp [e])
    have := splitOn_no_sep sep cs (fun hm => h (by simp [hm]))
    simp [splitOn, hc, this]

theorem splitOn_append_sep (sep : Char) (rest : List Char) :
    ∀ p : List Char, sep ∉ p → splitOn sep (p ++ sep :: rest) = p :: splitOn sep rest
  | [], _ => by simp [splitOn]
  | c :: cs, h => by
    have hc : (c == sep) = false := by
      simp only [beq_eq_false_iff_ne, ne_eq]; intro e; exact h (by simp [e])
    have := splitOn_append_sep sep rest cs (fun hm => h (by simp [hm]))
    simp [splitOn, hc, this]

theorem splitOn_joinWith (sep : Char) : ∀ ids : List (List Char), ids ≠ [] →
    (∀ p ∈ ids, sep ∉ p) → splitOn sep (joinWith sep ids) = ids
  | [], h, _ => absurd rfl h
  | [x], _, h => by simpa [joinWith] using splitOn_no_sep sep x (h x (by simp))
  | x :: y :: ys, _, h => by
    rw [joinWith_cons_cons, splitOn_append_sep sep _ x (h x (by simp)),
      splitOn_joinWith sep (y :: ys) (by simp) (fun p hp => h p (by simp [hp]))]

/-! the optional groups of `version_re` -/

/-- nothing, or something that does not start with an identifier character -/
def NoIdentHead (r : List Char) : Prop := ∀ c ∈ r.head?, isIdentChar c = false

theorem takeWhile_ident (d r : List Char) (hd : ∀ c ∈ d, isIdentChar c = true) (hr : NoIdentHead r) :
    (d ++ r).takeWhile isIdentChar = d ∧ (d ++ r).dropWhile isIdentChar = r := by
  rw [List.takeWhile_append_of_pos hd, List.dropWhile_append_of_pos hd]
  cases r with
  | nil => simp
  | cons c cs =>
    have : isIdentChar c = false := hr c (by simp)
    simp [List.takeWhile, List.dropWhile, this]

theorem optGroup_some (lead : Char) (body rest : List Char) (hb : body ≠ [])
    (hd : ∀ c ∈ body, isIdentChar c = true) (hr : NoIdentHead rest) :
    optGroup lead (lead :: (body ++ rest)) = (some body, rest) := by
  obtain ⟨h1, h2⟩ := takeWhile_ident body rest hd hr
  have : body.isEmpty = false := by cases body <;> simp_all
  simp [optGroup, h1, h2, this]

theorem optGroup_none (lead : Char) (s : List Char) (h : ∀ c ∈ s.head?, c ≠ lead) :
    optGroup lead s = (none, s) := by
  cases s with
  | nil => rfl
  | cons c t =>
    have : (c == lead) = false := by simpa using h c (by simp)
    simp [optGroup, this]


/-! well-formed values -/

/-- the identifier alphabet `[0-9A-Za-z-]` of SemVer §9/§10 -/
def isIdChar (c : Char) : Bool := c.isAlphanum || c == '-'

/-- a non-empty identifier over `[0-9A-Za-z-]`, numeric ones without leading zero unless allowed -/
def identOK (allowLeadingZero : Bool) (p : List Char) : Bool :=
  !p.isEmpty && p.all isIdChar && (allowLeadingZero || !hasLeadingZero p)

/-- the values `parse` can return: SemVer-valid pre-release and build identifiers -/
def WellFormed (r : Raw) : Prop :=
  (∀ p ∈ r.pre, identOK false p = true) ∧ (∀ p ∈ r.build, identOK true p = true)

instance (r : Raw) : Decidable (WellFormed r) := by unfold WellFormed; infer_instance

theorem WellFormed.preCanon {r : Raw} (h : WellFormed r) : PreCanon r := by
  intro p hp
  have := h.1 p hp
  simp only [identOK, Bool.false_or, Bool.and_eq_true, Bool.not_eq_true'] at this
  exact this.2

structure IdsOK (allow : Bool) (ids : List (List Char)) : Prop where
  ne : ∀ p ∈ ids, p ≠ []
  chars : ∀ p ∈ ids, ∀ c ∈ p, isIdentChar c = true
  nodot : ∀ p ∈ ids, '.' ∉ p
  valid : validateIdentifiers ids allow = true

theorem idChar_identChar {c : Char} (h : isIdChar c = true) : isIdentChar c = true := by
  simp only [isIdChar, Bool.or_eq_true, beq_iff_eq] at h
  simp only [isIdentChar, Bool.or_eq_true, beq_iff_eq]
  rcases h with h | h
  · exact Or.inl (Or.inl h)
  · exact Or.inr h

theorem idsOK_of (allow : Bool) (ids : List (List Char)) (h : ∀ p ∈ ids, identOK allow p = true) :
    IdsOK allow ids := by
  have h' : ∀ p ∈ ids, p.isEmpty = false ∧ (∀ c ∈ p, isIdChar c = true) ∧
      (allow = true ∨ hasLeadingZero p = false) := by
    intro p hp
    have := h p hp
    simp only [identOK, Bool.and_eq_true, Bool.not_eq_true', List.all_eq_true, Bool.or_eq_true] at this
    exact ⟨this.1.1, this.1.2, this.2⟩
  refine ⟨?_, ?_, ?_, ?_⟩
  · intro p hp e; have := (h' p hp).1; simp [e] at this
  · intro p hp c hc; exact idChar_identChar ((h' p hp).2.1 c hc)
  · intro p hp hd
    have := (h' p hp).2.1 '.' hd
    exact absurd this (by decide)
  · simp only [validateIdentifiers, List.all_eq_true]
    intro p hp
    obtain ⟨h1, _, h3⟩ := h' p hp
    rcases h3 with h3 | h3
    · simp [h1, h3]
    · simp only [hasLeadingZero, h1, Bool.not_false, Bool.true_and] at h3
      simp [h1, h3]


/-! the printed form -/

def preTail (r : Raw) : List Char := if r.pre.isEmpty then [] else '-' :: joinWith '.' r.pre
def buildTail (r : Raw) : List Char := if r.build.isEmpty then [] else '+' :: joinWith '.' r.build
def coreStr (r : Raw) : List Char := natStr r.major ++ '.' :: (natStr r.minor ++ '.' :: natStr r.patch)

theorem str_eq (r : Raw) :
    str r = natStr r.major ++ '.' :: (natStr r.minor ++ '.' :: (natStr r.patch ++ (preTail r ++ buildTail r))) := by
  unfold str preTail buildTail
  cases r.pre.isEmpty <;> cases r.build.isEmpty <;> simp [List.append_assoc]

theorem str_eq_core (r : Raw) : str r = coreStr r ++ (preTail r ++ buildTail r) := by
  rw [str_eq]; simp [coreStr, List.append_assoc]

theorem noDigitHead_dot (t : List Char) : NoDigitHead ('.' :: t) := by
  intro c hc; simp at hc; subst hc; decide

theorem noDigitHead_tail (r : Raw) : NoDigitHead (preTail r ++ buildTail r) := by
  intro c hc
  unfold preTail buildTail at hc
  cases h1 : r.pre.isEmpty <;> cases h2 : r.build.isEmpty <;> simp [h1, h2] at hc <;> subst hc <;> decide

theorem noIdentHead_buildTail (r : Raw) : NoIdentHead (buildTail r) := by
  intro c hc
  unfold buildTail at hc
  cases h2 : r.build.isEmpty <;> simp [h2] at hc
  subst hc; decide

/-- the three numeric components are read back, whatever follows them -/
theorem scan3 (r : Raw) :
    let t := preTail r ++ buildTail r
    let s3 := natStr r.patch ++ t
    let s2 := natStr r.minor ++ '.' :: s3
    ((str r).takeWhile Char.isDigit = natStr r.major ∧
      (str r).dropWhile Char.isDigit = '.' :: s2) ∧
    (s2.takeWhile Char.isDigit = natStr r.minor ∧ s2.dropWhile Char.isDigit = '.' :: s3) ∧
    (s3.takeWhile Char.isDigit = natStr r.patch ∧ s3.dropWhile Char.isDigit = t) := by
  intro t s3 s2
  refine ⟨?_, ?_, ?_⟩
  · rw [str_eq]; exact takeWhile_digits _ _ (natStr_digits _) (noDigitHead_dot _)
  · exact takeWhile_digits _ _ (natStr_digits _) (noDigitHead_dot _)
  · exact takeWhile_digits _ _ (natStr_digits _) (noDigitHead_tail r)

theorem isEmpty_natStr (n : Nat) : (natStr n).isEmpty = false := by
  cases e : natStr n with
  | nil => exact absurd e (natStr_ne_nil n)
  | cons _ _ => rfl

theorem matchBase_str (r : Raw) :
    matchBase (str r) =
      some ([natStr r.major, natStr r.minor, natStr r.patch], preTail r ++ buildTail r) := by
  obtain ⟨⟨a1, a2⟩, ⟨b1, b2⟩, ⟨c1, c2⟩⟩ := scan3 r
  simp only [matchBase, a1, a2, b1, b2, c1, c2, isEmpty_natStr]
  simp

theorem matchVersionRe_str (r : Raw) (hp : IdsOK false r.pre) (hb : IdsOK true r.build) :
    matchVersionRe (str r) =
      some (natStr r.major, natStr r.minor, natStr r.patch,
        (if r.pre.isEmpty then none else some (joinWith '.' r.pre)),
        (if r.build.isEmpty then none else some (joinWith '.' r.build))) := by
  obtain ⟨⟨a1, a2⟩, ⟨b1, b2⟩, ⟨c1, c2⟩⟩ := scan3 r
  have g5 : optGroup '+' (buildTail r) =
      ((if r.build.isEmpty then none else some (joinWith '.' r.build)), []) := by
    unfold buildTail
    cases hbe : r.build.isEmpty
    · have hne : r.build ≠ [] := by intro e; simp [e] at hbe
      have := optGroup_some '+' (joinWith '.' r.build) [] (joinWith_ne_nil '.' _ hne hb.ne)
        (mem_joinWith (P := fun c => isIdentChar c = true) (by decide) _ hb.chars)
        (by intro c hc; simp at hc)
      simpa using this
    · simp [optGroup]
  have g4 : optGroup '-' (preTail r ++ buildTail r) =
      ((if r.pre.isEmpty then none else some (joinWith '.' r.pre)), buildTail r) := by
    unfold preTail
    cases hpe : r.pre.isEmpty
    · have hne : r.pre ≠ [] := by intro e; simp [e] at hpe
      have := optGroup_some '-' (joinWith '.' r.pre) (buildTail r) (joinWith_ne_nil '.' _ hne hp.ne)
        (mem_joinWith (P := fun c => isIdentChar c = true) (by decide) _ hp.chars)
        (noIdentHead_buildTail r)
      simpa using this
    · simp only [if_true, List.nil_append]
      apply optGroup_none
      intro c hc
      unfold buildTail at hc
      cases h2 : r.build.isEmpty <;> simp [h2] at hc
      subst hc; decide
  simp only [matchVersionRe, a1, a2, b1, b2, c1, c2, isEmpty_natStr, g4, g5]
  simp


theorem groupIdents_join (ids : List (List Char)) (allow : Bool) (h : IdsOK allow ids) :
    groupIdents (if ids.isEmpty then none else some (joinWith '.' ids)) = ids := by
  cases he : ids.isEmpty
  · have hne : ids ≠ [] := by intro e; simp [e] at he
    have hj := joinWith_ne_nil '.' ids hne h.ne
    simp only [Bool.false_eq_true, if_false]
    cases e : joinWith '.' ids with
    | nil => exact absurd e hj
    | cons c cs =>
      show splitOn '.' (c :: cs) = ids
      rw [← e]; exact splitOn_joinWith '.' ids hne h.nodot
  · have : ids = [] := by cases ids <;> simp_all
    subst this; rfl

theorem str_ne_nil (r : Raw) : (str r).isEmpty = false := by
  rw [str_eq]
  cases e : natStr r.major with
  | nil => exact absurd e (natStr_ne_nil _)
  | cons _ _ => rfl

/-- `Version.parse(str(v))` gives `v` back -/
theorem parse_str (r : Raw) (h : WellFormed r) : parse (str r) = some r := by
  have hp := idsOK_of false r.pre h.1
  have hb := idsOK_of true r.build h.2
  simp only [parse, str_ne_nil, matchVersionRe_str r hp hb, natStr_noLeadingZero,
    groupIdents_join _ _ hp, groupIdents_join _ _ hb, hp.valid, hb.valid, parseNat_natStr]
  simp

theorem cleanChar_plus : cleanChar '+' = '+' := by decide

theorem map_clean_ident (l : List Char) (h : ∀ c ∈ l, isIdentChar c = true) :
    l.map cleanChar = l := by
  induction l with
  | nil => rfl
  | cons c cs ih =>
    simp only [List.map, identChar_clean (h c (by simp)), ih (fun x hx => h x (by simp [hx]))]

theorem map_replace_ident (l : List Char) (h : ∀ c ∈ l, isIdentChar c = true) :
    l.map (fun c => if c == '+' then '.' else c) = l := by
  induction l with
  | nil => rfl
  | cons c cs ih =>
    have : (c == '+') = false := by
      have := identChar_ne_plus (h c (by simp)); simpa using this
    simp only [List.map, this, ih (fun x hx => h x (by simp [hx]))]; rfl

theorem plus_notin_ident (l : List Char) (h : ∀ c ∈ l, isIdentChar c = true) : '+' ∉ l := by
  intro hm; exact absurd (h '+' hm) (by decide)

theorem splitPlus_ident (l : List Char) (h : ∀ c ∈ l, isIdentChar c = true) :
    splitPlus l = (l, []) := by
  have hn := plus_notin_ident l h
  have : l.contains '+' = false := by
    cases e : l.contains '+'
    · rfl
    · exact absurd (List.contains_iff_mem.mp e) hn
  simp only [splitPlus, this]
  rfl

theorem splitPlus_both (a b : List Char) (ha : ∀ c ∈ a, isIdentChar c = true) :
    splitPlus (a ++ '+' :: b) = (a, b) := by
  have h1 : (a ++ '+' :: b).contains '+' = true := by simp
  have hpos : ∀ c ∈ a, (c != '+') = true := fun c hc => identChar_ne_plus (ha c hc)
  simp only [splitPlus, h1, if_true, List.takeWhile_append_of_pos hpos,
    List.dropWhile_append_of_pos hpos]
  simp [List.takeWhile, List.dropWhile]


theorem coreStr_eq (r : Raw) :
    joinWith '.' ((padComponents [natStr r.major, natStr r.minor, natStr r.patch]).map stripZeros) =
      coreStr r := by
  simp [padComponents, stripZeros_natStr, joinWith, coreStr]

/-- the string `coerce` assembles from `str(v)` is `str(v)` again -/
theorem coerceString_str (r : Raw) (h : WellFormed r) : coerceString (str r) = some (str r) := by
  have hp := idsOK_of false r.pre h.1
  have hb := idsOK_of true r.build h.2
  have hjp := mem_joinWith (P := fun c => isIdentChar c = true) (sep := '.') (by decide) _ hp.chars
  have hjb := mem_joinWith (P := fun c => isIdentChar c = true) (sep := '.') (by decide) _ hb.chars
  simp only [coerceString, matchBase_str, coreStr_eq]
  rw [str_eq_core]
  unfold preTail buildTail
  cases hpe : r.pre.isEmpty <;> cases hbe : r.build.isEmpty
  · -- pre-release and build
    have hne : r.pre ≠ [] := by intro e; simp [e] at hpe
    have hnb : r.build ≠ [] := by intro e; simp [e] at hbe
    have e1 := joinWith_ne_nil '.' _ hne hp.ne
    have e2 := joinWith_ne_nil '.' _ hnb hb.ne
    have i1 : (joinWith '.' r.pre).isEmpty = false := by cases e : joinWith '.' r.pre <;> simp_all
    have i2 : (joinWith '.' r.build).isEmpty = false := by cases e : joinWith '.' r.build <;> simp_all
    simp only [Bool.false_eq_true, if_false, List.cons_append, List.isEmpty_cons, List.map_cons,
      List.map_append, map_clean_ident _ hjp, map_clean_ident _ hjb, cleanChar_plus,
      show cleanChar '-' = '-' by decide, splitPlus_both _ _ hjp, map_replace_ident _ hjb, i1, i2]
    simp [List.append_assoc]
  · -- pre-release only
    have hne : r.pre ≠ [] := by intro e; simp [e] at hpe
    have e1 := joinWith_ne_nil '.' _ hne hp.ne
    have i1 : (joinWith '.' r.pre).isEmpty = false := by cases e : joinWith '.' r.pre <;> simp_all
    simp only [Bool.false_eq_true, if_false, if_true, List.append_nil, List.isEmpty_cons, List.map_cons,
      map_clean_ident _ hjp, show cleanChar '-' = '-' by decide, splitPlus_ident _ hjp, i1,
      List.map_nil, List.isEmpty_nil]
  · -- build only
    have hnb : r.build ≠ [] := by intro e; simp [e] at hbe
    have e2 := joinWith_ne_nil '.' _ hnb hb.ne
    have i2 : (joinWith '.' r.build).isEmpty = false := by cases e : joinWith '.' r.build <;> simp_all
    simp only [Bool.false_eq_true, if_false, if_true, List.nil_append, List.isEmpty_cons, List.map_cons,
      map_clean_ident _ hjb, cleanChar_plus, map_replace_ident _ hjb, i2, List.isEmpty_nil]
  · simp

theorem charOK_str (r : Raw) (h : WellFormed r) : ∀ c ∈ str r, isIdentChar c = true ∨ c = '+' := by
  have hp := idsOK_of false r.pre h.1
  have hb := idsOK_of true r.build h.2
  have hjp := mem_joinWith (P := fun c => isIdentChar c = true) (sep := '.') (by decide) _ hp.chars
  have hjb := mem_joinWith (P := fun c => isIdentChar c = true) (sep := '.') (by decide) _ hb.chars
  have hd : ∀ n, ∀ c ∈ natStr n, isIdentChar c = true := fun n c hc => digit_identChar (natStr_digits n c hc)
  intro c hc
  rw [str_eq] at hc
  simp only [List.mem_append, List.mem_cons, preTail, buildTail] at hc
  rcases hc with hc | hc | hc | hc | hc | hc | hc
  · exact Or.inl (hd _ c hc)
  · subst hc; exact Or.inl (by decide)
  · exact Or.inl (hd _ c hc)
  · subst hc; exact Or.inl (by decide)
  · exact Or.inl (hd _ c hc)
  · split at hc
    · cases hc
    · simp only [List.mem_cons] at hc
      rcases hc with hc | hc
      · subst hc; exact Or.inl (by decide)
      · exact Or.inl (hjp c hc)
  · split at hc
    · cases hc
    · simp only [List.mem_cons] at hc
      rcases hc with hc | hc
      · exact Or.inr hc
      · exact Or.inl (hjb c hc)

theorem normalize_str (r : Raw) (h : WellFormed r) : normalize (str r) = str r := by
  have hf : removeSpaces (str r) = str r := by
    unfold removeSpaces
    rw [List.filter_eq_self]
    intro c hc
    rcases charOK_str r h c hc with h1 | h1
    · simp [identChar_not_space h1]
    · subst h1; decide
  unfold normalize
  rw [hf, str_eq]
  cases e : natStr r.major with
  | nil => exact absurd e (natStr_ne_nil _)
  | cons c cs =>
    have hc : c.isDigit = true := natStr_digits r.major c (by simp [e])
    have hr := identChar_range (digit_identChar hc)
    have h' := Char.isDigit_iff_toNat.mp hc
    simp only [Char.reduceToNat] at h'
    have hv : (c == 'v' || c == 'V') = false := by
      simp only [Bool.or_eq_false_iff, beq_eq_false_iff_ne, ne_eq]
      constructor <;> (intro e'; subst e'; simp at h')
    simp [lstripV, hv]

/-- C11: `SemverVersion(str(v)).value == v` for every SemVer-valid value (all four classes,
by `constructGolang_eq`, `constructComposer_eq`, `constructNginx_eq`). -/
theorem str_roundtrip (r : Raw) (h : WellFormed r) : construct (str r) = .ok r := by
  have hc : coerce (str r) = some r := by
    simp only [coerce, coerceString_str r h, parse_str r h]
  simp [construct, constructWith, normalize_str r h, isValid, buildValue, hc]

theorem coerce_str (r : Raw) (h : WellFormed r) : coerce (str r) = some r := by
  simp only [coerce, coerceString_str r h, parse_str r h]

/-- every constructed value is well-formed: `str_roundtrip` applies to all of them -/
example : WellFormed ⟨1, 2, 3, ["rc".toList, "1".toList], ["001".toList]⟩ := by decide

/-! ### every constructed value is well-formed -/

theorem mem_splitOn (sep : Char) : ∀ (g p : List Char), p ∈ splitOn sep g →
    ∀ c ∈ p, c ∈ g ∧ c ≠ sep
  | [], p, hp => by
    simp only [splitOn, List.mem_singleton] at hp
    subst hp; intro c hc; cases hc
  | x :: xs, p, hp => by
    simp only [splitOn] at hp
    split at hp
    · rename_i hx
      simp only [List.mem_cons] at hp
      rcases hp with hp | hp
      · subst hp; intro c hc; cases hc
      · intro c hc
        have := mem_splitOn sep xs p hp c hc
        exact ⟨by simp [this.1], this.2⟩
    · rename_i hx
      have hx' : x ≠ sep := by simpa using hx
      split at hp
      · rename_i e
        simp only [List.mem_singleton] at hp
        subst hp; intro c hc
        simp only [List.mem_singleton] at hc
        subst hc; exact ⟨by simp, hx'⟩
      · rename_i h t e
        simp only [List.mem_cons] at hp
        rcases hp with hp | hp
        · subst hp
          intro c hc
          simp only [List.mem_cons] at hc
          rcases hc with hc | hc
          · subst hc; exact ⟨by simp, hx'⟩
          · have := mem_splitOn sep xs h (by rw [e]; simp) c hc
            exact ⟨by simp [this.1], this.2⟩
        · intro c hc
          have := mem_splitOn sep xs p (by rw [e]; simp [hp]) c hc
          exact ⟨by simp [this.1], this.2⟩

theorem optGroup_chars (lead : Char) (s g rest : List Char) (h : optGroup lead s = (some g, rest)) :
    ∀ c ∈ g, isIdentChar c = true := by
  unfold optGroup at h
  split at h
  · split at h
    · simp only [Prod.mk.injEq, Option.some.injEq] at h
      intro c hc
      rw [← h.1] at hc
      exact List.all_eq_true.mp List.all_takeWhile c hc
    · cases h
  · cases h

theorem groupIdents_chars (g : Option (List Char)) (hg : ∀ x, g = some x → ∀ c ∈ x, isIdentChar c = true) :
    ∀ p ∈ groupIdents g, ∀ c ∈ p, isIdChar c = true := by
  intro p hp c hc
  match g, hg, hp with
  | none, _, hp => cases hp
  | some [], _, hp => cases hp
  | some (y :: ys), hg, hp =>
    have := mem_splitOn '.' (y :: ys) p hp c hc
    have h1 := hg _ rfl c this.1
    simp only [isIdentChar, Bool.or_eq_true, beq_iff_eq] at h1
    simp only [isIdChar, Bool.or_eq_true, beq_iff_eq]
    rcases h1 with (h1 | h1) | h1
    · exact Or.inl h1
    · exact absurd h1 this.2
    · exact Or.inr h1

theorem matchVersionRe_groups (s : List Char) (ma mi pa : List Char) (g4 g5 : Option (List Char))
    (h : matchVersionRe s = some (ma, mi, pa, g4, g5)) :
    (∀ x, g4 = some x → ∀ c ∈ x, isIdentChar c = true) ∧
    (∀ x, g5 = some x → ∀ c ∈ x, isIdentChar c = true) := by
  unfold matchVersionRe at h
  simp only at h
  split at h
  · split at h
    · split at h
      · cases h
      · split at h
        · simp only [Option.some.injEq, Prod.mk.injEq] at h
          obtain ⟨_, _, _, h4, h5⟩ := h
          constructor
          · intro x hx
            exact optGroup_chars '-' _ x _ (Prod.ext (by rw [h4, hx]) rfl)
          · intro x hx
            exact optGroup_chars '+' _ x _ (Prod.ext (by rw [h5, hx]) rfl)
        · cases h
    · cases h
  · cases h

theorem identOK_of (allow : Bool) (ids : List (List Char))
    (hv : validateIdentifiers ids allow = true) (hc : ∀ p ∈ ids, ∀ c ∈ p, isIdChar c = true) :
    ∀ p ∈ ids, identOK allow p = true := by
  intro p hp
  have := List.all_eq_true.mp hv p hp
  simp only [Bool.and_eq_true, Bool.not_eq_true'] at this
  obtain ⟨h1, h2⟩ := this
  have hall : p.all isIdChar = true := List.all_eq_true.mpr (hc p hp)
  cases allow
  · simp only [Bool.not_false, Bool.and_true] at h2
    simp [identOK, h1, hall, hasLeadingZero, h2]
  · simp [identOK, h1, hall]

theorem parse_wellFormed (s : List Char) (r : Raw) (h : parse s = some r) : WellFormed r := by
  unfold parse at h
  split at h
  · cases h
  · split at h
    · cases h
    · rename_i ma mi pa g4 g5 hm
      obtain ⟨c4, c5⟩ := matchVersionRe_groups s ma mi pa g4 g5 hm
      split at h
      · cases h
      · split at h
        · cases h
        · split at h
          · cases h
          · simp only at h
            split at h
            · cases h
            · split at h
              · cases h
              · rename_i hv4 hv5
                cases h
                exact ⟨identOK_of false _ (by simpa using hv4) (groupIdents_chars g4 c4),
                  identOK_of true _ (by simpa using hv5) (groupIdents_chars g5 c5)⟩

theorem constructWith_wellFormed (again : Bool) (s : List Char) (r : Raw)
    (h : constructWith again s = .ok r) : WellFormed r := by
  unfold constructWith at h
  simp only at h
  split at h
  · cases h
  · split at h
    · rename_i v hv
      cases h
      unfold buildValue coerce at hv
      split at hv
      · cases hv
      · exact parse_wellFormed _ _ hv
    · cases h

/-- C11: every value a constructor returns is well-formed, hence prints to a string that
constructs the same value. -/
theorem construct_roundtrip (s : List Char) (r : Raw) (h : construct s = .ok r) :
    construct (str r) = .ok r :=
  str_roundtrip r (constructWith_wellFormed false s r h)

end Univers.Semver
