/-
Theorems for the semver family: the tuple comparison of `precedence_key` that the code performs
is the SemVer §11 key order (refinement), the operators are the ones induced by it, equal
versions hash equally, `next_*` bracket their version, printing round-trips.
No Mathlib.
-/
import Univers.Scheme.SemverSpec
import Univers.Vers.Spec

namespace Univers.Semver

open Std

/-! ### generic facts on `lexList`, `tupleEq`, `tupleOp` -/

theorem lexList_eq_iff {α : Type} (c : α → α → Ordering) (hc : ∀ x y, c x y = .eq ↔ x = y) :
    ∀ a b : List α, lexList c a b = .eq ↔ a = b := by
  intro a
  induction a with
  | nil => intro b; cases b <;> simp [lexList]
  | cons x xs ih =>
    intro b
    cases b with
    | nil => simp [lexList]
    | cons y ys => simp [lexList, Ordering.then_eq_eq, hc, ih]

theorem charCmp_eq_iff (x y : Char) : charCmp x y = .eq ↔ x = y := by
  simp [charCmp, Char.toNat_inj]

theorem strCmp_def (a b : List Char) : strCmp a b = lexList charCmp a b := rfl

theorem strCmp_eq_iff (a b : List Char) : strCmp a b = .eq ↔ a = b :=
  lexList_eq_iff charCmp charCmp_eq_iff a b

theorem tupleEq_eq_lexList {α : Type} (eq : α → α → Bool) (c : α → α → Ordering)
    (heq : ∀ x y, eq x y = (c x y == .eq)) :
    ∀ a b, tupleEq eq a b = (lexList c a b == .eq) := by
  intro a
  induction a with
  | nil => intro b; cases b <;> simp [tupleEq, lexList]
  | cons x xs ih =>
    intro b
    cases b with
    | nil => simp [tupleEq, lexList]
    | cons y ys =>
      simp only [tupleEq, lexList, heq, ih]
      cases c x y <;> simp [Ordering.then]

/-- what an ordering operator means on a three-way result, and on tuple lengths -/
structure OpMeaning (P : Ordering → Bool) (opLen : Nat → Nat → Bool) : Prop where
  len : ∀ m n, opLen m n = P (compare m n)

theorem tupleOp_eq_lexList {α : Type} (eq op : α → α → Bool) (c : α → α → Ordering)
    (P : Ordering → Bool) (opLen : Nat → Nat → Bool) (hP : OpMeaning P opLen)
    (heq : ∀ x y, eq x y = (c x y == .eq))
    (hop : ∀ x y, c x y ≠ .eq → op x y = P (c x y)) :
    ∀ a b, tupleOp eq op opLen a b = P (lexList c a b) := by
  intro a
  induction a with
  | nil =>
    intro b
    cases b with
    | nil => simp [tupleOp, lexList, hP.len]
    | cons y ys =>
      simp only [tupleOp, lexList, hP.len]
      congr 1
  | cons x xs ih =>
    intro b
    cases b with
    | nil =>
      simp only [tupleOp, lexList, hP.len]
      congr 1
    | cons y ys =>
      simp only [tupleOp, lexList, heq]
      cases h : c x y
      · simp [Ordering.then, hop x y (by simp [h]), h]
      · simp [Ordering.then, ih]
      · simp [Ordering.then, hop x y (by simp [h]), h]


/-! ### the identifiers of `precedence_key` -/

/-- the order the three identifier classes implement: numeric < alphanumeric < Max -/
def identCmp : Ident → Ident → Ordering
  | .num a, .num b => compare a b
  | .num _, .alpha _ => .lt
  | .num _, .max => .lt
  | .alpha _, .num _ => .gt
  | .alpha a, .alpha b => strCmp a b
  | .alpha _, .max => .lt
  | .max, .max => .eq
  | .max, _ => .gt

theorem nat_lt_iff (a b : Nat) : decide (a < b) = (compare a b == .lt) := by
  rcases Nat.lt_trichotomy a b with h | h | h
  · simp [Nat.compare_eq_lt.mpr h, h]
  · subst h; simp
  · simp [Nat.compare_eq_gt.mpr h]; omega
theorem nat_le_iff (a b : Nat) : decide (a ≤ b) = (compare a b != .gt) := by
  rcases Nat.lt_trichotomy a b with h | h | h
  · rw [Nat.compare_eq_lt.mpr h]; exact decide_eq_true (Nat.le_of_lt h)
  · subst h; simp
  · simp [Nat.compare_eq_gt.mpr h]; omega
theorem nat_gt_iff (a b : Nat) : decide (a > b) = (compare a b == .gt) := by
  rcases Nat.lt_trichotomy a b with h | h | h
  · simp [Nat.compare_eq_lt.mpr h]; omega
  · subst h; simp
  · simp [Nat.compare_eq_gt.mpr h, h]
theorem nat_ge_iff (a b : Nat) : decide (a ≥ b) = (compare a b != .lt) := by
  rcases Nat.lt_trichotomy a b with h | h | h
  · simp [Nat.compare_eq_lt.mpr h, h]
  · subst h; simp
  · rw [Nat.compare_eq_gt.mpr h]; exact decide_eq_true (Nat.le_of_lt h)
theorem nat_beq_iff (a b : Nat) : (a == b) = (compare a b == .eq) := by
  rcases Nat.lt_trichotomy a b with h | h | h
  · simp [Nat.compare_eq_lt.mpr h]; omega
  · subst h; simp
  · simp [Nat.compare_eq_gt.mpr h]; omega

theorem str_beq_iff (a b : List Char) : (a == b) = (strCmp a b == .eq) := by
  cases h : strCmp a b <;> simp_all [← strCmp_eq_iff]

theorem Ident.eq_iff (x y : Ident) : Ident.eq x y = (identCmp x y == .eq) := by
  cases x <;> cases y <;> simp only [Ident.eq, identCmp, nat_beq_iff, str_beq_iff] <;> rfl

theorem Ident.lt_iff (x y : Ident) : Ident.lt x y = (identCmp x y == .lt) := by
  cases x <;> cases y <;> simp only [Ident.lt, identCmp, nat_lt_iff] <;> rfl

theorem Ident.gt_iff (x y : Ident) : Ident.gt x y = (identCmp x y == .gt) := by
  cases x <;> cases y <;>
    simp only [Ident.gt, identCmp, nat_lt_iff, bne, nat_beq_iff, str_beq_iff] <;> (try rfl)
  · rename_i a b; cases compare a b <;> rfl
  · rename_i a b; cases strCmp a b <;> rfl

theorem Ident.le_iff (x y : Ident) (h : identCmp x y ≠ .eq) :
    Ident.le x y = (identCmp x y != .gt) := by
  cases x <;> cases y <;>
    simp only [Ident.le, identCmp, nat_lt_iff, bne, nat_beq_iff, str_beq_iff] at h ⊢ <;> (try rfl)
  · rename_i a b; cases compare a b <;> rfl
  · rename_i a b; cases strCmp a b <;> rfl
  · exact absurd rfl h

theorem Ident.ge_iff (x y : Ident) (h : identCmp x y ≠ .eq) :
    Ident.ge x y = (identCmp x y != .lt) := by
  cases x <;> cases y <;>
    simp only [Ident.ge, identCmp, nat_lt_iff, bne] at h ⊢ <;> (try rfl)
  · exact absurd rfl h


/-! ### refinement: tuple comparison of `precedence_key` = the §11 key order -/

/-- the lexicographic order that CPython's tuple comparison of two precedence keys realises -/
def pkeyCmp (a b : PKey) : Ordering :=
  (compare a.major b.major).then ((compare a.minor b.minor).then ((compare a.patch b.patch).then
    ((lexList identCmp a.pre b.pre).then (lexList strCmp a.build b.build))))

/-- an operator family computes `P` of the three-way result on every kind of item -/
structure OpOK (o : Op) (P : Ordering → Bool) : Prop where
  nat : ∀ a b, o.nat a b = P (compare a b)
  ident : ∀ x y, identCmp x y ≠ .eq → o.ident x y = P (identCmp x y)
  str : ∀ x y, strCmp x y ≠ .eq → o.str x y = P (strCmp x y)

theorem opLt_ok : OpOK opLt (· == .lt) :=
  ⟨nat_lt_iff, fun x y _ => Ident.lt_iff x y, fun _ _ _ => rfl⟩
theorem opGt_ok : OpOK opGt (· == .gt) :=
  ⟨nat_gt_iff, fun x y _ => Ident.gt_iff x y, fun _ _ _ => rfl⟩
theorem opLe_ok : OpOK opLe (· != .gt) :=
  ⟨nat_le_iff, Ident.le_iff, fun _ _ _ => rfl⟩
theorem opGe_ok : OpOK opGe (· != .lt) :=
  ⟨nat_ge_iff, Ident.ge_iff, fun _ _ _ => rfl⟩

theorem then_of_ne_eq {o p : Ordering} (h : o ≠ .eq) : o.then p = o := by
  cases o <;> simp_all [Ordering.then]

theorem nat_bne_true {a b : Nat} (h : (a != b) = true) : compare a b ≠ .eq := by
  intro h'; rw [Nat.compare_eq_eq] at h'; subst h'; simp at h

theorem nat_bne_false {a b : Nat} (h : ¬ (a != b) = true) : compare a b = .eq := by
  rw [Nat.compare_eq_eq]; simpa using h

theorem keyOp_eq (o : Op) (P : Ordering → Bool) (h : OpOK o P) (a b : PKey) :
    keyOp o a b = P (pkeyCmp a b) := by
  unfold keyOp pkeyCmp
  split
  · rename_i h1; rw [then_of_ne_eq (nat_bne_true h1), h.nat]
  · rename_i h1; rw [nat_bne_false h1, Ordering.eq_then]
    split
    · rename_i h2; rw [then_of_ne_eq (nat_bne_true h2), h.nat]
    · rename_i h2; rw [nat_bne_false h2, Ordering.eq_then]
      split
      · rename_i h3; rw [then_of_ne_eq (nat_bne_true h3), h.nat]
      · rename_i h3; rw [nat_bne_false h3, Ordering.eq_then]
        rw [tupleEq_eq_lexList Ident.eq identCmp Ident.eq_iff]
        split
        · rename_i h4
          have h4' : lexList identCmp a.pre b.pre ≠ .eq := by
            intro e; rw [e] at h4; simp at h4
          rw [then_of_ne_eq h4']
          exact tupleOp_eq_lexList Ident.eq o.ident identCmp P o.nat ⟨h.nat⟩ Ident.eq_iff h.ident _ _
        · rename_i h4
          have h4' : lexList identCmp a.pre b.pre = .eq := by
            cases e : lexList identCmp a.pre b.pre <;> simp_all
          rw [h4', Ordering.eq_then]
          exact tupleOp_eq_lexList (fun x y => x == y) o.str strCmp P o.nat ⟨h.nat⟩ str_beq_iff h.str _ _

theorem identCmp_identOf (p q : List Char) :
    identCmp (identOf p) (identOf q) = idCmp (sid p) (sid q) := by
  unfold identOf sid
  split <;> split <;> rfl

theorem lexList_map_ident (ps qs : List (List Char)) :
    lexList identCmp (ps.map identOf) (qs.map identOf) = lexList idCmp (ps.map sid) (qs.map sid) := by
  induction ps generalizing qs with
  | nil => cases qs <;> rfl
  | cons p ps ih =>
    cases qs with
    | nil => rfl
    | cons q qs => simp only [List.map, lexList, identCmp_identOf, ih]

theorem identCmp_max_identOf (q : List Char) : identCmp .max (identOf q) = .gt := by
  unfold identOf; split <;> rfl

theorem identCmp_identOf_max (q : List Char) : identCmp (identOf q) .max = .lt := by
  unfold identOf; split <;> rfl

theorem pre_refines_aux : ∀ pa pb : List (List Char),
    lexList identCmp (if pa.isEmpty then [Ident.max] else pa.map identOf)
        (if pb.isEmpty then [Ident.max] else pb.map identOf) =
      preCmp (if pa.isEmpty then (1, []) else (0, pa.map sid))
        (if pb.isEmpty then (1, []) else (0, pb.map sid))
  | [], [] => rfl
  | [], q :: qs => by
    show (identCmp .max (identOf q)).then _ = _
    rw [identCmp_max_identOf]; rfl
  | p :: ps, [] => by
    show (identCmp (identOf p) .max).then _ = _
    rw [identCmp_identOf_max]; rfl
  | p :: ps, q :: qs => by
    show lexList identCmp ((p :: ps).map identOf) ((q :: qs).map identOf) = _
    rw [lexList_map_ident]; rfl

theorem pre_refines (a b : Raw) :
    lexList identCmp (precedenceKey a).pre (precedenceKey b).pre =
      preCmp (key a).2.2.2.1 (key b).2.2.2.1 :=
  pre_refines_aux a.pre b.pre

theorem pkeyCmp_eq_keyCmp (a b : Raw) :
    pkeyCmp (precedenceKey a) (precedenceKey b) = keyCmp (key a) (key b) := by
  unfold pkeyCmp
  rw [pre_refines]
  rfl

theorem valOps_lt_iff (a b : Raw) : valOps.lt a b = (keyCmp (key a) (key b) == .lt) := by
  show keyOp opLt _ _ = _; rw [keyOp_eq _ _ opLt_ok, pkeyCmp_eq_keyCmp]
theorem valOps_gt_iff (a b : Raw) : valOps.gt a b = (keyCmp (key a) (key b) == .gt) := by
  show keyOp opGt _ _ = _; rw [keyOp_eq _ _ opGt_ok, pkeyCmp_eq_keyCmp]
theorem valOps_le_iff (a b : Raw) : valOps.le a b = (keyCmp (key a) (key b) != .gt) := by
  show keyOp opLe _ _ = _; rw [keyOp_eq _ _ opLe_ok, pkeyCmp_eq_keyCmp]
theorem valOps_ge_iff (a b : Raw) : valOps.ge a b = (keyCmp (key a) (key b) != .lt) := by
  show keyOp opGe _ _ = _; rw [keyOp_eq _ _ opGe_ok, pkeyCmp_eq_keyCmp]

/-- REFINEMENT (C01/C03): the comparison the code computes is the SemVer §11 key order with
the build tie-break, for all values. -/
theorem vercmp_eq_key (a b : Raw) : vercmp a b = keyCmp (key a) (key b) := by
  unfold vercmp
  rw [valOps_lt_iff, valOps_gt_iff]
  cases keyCmp (key a) (key b) <;> rfl

instance : TransCmp vercmp := by
  have : vercmp = cmpOn key keyCmp := by funext a b; exact vercmp_eq_key a b
  rw [this]; infer_instance


/-! ### decimal numerals -/

theorem digitChar_toNat : ∀ n, n < 10 → (Nat.digitChar n).toNat = n + 48 := by decide

theorem digitChar_sub (c : Char) (h : c.isDigit = true) : (c.toNat - 48).digitChar = c := by
  have h' := Char.isDigit_iff_toNat.mp h
  simp only [Char.reduceToNat] at h'
  apply Char.toNat_inj.mp
  rw [digitChar_toNat _ (by omega)]; omega

theorem natStr_lt_ten {d : Nat} (h : d < 10) : natStr d = [d.digitChar] :=
  Nat.toDigits_of_lt_base h

theorem natStr_ofDigitChars (cs : List Char) : ∀ n, (∀ c ∈ cs, c.isDigit = true) → 0 < n →
    natStr (Nat.ofDigitChars 10 cs n) = natStr n ++ cs := by
  induction cs with
  | nil => intro n _ _; simp [Nat.ofDigitChars]
  | cons c cs ih =>
    intro n hd hn
    have hc : c.isDigit = true := hd c (by simp)
    have hc' := Char.isDigit_iff_toNat.mp hc
    simp only [Char.reduceToNat] at hc'
    rw [Nat.ofDigitChars_cons, ih _ (fun x hx => hd x (by simp [hx])) (by omega)]
    show Nat.toDigits 10 (10 * n + (c.toNat - 48)) ++ cs = Nat.toDigits 10 n ++ c :: cs
    rw [← Nat.toDigits_append_toDigits (by decide) hn (by omega : c.toNat - 48 < 10),
      Nat.toDigits_of_lt_base (by omega : c.toNat - 48 < 10), digitChar_sub c hc]
    simp

theorem isDigitStr_iff (s : List Char) :
    isDigitStr s = true ↔ s ≠ [] ∧ ∀ c ∈ s, c.isDigit = true := by
  cases s <;> simp [isDigitStr]

/-- a decimal numeral without superfluous leading zero prints back to itself -/
theorem natStr_parseNat (s : List Char) (hd : isDigitStr s = true) (hz : hasLeadingZero s = false) :
    natStr (parseNat s) = s := by
  obtain ⟨hne, hall⟩ := (isDigitStr_iff s).mp hd
  cases s with
  | nil => exact absurd rfl hne
  | cons c cs =>
    have hc : c.isDigit = true := hall c (by simp)
    have hc' := Char.isDigit_iff_toNat.mp hc
    simp only [Char.reduceToNat] at hc'
    by_cases h0 : c = '0'
    · subst h0
      have : cs = [] := by
        simp only [hasLeadingZero, hd] at hz
        simpa using hz
      subst this; rfl
    · have hpos : 0 < c.toNat - 48 := by
        have : c.toNat ≠ 48 := fun e => h0 (Char.toNat_inj.mp (by simpa using e))
        omega
      show natStr (Nat.ofDigitChars 10 (c :: cs) 0) = _
      rw [Nat.ofDigitChars_cons]
      show natStr (Nat.ofDigitChars 10 cs (10 * 0 + (c.toNat - 48))) = _
      rw [natStr_ofDigitChars cs _ (fun x hx => hall x (by simp [hx])) (by omega)]
      simp only [Nat.mul_zero, Nat.zero_add]
      rw [natStr_lt_ten (by omega), digitChar_sub c hc]; rfl

/-! ### well-formedness, and the operators -/

/-- no numeric pre-release identifier has a leading zero (`_validate_identifiers`) -/
def PreCanon (r : Raw) : Prop := ∀ p ∈ r.pre, hasLeadingZero p = false

instance (r : Raw) : Decidable (PreCanon r) := by unfold PreCanon; infer_instance

theorem sid_inj (p q : List Char) (hp : hasLeadingZero p = false) (hq : hasLeadingZero q = false)
    (h : sid p = sid q) : p = q := by
  unfold sid at h
  split at h <;> split at h
  · rename_i h1 h2
    have := SId.num.inj h
    rw [← natStr_parseNat p h1 hp, ← natStr_parseNat q h2 hq, this]
  · cases h
  · cases h
  · exact SId.alnum.inj h

theorem idCmp_eq_iff (x y : SId) : idCmp x y = .eq ↔ x = y := by
  cases x <;> cases y <;> simp [idCmp]
  exact lexList_eq_iff charCmp charCmp_eq_iff _ _

theorem map_sid_inj : ∀ ps qs : List (List Char), (∀ p ∈ ps, hasLeadingZero p = false) →
    (∀ q ∈ qs, hasLeadingZero q = false) → ps.map sid = qs.map sid → ps = qs
  | [], [], _, _, _ => rfl
  | [], _ :: _, _, _, h => by simp at h
  | _ :: _, [], _, _, h => by simp at h
  | p :: ps, q :: qs, hp, hq, h => by
    simp only [List.map, List.cons.injEq] at h
    rw [sid_inj p q (hp p (by simp)) (hq q (by simp)) h.1,
      map_sid_inj ps qs (fun x hx => hp x (by simp [hx])) (fun x hx => hq x (by simp [hx])) h.2]

theorem valOps_eq_iff (a b : Raw) : valOps.eq a b = decide (a = b) := by
  cases a; cases b
  rw [Bool.eq_iff_iff]
  simp [valOps, Raw.mk.injEq, and_assoc]

theorem keyCmp_self (k : Key) : keyCmp k k = .eq := ReflCmp.compare_self

/-- on canonical values: equal key ⇒ structurally equal -/
theorem eq_of_keyCmp_eq (a b : Raw) (ha : PreCanon a) (hb : PreCanon b)
    (h : keyCmp (key a) (key b) = .eq) : a = b := by
  cases a with | mk ma mi pa pra ba => ?_
  cases b with | mk mb mib pb prb bb => ?_
  simp only [keyCmp, key, lexPair, preCmp, buildCmp, natCmp, Ordering.then_eq_eq, Nat.compare_eq_eq] at h
  obtain ⟨h1, h2, h3, ⟨h4, h5⟩, h6⟩ := h
  subst h1 h2 h3
  have h6' : ba = bb :=
    (lexList_eq_iff _ (lexList_eq_iff charCmp charCmp_eq_iff) _ _).mp h6
  subst h6'
  have h5' := (lexList_eq_iff idCmp idCmp_eq_iff _ _).mp h5
  have : pra = prb := by
    cases pra <;> cases prb
    · rfl
    · simp at h4
    · simp at h4
    · simp only [List.isEmpty_cons, Bool.false_eq_true, if_false] at h5'
      exact map_sid_inj _ _ ha hb h5'
  subst this; rfl

/-- C02 for the four order operators, on ALL values -/
theorem verOps_order_lawful (a b : Raw) :
    verOps.lt a b = (vercmp a b == .lt) ∧ verOps.gt a b = (vercmp a b == .gt) ∧
    verOps.le a b = (vercmp a b != .gt) ∧ verOps.ge a b = (vercmp a b != .lt) := by
  simp only [verOps, Py.attrsOps, valOps_eq_iff, vercmp_eq_key]
  rw [valOps_lt_iff, valOps_gt_iff, valOps_le_iff, valOps_ge_iff]
  by_cases h : a = b
  · subst h; simp [keyCmp_self]
  · simp [h]

/-- C02 for `==` / `!=` -/
theorem verOps_eq_lawful (a b : Raw) (ha : PreCanon a) (hb : PreCanon b) :
    verOps.eq a b = (vercmp a b == .eq) ∧ verOps.ne a b = (vercmp a b != .eq) := by
  simp only [verOps, Py.attrsOps, valOps_eq_iff, vercmp_eq_key]
  by_cases h : a = b
  · subst h; simp [keyCmp_self]
  · have : keyCmp (key a) (key b) ≠ .eq := fun e => h (eq_of_keyCmp_eq a b ha hb e)
    simp [h, this]

/-- the values the constructors can produce -/
def CanonRaw : Type := { r : Raw // PreCanon r }

/-- the operators restricted to canonical values -/
def verOpsCanon : VOps CanonRaw where
  lt a b := verOps.lt a.1 b.1
  le a b := verOps.le a.1 b.1
  gt a b := verOps.gt a.1 b.1
  ge a b := verOps.ge a.1 b.1
  eq a b := verOps.eq a.1 b.1
  ne a b := verOps.ne a.1 b.1

/-- C02: on the values the constructors can produce (`construct_preCanon`) the six operators
of `SemverVersion` are the ones induced by `vercmp`. -/
theorem verOps_lawful_partial : Lawful verOpsCanon (fun a b => vercmp a.1 b.1) where
  lt a b := (verOps_order_lawful a.1 b.1).1
  gt a b := (verOps_order_lawful a.1 b.1).2.1
  le a b := (verOps_order_lawful a.1 b.1).2.2.1
  ge a b := (verOps_order_lawful a.1 b.1).2.2.2
  eq a b := (verOps_eq_lawful a.1 b.1 a.2 b.2).1
  ne a b := (verOps_eq_lawful a.1 b.1 a.2 b.2).2

example : PreCanon ⟨1, 2, 3, ["rc".toList, "1".toList], []⟩ := by decide

/-- NOT a defect of the code: a `Raw` that no constructor produces (`_validate_identifiers`
rejects `01`) shows why `verOps_lawful_partial` needs `PreCanon`: `1.0.0-01` and `1.0.0-1`
would have the same precedence key and differ structurally. -/
theorem verOps_lawful_counterexample :
    vercmp ⟨1, 0, 0, [['0', '1']], []⟩ ⟨1, 0, 0, [['1']], []⟩ = .eq ∧
    verOps.eq ⟨1, 0, 0, [['0', '1']], []⟩ ⟨1, 0, 0, [['1']], []⟩ = false := by decide

/-- C12: equal versions have equal hash keys (all values) -/
theorem eq_imp_hash (a b : Raw) : verOps.eq a b = true → hashKey a = hashKey b := by
  simp only [verOps, Py.attrsOps, valOps_eq_iff, decide_eq_true_eq]
  intro h; rw [h]


/-! ### what the constructors establish -/

theorem validate_preCanon (ids : List (List Char)) (h : validateIdentifiers ids false = true) :
    ∀ p ∈ ids, hasLeadingZero p = false := by
  intro p hp
  have := List.all_eq_true.mp h p hp
  cases p with
  | nil => rfl
  | cons c cs =>
    simp only [List.isEmpty_cons, Bool.not_false, Bool.true_and, Bool.and_true,
      Bool.not_eq_true'] at this
    simp only [hasLeadingZero, List.isEmpty_cons, Bool.not_false, Bool.true_and]
    exact this

theorem parse_preCanon (s : List Char) (r : Raw) (h : parse s = some r) : PreCanon r := by
  unfold parse at h
  split at h
  · cases h
  · split at h
    · cases h
    · split at h
      · cases h
      · split at h
        · cases h
        · split at h
          · cases h
          · simp only at h
            split at h
            · cases h
            · split at h
              · cases h
              · rename_i hv _
                cases h
                exact validate_preCanon _ (by simpa using hv)

theorem constructWith_preCanon (again : Bool) (s : List Char) (r : Raw)
    (h : constructWith again s = .ok r) : PreCanon r := by
  unfold constructWith at h
  simp only at h
  split at h
  · cases h
  · split at h
    · rename_i v hv
      cases h
      unfold buildValue coerce at hv
      split at hv
      · cases hv
      · exact parse_preCanon _ _ hv
    · cases h

/-- every `SemverVersion(string)` value is canonical -/
theorem construct_preCanon (s : List Char) (r : Raw) (h : construct s = .ok r) : PreCanon r :=
  constructWith_preCanon false s r h

theorem dropWhile_idem {α : Type} (p : α → Bool) (l : List α) :
    (l.dropWhile p).dropWhile p = l.dropWhile p := by
  induction l with
  | nil => rfl
  | cons a l ih =>
    by_cases h : p a
    · simp [List.dropWhile_cons_of_pos h, ih]
    · simp [List.dropWhile_cons_of_neg h]

/-- the second `lstrip("vV")` of `GolangVersion`/`ComposerVersion.build_value` never removes
anything: the four classes construct the same values. -/
theorem constructWith_true_eq (s : List Char) : constructWith true s = constructWith false s := by
  have h : lstripV (normalize s) = normalize s := dropWhile_idem _ _
  simp only [constructWith, isValid, buildValue, if_true, h]
  rfl

theorem constructGolang_eq : constructGolang = construct := funext constructWith_true_eq
theorem constructComposer_eq : constructComposer = construct := funext constructWith_true_eq
theorem constructNginx_eq : constructNginx = construct := rfl

/-! ### C18: `next_patch`, `next_minor`, `next_major` bracket their version -/

theorem natCmp_self (a : Nat) : natCmp a a = .eq := Nat.compare_eq_eq.mpr rfl
theorem natCmp_succ (a : Nat) : natCmp a (a + 1) = .lt := Nat.compare_eq_lt.mpr (Nat.lt_succ_self a)

/-- `v < v.next_patch()` -/
theorem lt_nextPatch (v : Raw) : vercmp v (nextPatch v) = .lt := by
  rw [vercmp_eq_key]
  cases v with | mk ma mi pa pre bu => ?_
  cases pre <;>
    simp [nextPatch, key, keyCmp, lexPair, preCmp, natCmp_succ, lexList]

theorem releaseCmp (a b c a' b' c' : Nat) :
    keyCmp (key ⟨a, b, c, [], []⟩) (key ⟨a', b', c', [], []⟩) =
      (natCmp a a').then ((natCmp b b').then (natCmp c c')) := by
  simp [key, keyCmp, lexPair, preCmp, buildCmp, lexList]

/-- `v.next_patch() <= v.next_minor()` -/
theorem nextPatch_le_nextMinor (v : Raw) : vercmp (nextPatch v) (nextMinor v) ≠ .gt := by
  rw [vercmp_eq_key]
  cases v with | mk ma mi pa pre bu => ?_
  cases pre with
  | nil =>
    simp only [nextPatch, nextMinor, List.isEmpty_nil, Bool.not_true, Bool.false_and,
      Bool.false_eq_true, if_false, releaseCmp, natCmp_succ, Ordering.eq_then, Ordering.lt_then]
    simp
  | cons p ps =>
    by_cases hp : pa = 0
    · subst hp
      simp [nextPatch, nextMinor, releaseCmp]
    · simp [nextPatch, nextMinor, releaseCmp, natCmp_succ, hp]

/-- `v.next_minor() <= v.next_major()` -/
theorem nextMinor_le_nextMajor (v : Raw) : vercmp (nextMinor v) (nextMajor v) ≠ .gt := by
  rw [vercmp_eq_key]
  cases v with | mk ma mi pa pre bu => ?_
  cases pre with
  | nil => simp [nextMinor, nextMajor, releaseCmp, natCmp_succ]
  | cons p ps =>
    by_cases hp : pa = 0
    · subst hp
      by_cases hm : mi = 0
      · subst hm; simp [nextMinor, nextMajor, releaseCmp]
      · simp [nextMinor, nextMajor, releaseCmp, natCmp_succ, hm]
    · simp [nextMinor, nextMajor, releaseCmp, natCmp_succ, hp]

/-- C18 for `semantic_version.Version.next_*`, including the pre-release special cases -/
theorem semver_successors (v : Raw) :
    vercmp v (nextPatch v) = .lt ∧ vercmp (nextPatch v) (nextMinor v) ≠ .gt ∧
    vercmp (nextMinor v) (nextMajor v) ≠ .gt :=
  ⟨lt_nextPatch v, nextPatch_le_nextMinor v, nextMinor_le_nextMajor v⟩

theorem isLE_of_ne_gt {o : Ordering} (h : o ≠ .gt) : o.isLE = true := by
  cases o <;> simp_all [Ordering.isLE]

theorem lt_nextMinor (v : Raw) : vercmp v (nextMinor v) = .lt :=
  TransCmp.lt_of_lt_of_isLE (lt_nextPatch v) (isLE_of_ne_gt (nextPatch_le_nextMinor v))

theorem lt_nextMajor (v : Raw) : vercmp v (nextMajor v) = .lt :=
  TransCmp.lt_of_lt_of_isLE (lt_nextMinor v) (isLE_of_ne_gt (nextMinor_le_nextMajor v))

end Univers.Semver
