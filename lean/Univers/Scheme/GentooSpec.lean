/-
Spec for schemes `ebuild` and `alpine`: the version order of the Gentoo Package Manager
Specification, §3.3 "Version Comparison" (Algorithms 3.1–3.7), written as a sort key.

A version is `N(.N)*[a-z]?(_suffix[N])*(-rN)?`; it is compared on, in this order
(Algorithm 3.1):

1. the numeric components (3.2): the FIRST components as integers; the following ones pairwise
   (3.3): when either starts with `0`, both lose their trailing zeros and are compared as
   strings, otherwise as integers; when all common components are equal the version with more
   components is greater;
2. the letter (3.4): no letter before any letter, letters in ASCII order;
3. the suffixes pairwise (3.5, 3.6): `_alpha < _beta < _pre < _rc < _p`, same suffix by the
   integer that follows (missing = 0); when one list is exhausted the other one is greater if it
   continues with `_p` and smaller otherwise (the end of the list sits at rank 0 between `_rc`
   and `_p`);
4. the revision (3.7): as integers, missing = 0.

A component under rule 3.3 is given the key `(0, stripped string, 0)` when it starts with `0`
and `(1, [], integer)` otherwise: a string that starts with `0` is below (as a string) every
string that starts with `1`…`9`, so the two-rank key orders exactly like rule 3.3.

`key` is this PMS key.  `keyC` is the variant in which the first component too is compared with
rule 3.3: that is what `gentoo.vercmp` computes (`010 < 10` in the code, `010 = 10` in PMS).
The two agree on versions whose first component has no superfluous leading zero (`FirstOK`).
-/
import Univers.Scheme.Gentoo

namespace Univers.Gentoo

open Univers Std

def natCmp (a b : Nat) : Ordering := compare a b
def intCmp (a b : Int) : Ordering := compare a b

/-! ### keys of the pieces -/

/-- a numeric component under Algorithm 3.3 -/
abbrev Comp := Nat × List Char × Nat

def compKey (s : List Char) : Comp :=
  if s.head? == some '0' then (0, rstrip0 s, 0) else (1, [], natOfDigits s)

def compCmp : Comp → Comp → Ordering := lexPair natCmp (lexPair strCmp natCmp)

/-- rank of a suffix name, Algorithm 3.6; the end of the suffix list has rank 0 -/
def sufRank (name : List Char) : Int :=
  if name == "alpha".toList then -4
  else if name == "beta".toList then -3
  else if name == "pre".toList then -2
  else if name == "rc".toList then -1
  else if name == "p".toList then 1
  else 0

/-- a suffix `name[digits]`: (rank, integer; missing = 0) -/
abbrev Suf := Int × Nat

def sufKey (p : List Char) : Suf :=
  (sufRank (p.takeWhile Char.isAlpha), natOfDigits (p.dropWhile Char.isAlpha))

def sufCmp : Suf → Suf → Ordering := lexPair intCmp natCmp

def Suf.pad : Suf := (0, 0)

/-- the dotted components (letter removed), the letter as `ord` or `-1`, the suffix parts, the
revision of a version string -/
structure Pieces where
  comps : List (List Char)
  letter : Int
  sufs : List (List Char)
  rev : Nat

def pieces (r : Raw) : Pieces :=
  let vr := parseVR r
  let p := splitOn '_' vr.1
  let l := stripLetter (splitList '.' p.1)
  { comps := l.1, letter := l.2, sufs := p.2, rev := vr.2 }

/-! ### the PMS key -/

/-- (first component, further components, letter, suffixes, revision) -/
abbrev Key := Nat × List Comp × Int × List Suf × Nat

def key (r : Raw) : Key :=
  let p := pieces r
  (natOfDigits (p.comps.headD []), p.comps.tail.map compKey, p.letter, p.sufs.map sufKey, p.rev)

def keyCmp : Key → Key → Ordering :=
  lexPair natCmp (lexPair (lexList compCmp) (lexPair intCmp (lexPair (padLex sufCmp Suf.pad) natCmp)))

/-! ### the key of the code: rule 3.3 on the first component too -/

abbrev KeyC := List Comp × Int × List Suf × Nat

def keyC (r : Raw) : KeyC :=
  let p := pieces r
  (p.comps.map compKey, p.letter, p.sufs.map sufKey, p.rev)

def keyCmpC : KeyC → KeyC → Ordering :=
  lexPair (lexList compCmp) (lexPair intCmp (lexPair (padLex sufCmp Suf.pad) natCmp))

/-- the first component has no superfluous leading zero: it does not start with `0`, or it is
all zeros -/
def FirstOK (r : Raw) : Bool :=
  let f := (pieces r).comps.headD []
  f.head? != some '0' || f.all (· == '0')

/-! ### lawfulness of the key orders -/

instance : TransCmp natCmp := inferInstanceAs (TransCmp (compare : Nat → Nat → Ordering))
instance : TransCmp intCmp := inferInstanceAs (TransCmp (compare : Int → Int → Ordering))
instance : TransCmp charCmp := inferInstanceAs (TransCmp (cmpOn Char.toNat natCmp))
instance : TransCmp strCmp := inferInstanceAs (TransCmp (lexList charCmp))
instance : TransCmp compCmp := inferInstanceAs (TransCmp (lexPair natCmp (lexPair strCmp natCmp)))
instance : TransCmp sufCmp := inferInstanceAs (TransCmp (lexPair intCmp natCmp))

instance : TransCmp keyCmp :=
  inferInstanceAs (TransCmp (lexPair natCmp (lexPair (lexList compCmp)
    (lexPair intCmp (lexPair (padLex sufCmp Suf.pad) natCmp)))))

instance : TransCmp keyCmpC :=
  inferInstanceAs (TransCmp (lexPair (lexList compCmp)
    (lexPair intCmp (lexPair (padLex sufCmp Suf.pad) natCmp))))

end Univers.Gentoo
