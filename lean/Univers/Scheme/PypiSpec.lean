/-
The PEP 440 order, written from the PEP ("Summary of permitted suffixes and relative
ordering", "Local version identifiers") and not from `packaging._cmpkey`:

* the epoch decides first (numerically);
* then the release segment, component by component, "with the shorter one padded with
  zeros" (`1.0 == 1.0.0`);
* within one release:  `.devN  <  aN  <  bN  <  rcN  <  (no suffix)  <  .postN`, where the
  first place is only for a development release *of the release itself* (no pre, no post);
* within a pre-release, a post-release or the final release:
  no post-release `<` `.postN` (by `N`);
* then `.devN` (by `N`) `<` not a development release;
* finally the local version label: no label `<` any label; labels are compared segment by
  segment, a numeric segment is greater than an alphanumeric one, numeric segments compare as
  integers, alphanumeric ones lexicographically (lower case); with a common prefix the
  label with more segments is greater.

No sentinels: the places are constructors of sum types.
-/
import Univers.Basic.PadLex
import Univers.Scheme.Pypi

namespace Univers.Pypi

open Univers Std

/-! ### two ways to order an optional part -/

/-- absent first, then by the value -/
def optFirst {α : Type} (cmp : α → α → Ordering) : Option α → Option α → Ordering
  | none, none => .eq
  | none, some _ => .lt
  | some _, none => .gt
  | some x, some y => cmp x y

/-- by the value, absent last -/
def optLast {α : Type} (cmp : α → α → Ordering) : Option α → Option α → Ordering
  | none, none => .eq
  | none, some _ => .gt
  | some _, none => .lt
  | some x, some y => cmp x y

instance optFirst.instOriented {α} (cmp : α → α → Ordering) [OrientedCmp cmp] :
    OrientedCmp (optFirst cmp) where
  eq_swap := by
    intro a b
    cases a <;> cases b <;> simp [optFirst]
    exact OrientedCmp.eq_swap

instance optFirst.instTrans {α} (cmp : α → α → Ordering) [TransCmp cmp] :
    TransCmp (optFirst cmp) where
  isLE_trans := by
    intro a b c
    cases a <;> cases b <;> cases c <;> simp [optFirst]
    exact TransCmp.isLE_trans

instance optLast.instOriented {α} (cmp : α → α → Ordering) [OrientedCmp cmp] :
    OrientedCmp (optLast cmp) where
  eq_swap := by
    intro a b
    cases a <;> cases b <;> simp [optLast]
    exact OrientedCmp.eq_swap

instance optLast.instTrans {α} (cmp : α → α → Ordering) [TransCmp cmp] :
    TransCmp (optLast cmp) where
  isLE_trans := by
    intro a b c
    cases a <;> cases b <;> cases c <;> simp [optLast]
    exact TransCmp.isLE_trans

/-! ### the phase of a version within its release -/

/-- `a < b < rc` -/
def PreL.ord : PreL → Nat
  | .a => 0 | .b => 1 | .rc => 2

inductive Phase where
  /-- `X.Y.devN`: a development release of the release itself -/
  | devOnly
  /-- `X.YaN`, `X.YbN`, `X.YrcN` (with or without `.post`/`.dev`) -/
  | pre (l : PreL) (n : Nat)
  /-- `X.Y` (with or without `.post`/`.dev` after a `.post`) -/
  | final
  deriving DecidableEq, Repr

/-- `devOnly < pre a _ < pre b _ < pre rc _ < final`; within one letter by the number -/
def Phase.cmp : Phase → Phase → Ordering
  | .devOnly, .devOnly => .eq
  | .devOnly, _ => .lt
  | _, .devOnly => .gt
  | .pre l n, .pre l' n' => (compare l.ord l'.ord).then (compare n n')
  | .pre _ _, .final => .lt
  | .final, .pre _ _ => .gt
  | .final, .final => .eq

instance Phase.instOriented : OrientedCmp Phase.cmp where
  eq_swap := by
    intro a b
    cases a <;> cases b <;> simp [Phase.cmp]
    rename_i l n l' n'
    exact OrientedCmp.eq_swap (cmp := lexPair (compare : Nat → Nat → Ordering) (compare : Nat → Nat → Ordering))
      (a := (l.ord, n)) (b := (l'.ord, n'))

instance Phase.instTrans : TransCmp Phase.cmp where
  isLE_trans := by
    intro a b c
    cases a <;> cases b <;> cases c <;> simp [Phase.cmp]
    rename_i l n l' n' l'' n''
    exact TransCmp.isLE_trans (cmp := lexPair (compare : Nat → Nat → Ordering) (compare : Nat → Nat → Ordering))
      (a := (l.ord, n)) (b := (l'.ord, n')) (c := (l''.ord, n''))

/-! ### local version segments -/

/-- alphanumeric `<` numeric; alphanumeric by code points, numeric by value -/
def LSeg.cmp : LSeg → LSeg → Ordering
  | .str s, .str t => lexList compare s t
  | .str _, .num _ => .lt
  | .num _, .str _ => .gt
  | .num m, .num n => compare m n

instance LSeg.instOriented : OrientedCmp LSeg.cmp where
  eq_swap := by
    intro a b
    cases a <;> cases b <;> simp [LSeg.cmp]
    · exact OrientedCmp.eq_swap
    · exact OrientedCmp.eq_swap (cmp := lexList (compare : Char → Char → Ordering))

instance LSeg.instTrans : TransCmp LSeg.cmp where
  isLE_trans := by
    intro a b c
    cases a <;> cases b <;> cases c <;> simp [LSeg.cmp]
    · exact TransCmp.isLE_trans
    · exact TransCmp.isLE_trans (cmp := lexList (compare : Char → Char → Ordering))

/-! ### the key -/

/-- (epoch, release, phase, post, dev, local) -/
def Key : Type := Nat × List Nat × Phase × Option Nat × Option Nat × Option (List LSeg)

def phase (r : Raw) : Phase :=
  match r.pre, r.post, r.dev with
  | some (l, n), _, _ => .pre l n
  | none, none, some _ => .devOnly
  | none, _, _ => .final

def key (r : Raw) : Key := (r.epoch, r.release, phase r, r.post, r.dev, r.loc)

/-- the comparator on the components -/
def keyCmp' : Nat × List Nat × Phase × Option Nat × Option Nat × Option (List LSeg) →
    Nat × List Nat × Phase × Option Nat × Option Nat × Option (List LSeg) → Ordering :=
  lexPair compare <|                              -- epoch
  lexPair (padLex compare 0) <|                   -- release, zero padded
  lexPair Phase.cmp <|                            -- .devN < aN < bN < rcN < final
  lexPair (optFirst compare) <|                   -- no post < .postN
  lexPair (optLast compare) <|                    -- .devN < no dev
  optFirst (lexList LSeg.cmp)                     -- no local < +local

def keyCmp : Key → Key → Ordering := keyCmp'

instance : TransCmp keyCmp' := by
  unfold keyCmp'
  infer_instance

instance : TransCmp keyCmp := inferInstanceAs (TransCmp keyCmp')

end Univers.Pypi
