/-
Theorems for the `rpm` scheme (model `Univers/Scheme/Rpm.lean`, spec `Univers/Scheme/RpmSpec.lean`).

* `vercmp_eq_key`      REFINEMENT (C03): `compare_rpm_versions` = the rpmvercmp key order, all `Raw`
* `TransCmp vercmp`    C01: the comparison is a total preorder (oriented + transitive)
* `verOps_lawful`      C02: the six operators of `univers.versions.RpmVersion` are induced by it
* `valOps_lawful`      the VALUE class `univers.rpm.RpmVersion` is lawful too (since repair 9738a24)
* `eq_iff_key_eq`      `a == b` iff the keys are identical (the key is what a hash should use)
* `getSegments_eq`     `get_segments` (the hash tokenizer) = the spec tokenizer `segs`
* `eq_imp_hash`        C12: `a == b → hash key equal`, all `Raw` (since repairs 9738a24, 39a75b5)
* `str_roundtrip`      C11 on `WellFormed` values
* `str_roundtrip_counterexample`, `str_roundtrip_counterexample_epoch`
                       C11 FAILS on values the constructor produces (`0:v2`, `0:1:2`)
* `construct_declared` nothing but `InvalidVersion` escapes the constructor (since 27588a5)
* `construct_wf`       every constructed value is `Built`
* `construct_str_roundtrip`  C11 for constructed values with a printed epoch or an unambiguous rest
-/
import Univers.Scheme.RpmSpec
import Univers.Vers.Spec

namespace Univers.Rpm

open Univers Std

set_option linter.unusedSimpArgs false

/-! ### decimal digit strings -/

theorem cmp_toNat (c d : Char) : compare c d = compare c.toNat d.toNat := by
  simp only [compare, compareOfLessAndEq, Char.lt_def, UInt32.lt_iff_toNat_lt, Char.toNat_val, ← Char.toNat_inj]
theorem isDigit_iff (c : Char) : c.isDigit = true ↔ 48 ≤ c.toNat ∧ c.toNat ≤ 57 := by
  simp [Char.isDigit, UInt32.le_iff_toNat_le]

def AllDigit (l : List Char) : Prop := ∀ c ∈ l, c.isDigit = true

theorem AllDigit.tail {c : Char} {l : List Char} (h : AllDigit (c :: l)) : AllDigit l :=
  fun d hd => h d (List.mem_cons_of_mem _ hd)
theorem AllDigit.head {c : Char} {l : List Char} (h : AllDigit (c :: l)) : c.isDigit = true :=
  h c (List.mem_cons_self)

abbrev val (l : List Char) (i : Nat) : Nat := Nat.ofDigitChars 10 l i

theorem val_ge (l : List Char) (i : Nat) : i ≤ val l i := by
  induction l generalizing i with
  | nil => simp [val]
  | cons c t ih =>
    simp only [val, Nat.ofDigitChars_cons]
    have := ih (10 * i + (c.toNat - '0'.toNat))
    simp only [val] at this
    omega

/-- same length: a smaller accumulator stays smaller -/
theorem val_lt_of_init_lt (x y : List Char) (hl : x.length = y.length) (hx : AllDigit x) (hy : AllDigit y)
    (i j : Nat) (h : i < j) : val x i < val y j := by
  induction x generalizing y i j with
  | nil => cases y with
    | nil => simpa [val] using h
    | cons _ _ => simp at hl
  | cons c t ih =>
    cases y with
    | nil => simp at hl
    | cons d u =>
      simp only [val, Nat.ofDigitChars_cons]
      have hc := (isDigit_iff c).1 hx.head
      have hd := (isDigit_iff d).1 hy.head
      apply ih u (by simpa using hl) hx.tail hy.tail
      show 10 * i + (c.toNat - 48) < 10 * j + (d.toNat - 48)
      omega

/-- same length, same accumulator: bytes order = numeric order -/
theorem val_cmp_same_len (x y : List Char) (hl : x.length = y.length) (hx : AllDigit x) (hy : AllDigit y)
    (i : Nat) : bytesCmp x y = compare (val x i) (val y i) := by
  induction x generalizing y i with
  | nil => cases y with
    | nil => simp [val, bytesCmp, lexList]
    | cons _ _ => simp at hl
  | cons c t ih =>
    cases y with
    | nil => simp at hl
    | cons d u =>
      have hc := (isDigit_iff c).1 hx.head
      have hd := (isDigit_iff d).1 hy.head
      have hl' : t.length = u.length := by simpa using hl
      simp only [val, Nat.ofDigitChars_cons]
      show (compare c d).then (bytesCmp t u) = _
      rw [cmp_toNat]
      rcases Nat.lt_trichotomy c.toNat d.toNat with h | h | h
      · have := val_lt_of_init_lt t u hl' hx.tail hy.tail (10 * i + (c.toNat - 48)) (10 * i + (d.toNat - 48)) (by omega)
        rw [Nat.compare_eq_lt.2 h]
        exact (Nat.compare_eq_lt.2 this).symm
      · rw [h, Nat.compare_eq_eq.2 rfl]
        simpa using ih u hl' hx.tail hy.tail _
      · have := val_lt_of_init_lt u t hl'.symm hy.tail hx.tail (10 * i + (d.toNat - 48)) (10 * i + (c.toNat - 48)) (by omega)
        rw [Nat.compare_eq_gt.2 h]
        exact (Nat.compare_eq_gt.2 this).symm

def HeadNZ (l : List Char) : Prop := ∀ c t, l = c :: t → c ≠ '0'

theorem val_lt_of_shorter (y : List Char) (j : Nat) (x : List Char) (hx : AllDigit x) (hy : AllDigit y)
    (hl : x.length < y.length) (h : 1 ≤ j ∨ HeadNZ y) : val x 0 < val y j := by
  induction y generalizing j with
  | nil => simp at hl
  | cons d u ih =>
    have hd := (isDigit_iff d).1 hy.head
    simp only [val, Nat.ofDigitChars_cons]
    have hj : 1 ≤ 10 * j + (d.toNat - '0'.toNat) := by
      show 1 ≤ 10 * j + (d.toNat - 48)
      rcases h with h | h
      · omega
      · have : d ≠ '0' := h d u rfl
        have : d.toNat ≠ 48 := fun e => this (Char.toNat_inj.1 e)
        omega
    by_cases he : x.length = u.length
    · exact val_lt_of_init_lt x u he hx hy.tail 0 _ (by omega)
    · exact ih _ hy.tail (by simp at hl; omega) (Or.inl hj)

theorem allDigit_dropWhile (p : Char → Bool) (l : List Char) (h : AllDigit l) : AllDigit (l.dropWhile p) :=
  fun c hc => h c ((List.dropWhile_sublist p).subset hc)

theorem headNZ_dropWhile (l : List Char) : HeadNZ (l.dropWhile (fun c => c == '0')) := by
  induction l with
  | nil => intro c t h; simp at h
  | cons d u ih =>
    by_cases hd : d = '0'
    · simpa [List.dropWhile_cons, hd] using ih
    · intro c t h
      simp [List.dropWhile_cons, hd] at h
      exact h.1 ▸ hd

theorem val_dropWhile_zero (l : List Char) : val (l.dropWhile (fun c => c == '0')) 0 = val l 0 := by
  induction l with
  | nil => rfl
  | cons d u ih =>
    by_cases hd : d = '0'
    · subst hd
      simpa [List.dropWhile_cons, val, Nat.ofDigitChars_cons] using ih
    · simp [List.dropWhile_cons, hd]

/-- the numeric branch of `Vercmp.compare` compares the two digit runs as numbers -/
theorem numCmp_eq (x y : List Char) (hx : AllDigit x) (hy : AllDigit y) :
    numCmp x y = compare (val x 0) (val y 0) := by
  simp only [numCmp]
  rw [← val_dropWhile_zero x, ← val_dropWhile_zero y]
  have hax := allDigit_dropWhile (fun c => c == '0') x hx
  have hay := allDigit_dropWhile (fun c => c == '0') y hy
  have nx := headNZ_dropWhile x
  have ny := headNZ_dropWhile y
  generalize x.dropWhile (fun c => c == '0') = a at *
  generalize y.dropWhile (fun c => c == '0') = b at *
  by_cases h1 : a.length < b.length
  · simp only [h1, ↓reduceIte]
    exact (Nat.compare_eq_lt.2 (val_lt_of_shorter b 0 a hax hay h1 (Or.inr ny))).symm
  · by_cases h2 : a.length > b.length
    · simp only [h1, h2, ↓reduceIte]
      exact (Nat.compare_eq_gt.2 (val_lt_of_shorter a 0 b hay hax h2 (Or.inr nx))).symm
    · simp only [h1, h2, ↓reduceIte]
      exact val_cmp_same_len a b (by omega) hax hay 0


/-! ### segments -/

theorem segs_nil : segs [] = [] := by rw [segs]

theorem segs_tilde (r : List Char) : segs ('~' :: r) = .tilde :: segs r := by
  rw [segs]; simp

theorem segs_caret (r : List Char) : segs ('^' :: r) = .caret :: segs r := by
  rw [segs]; simp

theorem digit_ne (c : Char) (h : c.isDigit = true) : c ≠ '~' ∧ c ≠ '^' ∧ c.isAlpha = false := by
  refine ⟨?_, ?_, ?_⟩
  · intro e; subst e; revert h; decide
  · intro e; subst e; revert h; decide
  · rw [isDigit_iff] at h
    simp [Char.isAlpha, Char.isUpper, Char.isLower, UInt32.le_iff_toNat_le]
    omega

theorem alpha_ne (c : Char) (h : c.isAlpha = true) : c ≠ '~' ∧ c ≠ '^' ∧ c.isDigit = false := by
  refine ⟨?_, ?_, ?_⟩
  · intro e; subst e; revert h; decide
  · intro e; subst e; revert h; decide
  · cases hd : c.isDigit with
    | false => rfl
    | true => have := (digit_ne c hd).2.2; simp [this] at h

theorem segs_digit (c : Char) (r : List Char) (h : c.isDigit = true) :
    segs (c :: r) = .num (val ((c :: r).takeWhile Char.isDigit) 0) :: segs ((c :: r).dropWhile Char.isDigit) := by
  obtain ⟨h1, h2, _⟩ := digit_ne c h
  rw [segs]; simp [h, h1, h2]

theorem segs_alpha (c : Char) (r : List Char) (h : c.isAlpha = true) :
    segs (c :: r) = .alpha ((c :: r).takeWhile Char.isAlpha) :: segs ((c :: r).dropWhile Char.isAlpha) := by
  obtain ⟨h1, h2, h3⟩ := alpha_ne c h
  rw [segs]; simp [h, h1, h2, h3]

theorem segs_junk (c : Char) (r : List Char) (h : isStop c = false) : segs (c :: r) = segs r := by
  simp only [isStop, Bool.or_eq_false_iff, beq_eq_false_iff_ne] at h
  obtain ⟨⟨⟨h1, h2⟩, h3⟩, h4⟩ := h
  rw [segs]; simp [h1, h2, h3, h4]

theorem segs_dropJunk (x : List Char) : segs x = segs (dropJunk x) := by
  induction x with
  | nil => rfl
  | cons c r ih =>
    cases h : isStop c with
    | false => rw [segs_junk c r h, ih]; simp [dropJunk, List.dropWhile_cons, h]
    | true => simp [dropJunk, List.dropWhile_cons, h]

theorem dropJunk_head (x : List Char) (c : Char) (r : List Char) (h : dropJunk x = c :: r) :
    isStop c = true := by
  induction x with
  | nil => simp [dropJunk] at h
  | cons d u ih =>
    cases hd : isStop d with
    | false => exact ih (by simpa [dropJunk, List.dropWhile_cons, hd] using h)
    | true =>
      have : d = c := by
        have : d :: u = c :: r := by simpa [dropJunk, List.dropWhile_cons, hd] using h
        exact (List.cons.inj this).1
      exact this ▸ hd

/-- what the head of a stripped string is, and the first segment accordingly -/
inductive View (x : List Char) : Prop
  | fin (hf : dropJunk x = []) (hs : segs x = [])
  | tilde (r : List Char) (hf : dropJunk x = '~' :: r) (hs : segs x = .tilde :: segs r)
  | caret (r : List Char) (hf : dropJunk x = '^' :: r) (hs : segs x = .caret :: segs r)
  | digit (c : Char) (r : List Char) (hf : dropJunk x = c :: r) (hd : c.isDigit = true)
      (h1 : c ≠ '~') (h2 : c ≠ '^') (h3 : c.isAlpha = false)
      (hs : segs x = .num (val ((c :: r).takeWhile Char.isDigit) 0) :: segs ((c :: r).dropWhile Char.isDigit))
  | alpha (c : Char) (r : List Char) (hf : dropJunk x = c :: r) (ha : c.isAlpha = true)
      (h1 : c ≠ '~') (h2 : c ≠ '^') (h3 : c.isDigit = false)
      (hs : segs x = .alpha ((c :: r).takeWhile Char.isAlpha) :: segs ((c :: r).dropWhile Char.isAlpha))

theorem view (x : List Char) : View x := by
  cases hf : dropJunk x with
  | nil => exact .fin hf (by rw [segs_dropJunk, hf, segs_nil])
  | cons c r =>
    have hst := dropJunk_head x c r hf
    by_cases e1 : c = '~'
    · subst e1; exact .tilde r hf (by rw [segs_dropJunk, hf, segs_tilde])
    by_cases e2 : c = '^'
    · subst e2; exact .caret r hf (by rw [segs_dropJunk, hf, segs_caret])
    by_cases e3 : c.isDigit = true
    · obtain ⟨h1, h2, h3⟩ := digit_ne c e3
      exact .digit c r hf e3 h1 h2 h3 (by rw [segs_dropJunk, hf, segs_digit c r e3])
    · have e4 : c.isAlpha = true := by simpa [isStop, e1, e2, e3] using hst
      obtain ⟨h1, h2, h3⟩ := alpha_ne c e4
      exact .alpha c r hf e4 h1 h2 h3 (by rw [segs_dropJunk, hf, segs_alpha c r e4])

theorem segCmp_num (a b : Nat) : segCmp (.num a) (.num b) = compare a b := by
  simp [segCmp, cmpOn, lexPair, Seg.key, natCmp, lexList]

theorem segCmp_alpha (a b : List Char) : segCmp (.alpha a) (.alpha b) = bytesCmp a b := by
  show (compare 3 3).then ((lexList charCmp a b).then (compare 0 0)) = lexList charCmp a b
  generalize lexList charCmp a b = o
  cases o <;> rfl

theorem segCmp_of_rank_lt {a b : Seg} (h : a.key.1 < b.key.1) : segCmp a b = .lt := by
  simp only [segCmp, cmpOn, lexPair, natCmp]
  rw [Nat.compare_eq_lt.2 h]; rfl

theorem segCmp_of_rank_gt {a b : Seg} (h : b.key.1 < a.key.1) : segCmp a b = .gt := by
  simp only [segCmp, cmpOn, lexPair, natCmp]
  rw [Nat.compare_eq_gt.2 h]; rfl

theorem segCmp_tilde_tilde : segCmp Seg.tilde Seg.tilde = .eq := rfl
theorem segCmp_tilde_fin : segCmp Seg.tilde Seg.fin = .lt := segCmp_of_rank_lt (by simp [Seg.key])
theorem segCmp_tilde_caret : segCmp Seg.tilde Seg.caret = .lt := segCmp_of_rank_lt (by simp [Seg.key])
theorem segCmp_tilde_alpha (w : List Char) : segCmp Seg.tilde (Seg.alpha w) = .lt := segCmp_of_rank_lt (by simp [Seg.key])
theorem segCmp_tilde_num (w : Nat) : segCmp Seg.tilde (Seg.num w) = .lt := segCmp_of_rank_lt (by simp [Seg.key])
theorem segCmp_fin_tilde : segCmp Seg.fin Seg.tilde = .gt := segCmp_of_rank_gt (by simp [Seg.key])
theorem segCmp_fin_fin : segCmp Seg.fin Seg.fin = .eq := rfl
theorem segCmp_fin_caret : segCmp Seg.fin Seg.caret = .lt := segCmp_of_rank_lt (by simp [Seg.key])
theorem segCmp_fin_alpha (w : List Char) : segCmp Seg.fin (Seg.alpha w) = .lt := segCmp_of_rank_lt (by simp [Seg.key])
theorem segCmp_fin_num (w : Nat) : segCmp Seg.fin (Seg.num w) = .lt := segCmp_of_rank_lt (by simp [Seg.key])
theorem segCmp_caret_tilde : segCmp Seg.caret Seg.tilde = .gt := segCmp_of_rank_gt (by simp [Seg.key])
theorem segCmp_caret_fin : segCmp Seg.caret Seg.fin = .gt := segCmp_of_rank_gt (by simp [Seg.key])
theorem segCmp_caret_caret : segCmp Seg.caret Seg.caret = .eq := rfl
theorem segCmp_caret_alpha (w : List Char) : segCmp Seg.caret (Seg.alpha w) = .lt := segCmp_of_rank_lt (by simp [Seg.key])
theorem segCmp_caret_num (w : Nat) : segCmp Seg.caret (Seg.num w) = .lt := segCmp_of_rank_lt (by simp [Seg.key])
theorem segCmp_alpha_tilde (u : List Char) : segCmp (Seg.alpha u) Seg.tilde = .gt := segCmp_of_rank_gt (by simp [Seg.key])
theorem segCmp_alpha_fin (u : List Char) : segCmp (Seg.alpha u) Seg.fin = .gt := segCmp_of_rank_gt (by simp [Seg.key])
theorem segCmp_alpha_caret (u : List Char) : segCmp (Seg.alpha u) Seg.caret = .gt := segCmp_of_rank_gt (by simp [Seg.key])
theorem segCmp_alpha_num (u : List Char) (w : Nat) : segCmp (Seg.alpha u) (Seg.num w) = .lt := segCmp_of_rank_lt (by simp [Seg.key])
theorem segCmp_num_tilde (u : Nat) : segCmp (Seg.num u) Seg.tilde = .gt := segCmp_of_rank_gt (by simp [Seg.key])
theorem segCmp_num_fin (u : Nat) : segCmp (Seg.num u) Seg.fin = .gt := segCmp_of_rank_gt (by simp [Seg.key])
theorem segCmp_num_caret (u : Nat) : segCmp (Seg.num u) Seg.caret = .gt := segCmp_of_rank_gt (by simp [Seg.key])
theorem segCmp_num_alpha (u : Nat) (w : List Char) : segCmp (Seg.num u) (Seg.alpha w) = .gt := segCmp_of_rank_gt (by simp [Seg.key])

theorem allDigit_takeWhile (l : List Char) : AllDigit (l.takeWhile Char.isDigit) := by
  intro c hc
  induction l with
  | nil => simp at hc
  | cons d u ih =>
    by_cases hd : d.isDigit = true
    · simp only [List.takeWhile_cons, hd, ↓reduceIte, List.mem_cons] at hc
      rcases hc with rfl | hc
      · exact hd
      · exact ih hc
    · simp [List.takeWhile_cons, hd] at hc

local macro "rpm_case" x:ident y:ident : tactic => `(tactic|
  (rcases view $x with ⟨hf, hs⟩ | ⟨r, hf, hs⟩ | ⟨r, hf, hs⟩ | ⟨c, r, hf, hd, h1, h2, h3, hs⟩ | ⟨c, r, hf, ha, h1, h2, h3, hs⟩ <;>
   rcases view $y with ⟨hf', hs'⟩ | ⟨r', hf', hs'⟩ | ⟨r', hf', hs'⟩ | ⟨c', r', hf', hd', h1', h2', h3', hs'⟩ | ⟨c', r', hf', ha', h1', h2', h3', hs'⟩ <;>
   simp +zetaDelta only [hf, hf', startsWith, startsDigit, startsAlpha, List.drop_one, List.tail_cons,
     List.isEmpty_cons, List.isEmpty_nil] at * <;>
   first
   | (simp_all; done)
   | (simp only [hs, hs', segsCmp, padLex, segCmp_num, segCmp_alpha]
      try rw [← numCmp_eq _ _ (allDigit_takeWhile _) (allDigit_takeWhile _)]
      try rw [‹numCmp _ _ = _›]
      try rw [‹bytesCmp _ _ = _›]
      first
      | done
      | (simp [*, segsCmp, segCmp_tilde_tilde, segCmp_tilde_fin, segCmp_tilde_caret, segCmp_tilde_alpha, segCmp_tilde_num, segCmp_fin_tilde, segCmp_fin_fin, segCmp_fin_caret, segCmp_fin_alpha, segCmp_fin_num, segCmp_caret_tilde, segCmp_caret_fin, segCmp_caret_caret, segCmp_caret_alpha, segCmp_caret_num, segCmp_alpha_tilde, segCmp_alpha_fin, segCmp_alpha_caret, segCmp_alpha_num, segCmp_num_tilde, segCmp_num_fin, segCmp_num_caret, segCmp_num_alpha]; done)
      | (simp_all [segsCmp, segCmp_tilde_tilde, segCmp_tilde_fin, segCmp_tilde_caret, segCmp_tilde_alpha, segCmp_tilde_num, segCmp_fin_tilde, segCmp_fin_fin, segCmp_fin_caret, segCmp_fin_alpha, segCmp_fin_num, segCmp_caret_tilde, segCmp_caret_fin, segCmp_caret_caret, segCmp_caret_alpha, segCmp_caret_num, segCmp_alpha_tilde, segCmp_alpha_fin, segCmp_alpha_caret, segCmp_alpha_num, segCmp_num_tilde, segCmp_num_fin, segCmp_num_caret, segCmp_num_alpha]; done))))

theorem cmpLoop_eq (a b : List Char) : cmpLoop a b = segsCmp (segs a) (segs b) := by
  fun_induction cmpLoop a b with
  | case1 x y => rpm_case x y
  | case2 x y => rpm_case x y
  | case3 x y => rpm_case x y
  | case4 x y => rpm_case x y
  | case5 x y => rpm_case x y
  | case6 x y => rpm_case x y
  | case7 x y => rpm_case x y
  | case8 x y => rpm_case x y
  | case9 x y => rpm_case x y
  | case10 x y => rpm_case x y
  | case11 x y => rpm_case x y
  | case12 x y => rpm_case x y
  | case13 x y => rpm_case x y
  | case14 x y => rpm_case x y
  | case15 x y => rpm_case x y
  | case16 x y => rpm_case x y
  | case17 x y => rpm_case x y
  | case18 x y => rpm_case x y
  | case19 x y => rpm_case x y

theorem strCmp_eq (x y : List Char) : strCmp x y = segsCmp (segs x) (segs y) := by
  unfold strCmp
  split
  · next h => subst h; exact (ReflCmp.compare_self (cmp := segsCmp)).symm
  · exact cmpLoop_eq x y

/-! ### refinement -/

/-- REFINEMENT (C03): `compare_rpm_versions` orders two values the way the key
`(epoch, segments of version, segments of release)` does. -/
theorem vercmp_eq_key (a b : Raw) : vercmp a b = keyCmp (key a) (key b) := by
  obtain ⟨ea, va, ra⟩ := a
  obtain ⟨eb, vb, rb⟩ := b
  simp only [vercmp, keyCmp, key, lexPair, intCmp, strCmp_eq]
  by_cases he : ea = eb
  · subst he
    simp only [bne_self_eq_false, Bool.false_eq_true, ↓reduceIte, Int.compare_eq_eq.2 rfl,
      Ordering.eq_then]
    split
    · next h =>
      obtain ⟨h1, h2⟩ := h
      subst h1; subst h2
      simp [ReflCmp.compare_self (cmp := segsCmp)]
    · generalize segsCmp (segs va) (segs vb) = o
      cases o <;> rfl
  · have hne : (ea != eb) = true := by simpa using he
    simp only [hne, ↓reduceIte]
    by_cases hgt : ea > eb
    · simp only [hgt, ↓reduceIte]
      rw [Int.compare_eq_gt.2 hgt]; rfl
    · simp only [hgt, ↓reduceIte]
      have : ea < eb := by omega
      rw [Int.compare_eq_lt.2 this]; rfl

instance : TransCmp vercmp :=
  have : vercmp = cmpOn key keyCmp := by funext a b; exact vercmp_eq_key a b
  this ▸ inferInstanceAs (TransCmp (cmpOn key keyCmp))

/-! ### operators (C02) -/

/-- the six operators of `univers.versions.RpmVersion` are the ones induced by
`compare_rpm_versions` -/
theorem verOps_lawful : Lawful verOps vercmp := by
  constructor <;> intro a b <;> simp only [verOps, Py.attrsOps, valOps] <;>
    cases vercmp a b <;> rfl

/-- since the repair 9738a24 the value class `univers.rpm.RpmVersion` is lawful too (before it,
`1.0 == 1.00` and `1.0 != 1.00` were both true: inherited textual `tuple.__ne__`). -/
theorem valOps_lawful : Lawful valOps vercmp := by
  constructor <;> intro a b <;> rfl

/-- `rpm.RpmVersion(0, "1.0", "")` -/
def w10 : Raw := ⟨0, ['1', '.', '0'], []⟩
/-- `rpm.RpmVersion(0, "1.00", "")` -/
def w100 : Raw := ⟨0, ['1', '.', '0', '0'], []⟩

theorem vercmp_w10_w100 : vercmp w10 w100 = .eq := by
  rw [vercmp_eq_key]
  simp [w10, w100, key, segs, keyCmp, lexPair, intCmp, segsCmp, padLex, segCmp_num, Nat.ofDigitChars]

/-! ### when are two versions equal: exactly when the keys are the same -/

theorem charCmp_eq {c d : Char} (h : charCmp c d = .eq) : c = d := by
  simp only [charCmp, cmp_toNat] at h
  exact Char.toNat_inj.1 (Nat.compare_eq_eq.1 h)

theorem lexList_charCmp_eq {a b : List Char} (h : lexList charCmp a b = .eq) : a = b := by
  induction a generalizing b with
  | nil => cases b with
    | nil => rfl
    | cons _ _ => simp [lexList] at h
  | cons c t ih =>
    cases b with
    | nil => simp [lexList] at h
    | cons d u =>
      simp only [lexList, Ordering.then_eq_eq] at h
      rw [charCmp_eq h.1, ih h.2]

theorem segCmp_eq {a b : Seg} (h : segCmp a b = .eq) : a = b := by
  cases a <;> cases b <;>
    first
    | rfl
    | (simp [segCmp_tilde_tilde, segCmp_tilde_fin, segCmp_tilde_caret, segCmp_tilde_alpha, segCmp_tilde_num, segCmp_fin_tilde, segCmp_fin_fin, segCmp_fin_caret, segCmp_fin_alpha, segCmp_fin_num, segCmp_caret_tilde, segCmp_caret_fin, segCmp_caret_caret, segCmp_caret_alpha, segCmp_caret_num, segCmp_alpha_tilde, segCmp_alpha_fin, segCmp_alpha_caret, segCmp_alpha_num, segCmp_num_tilde, segCmp_num_fin, segCmp_num_caret, segCmp_num_alpha] at h; done)
    | (rw [segCmp_alpha] at h; rw [lexList_charCmp_eq h])
    | (rw [segCmp_num] at h; rw [Nat.compare_eq_eq.1 h])

/-- the padding marker never occurs in the segments of a string -/
def NoFin (l : List Seg) : Prop := ∀ s ∈ l, s ≠ .fin

theorem noFin_cons {x : Seg} {l : List Seg} (hx : x ≠ .fin) (hl : NoFin l) : NoFin (x :: l) := by
  intro s hs
  rcases List.mem_cons.1 hs with rfl | h
  · exact hx
  · exact hl s h

theorem segs_noFin (s : List Char) : NoFin (segs s) := by
  fun_induction segs s with
  | case1 => intro x hx; simp at hx
  | case2 _ _ _ ih => exact noFin_cons (by simp) ih
  | case3 _ _ _ _ ih => exact noFin_cons (by simp) ih
  | case4 _ _ _ _ _ ih => exact noFin_cons (by simp) ih
  | case5 _ _ _ _ _ _ ih => exact noFin_cons (by simp) ih
  | case6 _ _ _ _ _ _ ih => exact ih

theorem segsCmp_eq {a b : List Seg} (ha : NoFin a) (hb : NoFin b) (h : segsCmp a b = .eq) : a = b := by
  induction a generalizing b with
  | nil => cases b with
    | nil => rfl
    | cons y ys =>
      simp only [segsCmp, padLex, Ordering.then_eq_eq] at h
      exact absurd (segCmp_eq h.1).symm (hb y List.mem_cons_self)
  | cons x xs ih =>
    cases b with
    | nil =>
      simp only [segsCmp, padLex, Ordering.then_eq_eq] at h
      exact absurd (segCmp_eq h.1) (ha x List.mem_cons_self)
    | cons y ys =>
      simp only [segsCmp, padLex, Ordering.then_eq_eq] at h
      rw [segCmp_eq h.1, ih (fun s hs => ha s (List.mem_cons_of_mem _ hs))
        (fun s hs => hb s (List.mem_cons_of_mem _ hs)) h.2]

/-- two versions are `==` exactly when their keys are identical: `key` is the value a correct
`__hash__` would have to be computed from. -/
theorem eq_iff_key_eq (a b : Raw) : verOps.eq a b = true ↔ key a = key b := by
  rw [verOps_lawful.eq, vercmp_eq_key]
  constructor
  · intro h
    have h : keyCmp (key a) (key b) = .eq := by simpa using h
    simp only [keyCmp, key, lexPair, intCmp, Ordering.then_eq_eq] at h
    obtain ⟨h1, h2, h3⟩ := h
    simp only [key]
    rw [Int.compare_eq_eq.1 h1, segsCmp_eq (segs_noFin _) (segs_noFin _) h2,
      segsCmp_eq (segs_noFin _) (segs_noFin _) h3]
  · intro h
    rw [h, ReflCmp.compare_self (cmp := keyCmp)]; rfl

theorem allDigit_toDigits (n : Nat) : AllDigit (Nat.toDigits 10 n) :=
  fun _ hc => Nat.isDigit_of_mem_toDigits (by omega) (by omega) hc

/-! ### hash (C12): `hash((epoch, get_segments(version), get_segments(release)))` -/

/-- two ASCII digit strings with the same numeric value have the same `lstrip("0")` text -/
theorem strip_eq_of_val_eq (x y : List Char) (hx : AllDigit x) (hy : AllDigit y)
    (h : val x 0 = val y 0) :
    x.dropWhile (fun c => c == '0') = y.dropWhile (fun c => c == '0') := by
  have hn := numCmp_eq x y hx hy
  rw [h, Nat.compare_eq_eq.2 rfl] at hn
  simp only [numCmp] at hn
  split at hn
  · cases hn
  · split at hn
    · cases hn
    · exact lexList_charCmp_eq hn

/-- a segment of the spec as the element of the tuple that `get_segments` returns -/
def toH : Seg → List Char
  | .tilde => ['~']
  | .caret => ['^']
  | .fin => []
  | .alpha s => s
  | .num n => (Nat.toDigits 10 n).dropWhile (fun c => c == '0')

theorem convSeg_digits (c : Char) (r : List Char) (h : c.isDigit = true) :
    convSeg ((c :: r).takeWhile Char.isDigit) = toH (.num (val ((c :: r).takeWhile Char.isDigit) 0)) := by
  have hd := allDigit_takeWhile (c :: r)
  have hall : ((c :: r).takeWhile Char.isDigit).all Char.isDigit = true := List.all_eq_true.2 hd
  have hne : ((c :: r).takeWhile Char.isDigit).isEmpty = false := by
    simp [List.takeWhile_cons, h]
  simp only [convSeg, hall, hne, Bool.not_false, Bool.and_self, ↓reduceIte, toH]
  exact strip_eq_of_val_eq _ _ hd (allDigit_toDigits _)
    (Nat.ofDigitChars_toDigits (by omega) (by omega)).symm

theorem convSeg_alpha (c : Char) (r : List Char) (h : c.isAlpha = true) :
    convSeg ((c :: r).takeWhile Char.isAlpha) = (c :: r).takeWhile Char.isAlpha := by
  have hd := (alpha_ne c h).2.2
  simp [convSeg, List.takeWhile_cons, h, hd]

/-- `get_segments` is the spec's tokenizer -/
theorem getSegments_eq (s : List Char) : getSegments s = (segs s).map toH := by
  fun_induction segs s with
  | case1 => simp [getSegments, findSegs]
  | case2 c r hc ih =>
    have e : c = '~' := by simpa using hc
    subst e
    rw [getSegments, findSegs]
    simp only [show ('~' : Char).isDigit = false by decide, show ('~' : Char).isAlpha = false by decide,
      Bool.false_eq_true, ↓reduceIte, beq_self_eq_true, List.map_cons]
    rw [← getSegments, ih]; rfl
  | case3 c r hc1 hc ih =>
    have e : c = '^' := by simpa using hc
    subst e
    rw [getSegments, findSegs]
    simp only [show ('^' : Char).isDigit = false by decide, show ('^' : Char).isAlpha = false by decide,
      Bool.false_eq_true, ↓reduceIte, beq_self_eq_true, List.map_cons,
      show (('^' : Char) == '~') = false by decide]
    rw [← getSegments, ih]; rfl
  | case4 c r hc1 hc2 hd ih =>
    rw [getSegments, findSegs]
    simp only [hd, ↓reduceIte, List.map_cons]
    rw [← getSegments, ih, convSeg_digits c r hd]
  | case5 c r hc1 hc2 hd ha ih =>
    rw [getSegments, findSegs]
    simp only [hd, ha, Bool.false_eq_true, ↓reduceIte, List.map_cons]
    rw [← getSegments, ih, convSeg_alpha c r ha]; rfl
  | case6 c r hc1 hc2 hd ha ih =>
    rw [getSegments, findSegs]
    simp only [hd, ha, hc1, hc2, Bool.false_eq_true, ↓reduceIte]
    exact ih

/-- the hash key is a function of the spec key -/
theorem hashKey_eq (r : Raw) :
    hashKey r = (r.epoch, (segs r.version).map toH, (segs r.release).map toH) := by
  simp only [hashKey, getSegments_eq]

/-- C12 (since the repairs 9738a24, 39a75b5): versions that are `==` have the same hash key -/
theorem eq_imp_hash (a b : Raw) : verOps.eq a b = true → hashKey a = hashKey b := by
  intro h
  have hk := (eq_iff_key_eq a b).1 h
  simp only [key] at hk
  have h1 : a.epoch = b.epoch := congrArg Prod.fst hk
  have h2 : segs a.version = segs b.version := congrArg (fun k => k.2.1) hk
  have h3 : segs a.release = segs b.release := congrArg (fun k => k.2.2) hk
  rw [hashKey_eq, hashKey_eq, h1, h2, h3]

/-! ### `str` round trip (C11) -/

def noWs (l : List Char) : Bool := l.all (fun c => !isWs c)

/-- what every constructed value satisfies (`construct_wf`): no whitespace, no `-` in the version
part, a version part that is not empty (since 27588a5), an epoch that `int()`/`str()` can handle -/
def built (r : Raw) : Bool :=
  noWs r.version && noWs r.release && !r.version.contains '-' && !r.version.isEmpty
  && decide ((Nat.toDigits 10 r.epoch.natAbs).length ≤ maxStrDigits)

def Built (r : Raw) : Prop := built r = true
instance (r : Raw) : Decidable (Built r) := inferInstanceAs (Decidable (_ = true))

/-- the constructed values that `str` spells unambiguously: with epoch 0 (not printed) the rest
must not look like it has an epoch or a leading `v` -/
def wellFormed (r : Raw) : Bool :=
  built r
  && (r.epoch != 0 ||
      (!r.version.contains ':' && !r.release.contains ':' && !startsV r.version))
where startsV : List Char → Bool
  | [] => false
  | c :: _ => isV c

def WellFormed (r : Raw) : Prop := wellFormed r = true
instance (r : Raw) : Decidable (WellFormed r) := inferInstanceAs (Decidable (_ = true))

theorem removeSpaces_of_noWs {l : List Char} (h : noWs l = true) : removeSpaces l = l := by
  simp only [noWs, List.all_eq_true] at h
  exact List.filter_eq_self.2 h

theorem noWs_append {a b : List Char} : noWs (a ++ b) = (noWs a && noWs b) := by
  simp [noWs]

theorem partition_append (sep : Char) (a b : List Char) (h : a.contains sep = false) :
    partition sep (a ++ sep :: b) = (a, b) := by
  have h' : ∀ c ∈ a, (c != sep) = true := by
    intro c hc
    simp only [bne_iff_ne, ne_eq]
    intro e; subst e
    simp at h
    exact h hc
  simp only [partition]
  rw [List.takeWhile_append_of_pos h', List.dropWhile_append_of_pos h']
  simp

theorem validTail_allDigit (l : List Char) (h : AllDigit l) : validTail l = true := by
  induction l with
  | nil => rfl
  | cons c t ih =>
    cases t with
    | nil => simpa [validTail] using h.head
    | cons d u => simp only [validTail, h.head, ↓reduceIte]; exact ih h.tail

theorem filter_allDigit (l : List Char) (h : AllDigit l) : l.filter Char.isDigit = l :=
  List.filter_eq_self.2 h

theorem pyNatLit_toDigits (n : Nat) (hn : (Nat.toDigits 10 n).length ≤ maxStrDigits) :
    pyNatLit (Nat.toDigits 10 n) = some n := by
  have hd := allDigit_toDigits n
  have hne := Nat.toDigits_ne_nil (n := n) (b := 10)
  have hv : validBody (Nat.toDigits 10 n) = true := by
    cases h : Nat.toDigits 10 n with
    | nil => exact absurd h hne
    | cons c t =>
      rw [h] at hd
      simp [validBody, hd.head, validTail_allDigit t hd.tail]
  simp only [pyNatLit, hv, ↓reduceIte, filter_allDigit _ hd]
  rw [if_neg (by omega), Nat.ofDigitChars_toDigits (by omega) (by omega)]

theorem pyInt_pyIntStr (e : Int) (hn : (Nat.toDigits 10 e.natAbs).length ≤ maxStrDigits) :
    pyInt (pyIntStr e) = some e := by
  by_cases he : e < 0
  · simp only [pyIntStr, he, ↓reduceIte, pyInt, pyNatLit_toDigits _ hn, Option.map_some]
    congr 1; omega
  · simp only [pyIntStr, he, ↓reduceIte]
    have hd := allDigit_toDigits e.natAbs
    have := pyNatLit_toDigits _ hn
    cases h : Nat.toDigits 10 e.natAbs with
    | nil => exact absurd h Nat.toDigits_ne_nil
    | cons c t =>
      rw [h] at hd this
      have hc := (isDigit_iff c).1 hd.head
      have h1 : c ≠ '-' := by intro e; subst e; revert hc; decide
      have h2 : c ≠ '+' := by intro e; subst e; revert hc; decide
      unfold pyInt
      split
      · next heq => exact absurd (List.cons.inj heq).1 h1
      · next heq => exact absurd (List.cons.inj heq).1 h2
      · rw [this]; simp only [Option.map_some]; congr 1; omega

theorem intChar_facts (c : Char) (h : c.isDigit = true ∨ c = '-') :
    isWs c = false ∧ c ≠ ':' ∧ isV c = false := by
  rcases h with h | h
  · have hc := (isDigit_iff c).1 h
    refine ⟨?_, ?_, ?_⟩
    · simp only [isWs, Bool.or_eq_false_iff, Bool.and_eq_false_iff, decide_eq_false_iff_not]; omega
    · intro e; subst e; revert hc; decide
    · simp only [isV, Bool.or_eq_false_iff, beq_eq_false_iff_ne]
      constructor <;> (intro e; subst e; revert hc; decide)
  · subst h; decide

theorem pyIntStr_chars (e : Int) : ∀ c ∈ pyIntStr e, c.isDigit = true ∨ c = '-' := by
  intro c hc
  simp only [pyIntStr] at hc
  split at hc
  · rcases List.mem_cons.1 hc with rfl | h
    · exact Or.inr rfl
    · exact Or.inl (allDigit_toDigits _ c h)
  · exact Or.inl (allDigit_toDigits _ c hc)

theorem pyIntStr_ne_nil (e : Int) : pyIntStr e ≠ [] := by
  simp only [pyIntStr]
  split
  · simp
  · exact Nat.toDigits_ne_nil

/-- `vr` of `to_string` -/
def vrOf (v rl : List Char) : List Char := if rl.isEmpty then v else v ++ '-' :: rl

theorem splitVR (v rl : List Char) (hv : v.contains '-' = false) :
    (if (vrOf v rl).contains '-' then partition '-' (vrOf v rl) else (vrOf v rl, [])) = (v, rl) := by
  cases rl with
  | nil =>
    have hv' : '-' ∉ v := by simpa using hv
    simp [vrOf, hv']
  | cons c t =>
    have : (v ++ '-' :: c :: t).contains '-' = true := by simp
    simp only [vrOf, List.isEmpty_cons, Bool.false_eq_true, ↓reduceIte, this]
    exact partition_append '-' v (c :: t) hv

theorem noWs_vrOf (v rl : List Char) (hv : noWs v = true) (hr : noWs rl = true) :
    noWs (vrOf v rl) = true := by
  unfold vrOf
  split
  · exact hv
  · rw [noWs_append, hv]
    simp only [noWs, List.all_cons, Bool.true_and, Bool.and_eq_true] at hr ⊢
    exact ⟨by decide, hr⟩

theorem fromEvr_tail (e : Int) (v rl : List Char) (hv : v.contains '-' = false) :
    (let (v', r') := if (vrOf v rl).contains '-' then partition '-' (vrOf v rl) else (vrOf v rl, [])
     (some ⟨e, v', r'⟩ : Option Raw)) = some ⟨e, v, rl⟩ := by
  rw [splitVR v rl hv]

theorem construct_of (s n : List Char) (r : Raw) (hn : normalize s = n) (hne : n.isEmpty = false)
    (hf : fromEvr n = some r) (hv : r.version.isEmpty = false) : construct s = .ok r := by
  simp [construct, isValid, hn, hne, hf, hv]

/-- C11 on well-formed values: `RpmVersion(str(x)).value == x.value`, textually -/
theorem str_roundtrip (r : Raw) (h : WellFormed r) : construct (str r) = .ok r := by
  obtain ⟨e, v, rl⟩ := r
  simp only [WellFormed, wellFormed, built, Bool.and_eq_true, Bool.not_eq_true', decide_eq_true_eq,
    Bool.or_eq_true, bne_iff_ne, ne_eq] at h
  obtain ⟨⟨⟨⟨⟨hwv, hwr⟩, hdash⟩, hnev⟩, hdig⟩, hep⟩ := h
  have hvr := noWs_vrOf v rl hwv hwr
  have hpz : pyInt ['0'] = some 0 := by decide
  by_cases he : e = 0
  · subst he
    simp only [not_true_eq_false, false_or] at hep
    obtain ⟨⟨hcv, hcr⟩, hsv⟩ := hep
    have hs : str ⟨0, v, rl⟩ = vrOf v rl := by simp [str, vrOf]
    have hcol : (vrOf v rl).contains ':' = false := by
      have h1 : ':' ∉ v := by simpa using hcv
      have h2 : ':' ∉ rl := by simpa using hcr
      unfold vrOf; split <;> simp [h1, h2]
    have hdrop : (vrOf v rl).dropWhile isV = vrOf v rl ∧ (vrOf v rl).isEmpty = false := by
      cases v with
      | nil => simp at hnev
      | cons c t =>
        have : isV c = false := by simpa [wellFormed.startsV] using hsv
        unfold vrOf; split <;> simp [List.dropWhile_cons, this]
    rw [hs]
    refine construct_of _ _ _ (by simp only [normalize, removeSpaces_of_noWs hvr, hdrop.1]) hdrop.2 ?_ hnev
    simp only [fromEvr, hcol, Bool.false_eq_true, ↓reduceIte, hpz]
    rw [splitVR v rl hdash]
  · have hs : str ⟨e, v, rl⟩ = pyIntStr e ++ ':' :: vrOf v rl := by simp [str, vrOf, he]
    have hch := fun c hc => intChar_facts c (pyIntStr_chars e c hc)
    have hws : noWs (pyIntStr e ++ ':' :: vrOf v rl) = true := by
      rw [noWs_append]
      have h1 : noWs (pyIntStr e) = true := by
        simp only [noWs, List.all_eq_true, Bool.not_eq_true']
        exact fun c hc => (hch c hc).1
      have h2 : noWs (':' :: vrOf v rl) = true := by
        simp only [noWs, List.all_cons, Bool.and_eq_true] at hvr ⊢
        exact ⟨by decide, hvr⟩
      simp [h1, h2]
    have hcol : (pyIntStr e).contains ':' = false := by
      have : ':' ∉ pyIntStr e := fun hc => (hch _ hc).2.1 rfl
      simpa using this
    have hdrop : (pyIntStr e ++ ':' :: vrOf v rl).dropWhile isV = pyIntStr e ++ ':' :: vrOf v rl
        ∧ (pyIntStr e ++ ':' :: vrOf v rl).isEmpty = false := by
      cases hp : pyIntStr e with
      | nil => exact absurd hp (pyIntStr_ne_nil e)
      | cons c t =>
        have : isV c = false := (hch c (by rw [hp]; exact List.mem_cons_self)).2.2
        simp [this]
    have hcont : (pyIntStr e ++ ':' :: vrOf v rl).contains ':' = true := by simp
    rw [hs]
    refine construct_of _ _ _ (by simp only [normalize, removeSpaces_of_noWs hws, hdrop.1]) hdrop.2 ?_ hnev
    simp only [fromEvr, hcont, ↓reduceIte, partition_append ':' _ _ hcol, pyInt_pyIntStr e hdig]
    rw [splitVR v rl hdash]

instance instDecEqResult : DecidableEq (Except PErr Raw) := fun a b =>
  match a, b with
  | .ok x, .ok y => if h : x = y then isTrue (by rw [h]) else isFalse (by intro e; cases e; exact h rfl)
  | .error x, .error y => if h : x = y then isTrue (by rw [h]) else isFalse (by intro e; cases e; exact h rfl)
  | .ok _, .error _ => isFalse (by intro e; cases e)
  | .error _, .ok _ => isFalse (by intro e; cases e)

example : WellFormed ⟨1, "1.2".toList, "3.el7".toList⟩ := by decide
example : WellFormed ⟨0, "1.2".toList, []⟩ := by decide

/-- C11 FAILS outside `WellFormed`, on values that the constructor does produce:
`RpmVersion("0:v2")` has value `(0, "v2", "")`, prints as `"v2"`, which parses to `(0, "2", "")`
(`normalize` strips the `v`), a different and smaller version. -/
theorem str_roundtrip_counterexample :
    construct "0:v2".toList = .ok ⟨0, ['v', '2'], []⟩ ∧ str ⟨0, ['v', '2'], []⟩ = ['v', '2'] ∧
    construct ['v', '2'] = .ok ⟨0, ['2'], []⟩ ∧ vercmp ⟨0, ['v', '2'], []⟩ ⟨0, ['2'], []⟩ = .lt := by
  refine ⟨by decide, by decide, by decide, ?_⟩
  rw [vercmp_eq_key]
  simp [key, segs, keyCmp, lexPair, intCmp, segsCmp, padLex, segCmp_alpha_num]

/-- `RpmVersion("0:1:2")` has value `(0, "1:2", "")`, prints as `"1:2"`, which parses to
`(1, "2", "")`. -/
theorem str_roundtrip_counterexample_epoch :
    construct "0:1:2".toList = .ok ⟨0, ['1', ':', '2'], []⟩ ∧ str ⟨0, ['1', ':', '2'], []⟩ = ['1', ':', '2'] ∧
    construct ['1', ':', '2'] = .ok ⟨1, ['2'], []⟩ := by decide

/-- since 27588a5 nothing but `InvalidVersion` escapes the constructor (before it,
`RpmVersion("a:1")` raised the bare `ValueError` of `int()`) -/
theorem construct_declared (s : List Char) (n : String) : construct s ≠ .error (.other n) := by
  rcases hf : fromEvr (normalize s) with _ | r
  · simp [construct, isValid, hf]
  · simp only [construct, isValid, hf]
    split <;> simp <;> split <;> simp

theorem construct_badEpoch_invalid : construct "a:1".toList = .error .invalid := by decide

/-- since 27588a5 a value with an empty version part is rejected (before it, `RpmVersion("0:")`
printed as the empty string) -/
theorem construct_emptyVersion_invalid :
    construct "0:".toList = .error .invalid ∧ construct "-".toList = .error .invalid ∧
    construct "0:-1".toList = .error .invalid := by decide

/-! ### what the constructor establishes -/

theorem val_lt_pow (ds : List Char) (h : AllDigit ds) (i : Nat) :
    val ds i < (i + 1) * 10 ^ ds.length := by
  induction ds generalizing i with
  | nil => simp [val]
  | cons c t ih =>
    have hc := (isDigit_iff c).1 h.head
    have := ih h.tail (10 * i + (c.toNat - '0'.toNat))
    simp only [val, Nat.ofDigitChars_cons, List.length_cons, Nat.pow_succ] at this ⊢
    have hle : (10 * i + (c.toNat - '0'.toNat) + 1) * 10 ^ t.length ≤ (i + 1) * (10 ^ t.length * 10) := by
      rw [show (i + 1) * (10 ^ t.length * 10) = (10 * i + 10) * 10 ^ t.length by
        rw [Nat.mul_comm (10 ^ t.length) 10, ← Nat.mul_assoc]; congr 1; omega]
      apply Nat.mul_le_mul_right
      show 10 * i + (c.toNat - 48) + 1 ≤ 10 * i + 10
      omega
    omega

theorem pyNatLit_bound (body : List Char) (n : Nat) (h : pyNatLit body = some n) :
    (Nat.toDigits 10 n).length ≤ maxStrDigits := by
  simp only [pyNatLit] at h
  split at h
  · split at h
    · cases h
    · next hlen =>
      have hn := Option.some.inj h
      have hd : AllDigit (body.filter Char.isDigit) := fun c hc => (List.mem_filter.1 hc).2
      have hlt := val_lt_pow _ hd 0
      simp only [val, Nat.zero_add, Nat.one_mul] at hlt
      rw [hn] at hlt
      have hp : 10 ^ (body.filter Char.isDigit).length ≤ 10 ^ maxStrDigits :=
        Nat.pow_le_pow_right (by omega) (by omega)
      exact (Nat.length_toDigits_le_iff (by omega) (by decide)).2 (by omega)
  · cases h

theorem pyInt_bound (s : List Char) (e : Int) (h : pyInt s = some e) :
    (Nat.toDigits 10 e.natAbs).length ≤ maxStrDigits := by
  unfold pyInt at h
  split at h <;>
  · simp only [Option.map_eq_some_iff] at h
    obtain ⟨n, hn, he⟩ := h
    have := pyNatLit_bound _ n hn
    rw [← he]
    simpa using this

theorem not_mem_takeWhile_ne (sep : Char) (l : List Char) : sep ∉ l.takeWhile (fun c => c != sep) := by
  induction l with
  | nil => simp
  | cons d u ih =>
    by_cases hd : d = sep
    · simp [List.takeWhile_cons, hd]
    · simp only [List.takeWhile_cons, bne_iff_ne, ne_eq, hd, not_false_eq_true, decide_true, ↓reduceIte,
        List.mem_cons, not_or]
      exact ⟨fun e => hd e.symm, ih⟩

theorem partition_sub (sep : Char) (l : List Char) :
    (∀ c ∈ (partition sep l).1, c ∈ l) ∧ (∀ c ∈ (partition sep l).2, c ∈ l) := by
  constructor
  · intro c hc; exact (List.takeWhile_sublist _).subset hc
  · intro c hc
    exact (List.dropWhile_sublist _).subset ((List.drop_sublist _ _).subset hc)

theorem noWs_of_sub {a b : List Char} (h : ∀ c ∈ a, c ∈ b) (hb : noWs b = true) : noWs a = true := by
  simp only [noWs, List.all_eq_true] at hb ⊢
  exact fun c hc => hb c (h c hc)

theorem noWs_normalize (s : List Char) : noWs (normalize s) = true := by
  simp only [noWs, List.all_eq_true, normalize, removeSpaces]
  intro c hc
  have := (List.dropWhile_sublist _).subset hc
  exact (List.mem_filter.1 this).2

theorem fromEvr_wf (n : List Char) (r : Raw) (hn : noWs n = true) (h : fromEvr n = some r) :
    noWs r.version = true ∧ noWs r.release = true ∧ r.version.contains '-' = false ∧
    (Nat.toDigits 10 r.epoch.natAbs).length ≤ maxStrDigits := by
  unfold fromEvr at h
  generalize hevr : (if n.contains ':' = true then partition ':' n else (['0'], n)) = evr at h
  obtain ⟨e, vr⟩ := evr
  have hvr : ∀ c ∈ vr, c ∈ n := by
    split at hevr
    · have := (partition_sub ':' n).2; rw [hevr] at this; exact this
    · cases hevr; exact fun _ h => h
  simp only at h
  split at h
  · cases h
  · next ep hep =>
    generalize hvrl : (if vr.contains '-' = true then partition '-' vr else (vr, [])) = vrl at h
    obtain ⟨v, rl⟩ := vrl
    have hr := Option.some.inj h
    subst hr
    simp only
    have hv : (∀ c ∈ v, c ∈ vr) ∧ (∀ c ∈ rl, c ∈ vr) ∧ v.contains '-' = false := by
      split at hvrl
      · have h1 := partition_sub '-' vr
        have h2 := not_mem_takeWhile_ne '-' vr
        simp only [partition] at h1 hvrl
        cases hvrl
        exact ⟨h1.1, h1.2, by simpa using h2⟩
      · next hc =>
        cases hvrl
        exact ⟨fun _ h => h, fun _ h => by simp at h, by simpa using hc⟩
    exact ⟨noWs_of_sub (fun c hc => hvr c (hv.1 c hc)) hn, noWs_of_sub (fun c hc => hvr c (hv.2.1 c hc)) hn,
      hv.2.2, pyInt_bound e ep hep⟩

/-- every value that `RpmVersion(string)` builds is `Built` -/
theorem construct_wf (s : List Char) (r : Raw) (h : construct s = .ok r) : Built r := by
  rcases hf : fromEvr (normalize s) with _ | r'
  · simp [construct, isValid, hf] at h
  · by_cases he : (normalize s).isEmpty = true
    · simp [construct, isValid, hf, he] at h
    · by_cases hv : r'.version.isEmpty = true
      · simp [construct, isValid, hf, he, hv] at h
      · simp only [construct, isValid, hf, he, hv, Bool.false_eq_true, ↓reduceIte, Bool.not_false,
          Bool.not_true, Except.ok.injEq] at h
        subst h
        obtain ⟨h1, h2, h3, h4⟩ := fromEvr_wf _ r' (noWs_normalize s) hf
        have hne : r'.version.isEmpty = false := by simpa using hv
        have h3' : '-' ∉ r'.version := by simpa using h3
        simp [Built, built, h1, h2, h3', h4, hne]

/-- a constructed value round-trips through `str` as soon as its epoch is printed, or the rest
cannot be mistaken for an epoch / a `v` prefix -/
theorem construct_str_roundtrip (s : List Char) (r : Raw) (h : construct s = .ok r)
    (hx : r.epoch ≠ 0 ∨ (r.version.contains ':' = false ∧ r.release.contains ':' = false ∧
      wellFormed.startsV r.version = false)) : construct (str r) = .ok r := by
  apply str_roundtrip
  have hb := construct_wf s r h
  simp only [Built] at hb
  simp only [WellFormed, wellFormed, hb, Bool.true_and, Bool.or_eq_true, bne_iff_ne, ne_eq,
    Bool.and_eq_true, Bool.not_eq_true']
  rcases hx with hx | ⟨h1, h2, h3⟩
  · exact Or.inl hx
  · exact Or.inr ⟨⟨h1, h2⟩, h3⟩

end Univers.Rpm
