/-
Layer A model of `univers.versions.NugetVersion`:
`/repo/src/univers/versions.py` (`Version.normalize`, `__attrs_post_init__`, `NugetVersion.is_valid`,
`build_value`), `/repo/src/univers/nuget.py` (`Version.from_string`, `coerce`, `_extract_revision`,
`Version.__init__`, `__eq__`, `__lt__`, `__hash__`, `to_string`) and the parts of `semver` 2.13.0
that this runs through (`VersionInfo.parse` / `_REGEX`, `compare`, `_nat_cmp`, `__str__`, `to_tuple`).
Strings are `List Char`; the domain is ASCII.
-/
import Univers.Basic.PadLex
import Univers.Vers.Model
import Univers.Py.Attrs

namespace Univers.Nuget

open Univers

inductive PErr where
  | invalid
  | other (name : String)
  deriving DecidableEq, Repr

/-! ### string helpers -/

/-- ASCII characters on which `str.split()` (no argument) splits: `\t\n\v\f\r`, `\x1c`–`\x1f`, space -/
def isPySpace (c : Char) : Bool :=
  c == ' ' || (9 ≤ c.toNat && c.toNat ≤ 13) || (28 ≤ c.toNat && c.toNat ≤ 31)

def isDigit (c : Char) : Bool := '0' ≤ c && c ≤ '9'

def isAlpha (c : Char) : Bool := ('a' ≤ c && c ≤ 'z') || ('A' ≤ c && c ≤ 'Z')

/-- `[0-9a-zA-Z-]` -/
def isIdChar (c : Char) : Bool := isDigit c || isAlpha c || c == '-'

/-- `str.lower()` on ASCII -/
def lowerChar (c : Char) : Char :=
  if 'A' ≤ c && c ≤ 'Z' then Char.ofNat (c.toNat + 32) else c

def lower (s : List Char) : List Char := s.map lowerChar

/-- `int(s)` for a string of ASCII digits -/
def natVal (s : List Char) : Nat := s.foldl (fun n c => 10 * n + (c.toNat - '0'.toNat)) 0

/-- `str(n)` for a non-negative int -/
def natStr (n : Nat) : List Char := Nat.toDigits 10 n

/-- `s.split(sep)` for a one-character separator: always at least one part -/
def splitOn (sep : Char) : List Char → List (List Char)
  | [] => [[]]
  | c :: cs =>
    if c == sep then [] :: splitOn sep cs
    else match splitOn sep cs with
      | [] => [[c]]
      | p :: ps => (c :: p) :: ps

/-- `Version.normalize`: `remove_spaces(string).lstrip("vV")` -/
def normalize (s : List Char) : List Char :=
  (s.filter (fun c => !isPySpace c)).dropWhile (fun c => c == 'v' || c == 'V')

/-! ### `nuget.coerce`, `nuget._extract_revision` -/

/-- the optional regex group `(\.\d+)?` at the head of `s`: the digits matched (without the dot)
and the rest -/
def dotNum : List Char → Option (List Char) × List Char
  | '.' :: r =>
    match r.span isDigit with
    | ([], _) => (none, '.' :: r)
    | (ds, rest) => (some ds, rest)
  | s => (none, s)

/-- `_strip_leading_v`: one lower-case `v` -/
def stripLeadingV : List Char → List Char
  | 'v' :: r => r
  | s => s

/-- `coerce`: `^(\d+)(\.\d+)?(\.\d+)?(.*)$`; components through `str(int(..))`, missing ones `.0` -/
def coerce (s0 : List Char) : List Char :=
  let s := stripLeadingV s0
  match s.span isDigit with
  | ([], _) => s
  | (d1, r1) =>
    let (g2, r2) := dotNum r1
    let (g3, r3) := dotNum r2
    natStr (natVal d1) ++ '.' :: natStr (natVal (g2.getD ['0'])) ++
      '.' :: natStr (natVal (g3.getD ['0'])) ++ r3

/-- `_extract_revision`: `^(\d+)(\.\d+)(\.\d+)(\.\d+)(.*)` -/
def extractRevision (s : List Char) : List Char × Nat :=
  match s.span isDigit with
  | ([], _) => (s, 0)
  | (d1, r1) =>
    match dotNum r1 with
    | (none, _) => (s, 0)
    | (some d2, r2) =>
      match dotNum r2 with
      | (none, _) => (s, 0)
      | (some d3, r3) =>
        match dotNum r3 with
        | (none, _) => (s, 0)
        | (some d4, r4) => (d1 ++ '.' :: d2 ++ '.' :: d3 ++ r4, natVal d4)

/-! ### `semver.VersionInfo.parse` -/

/-- `semver.VersionInfo` as far as it is used: `prerelease`/`build` are `None` or a string -/
structure Ver where
  major : Nat
  minor : Nat
  patch : Nat
  pre : Option (List Char)
  build : Option (List Char)
  /-- `nuget.Version._revision` -/
  revision : Nat
  deriving DecidableEq, Repr

/-- `(0|[1-9]\d*)` at the head of `s` -/
def numNoLead (s : List Char) : Option (Nat × List Char) :=
  match s.span isDigit with
  | ([], _) => none
  | (ds, rest) => if ds == ['0'] || ds.head? != some '0' then some (natVal ds, rest) else none

/-- one pre-release identifier `0|[1-9]\d*|\d*[a-zA-Z-][0-9a-zA-Z-]*` (whole string) -/
def validPreId (s : List Char) : Bool :=
  !s.isEmpty && s.all isIdChar && (!s.all isDigit || s == ['0'] || s.head? != some '0')

/-- one build identifier `[0-9a-zA-Z-]+` (whole string) -/
def validBuildId (s : List Char) : Bool := !s.isEmpty && s.all isIdChar

/-- `(?:\+(?P<build>bid(\.bid)*))?$` -/
def parseBuild : List Char → Option (Option (List Char))
  | [] => some none
  | '+' :: b => if (splitOn '.' b).all validBuildId then some (some b) else none
  | _ => none

/-- the tail of `_REGEX` after the patch number:
`(?:-(?P<prerelease>id(\.id)*))?(?:\+(?P<build>bid(\.bid)*))?$`; the prerelease group cannot
contain `+`, so it extends to the first `+` or to the end -/
def parseTail : List Char → Option (Option (List Char) × Option (List Char))
  | '-' :: r =>
    if (splitOn '.' (r.takeWhile (· != '+'))).all validPreId then
      (parseBuild (r.dropWhile (· != '+'))).map (fun b => (some (r.takeWhile (· != '+')), b))
    else none
  | s => (parseBuild s).map (fun b => (none, b))

/-- `semver.VersionInfo.parse(s)`; `none` = `ValueError` -/
def semverParse (s : List Char) : Option Ver := do
  let (ma, r1) ← numNoLead s
  match r1 with
  | '.' :: r1 =>
    let (mi, r2) ← numNoLead r1
    match r2 with
    | '.' :: r2 =>
      let (pa, r3) ← numNoLead r2
      let (pre, build) ← parseTail r3
      pure { major := ma, minor := mi, patch := pa, pre := pre, build := build, revision := 0 }
    | _ => none
  | _ => none

/-- a Python string or `None` is falsy -/
def falsy : Option (List Char) → Bool
  | none => true
  | some s => s.isEmpty

/-- `nuget.Version.from_string` on a non-empty normalized string, after the digit test:
`coerce`, `_extract_revision`, `parse` (= `coerce` again, then semver), `Version.__init__`
(lower-cases a truthy prerelease).  `none` = `ValueError` from semver. -/
def fromCoerced (s : List Char) : Option Ver :=
  let c := coerce s
  let (base, rev) := extractRevision c
  match semverParse (coerce base) with
  | none => none
  | some v => some { v with pre := if falsy v.pre then v.pre else v.pre.map lower, revision := rev }

/-- the `value` of a `NugetVersion`: a `nuget.Version`.  The type keeps Python's `None` (`none`),
which `from_string("")` returns, but `construct` never yields it (`construct_isSome`). -/
abbrev Raw := Option Ver

/-- `NugetVersion(string)`.  `is_valid` is `build_value(string) is not None` with `ValueError` and
`InvalidNuGetVersion` caught: the empty normalized string (`from_string` returns `None`), a string
without any digit (`InvalidNuGetVersion`) and a string semver rejects (`ValueError`) are all
`InvalidVersion`. -/
def construct (s : List Char) : Except PErr Raw :=
  let n := normalize s
  if n.isEmpty then .error .invalid
  else if !n.any isDigit then .error .invalid
  else match fromCoerced n with
    | none => .error .invalid
    | some v => .ok (some v)

/-! ### `str` -/

/-- `nuget.Version.to_string()` with the defaults used by `__str__` -/
def strV (v : Ver) : List Char :=
  natStr v.major ++ '.' :: natStr v.minor ++ '.' :: natStr v.patch ++
    (if v.revision != 0 then '.' :: natStr v.revision else []) ++
    (match v.pre with | some p => if p.isEmpty then [] else '-' :: p | none => []) ++
    (match v.build with | some b => if b.isEmpty then [] else '+' :: b | none => [])

/-- `str(version)` = `str(self.value)` -/
def str : Raw → List Char
  | none => "None".toList
  | some v => strV v

/-! ### comparison -/

/-- a converted prerelease identifier in `_nat_cmp` -/
inductive Tag where
  | int (n : Nat)
  | str (s : List Char)
  deriving DecidableEq, Repr

/-- `convert`: `int(text) if re.match("^[0-9]+$", text) else text` -/
def convert (t : List Char) : Tag :=
  if !t.isEmpty && t.all isDigit then .int (natVal t) else .str t

/-- Python `cmp` on `str` (code points) -/
def strCmp : List Char → List Char → Ordering := lexList (fun (a b : Char) => compare a b)

/-- `cmp_prerelease_tag` -/
def tagCmp : Tag → Tag → Ordering
  | .int a, .int b => compare a b
  | .int _, .str _ => .lt
  | .str _, .int _ => .gt
  | .str a, .str b => strCmp a b

/-- the `for … in zip(a_parts, b_parts)` loop: first non-zero result, `.eq` if the zip runs out -/
def zipCmp : List Tag → List Tag → Ordering
  | a :: as, b :: bs => match tagCmp a b with
    | .eq => zipCmp as bs
    | r => r
  | _, _ => .eq

/-- `_nat_cmp(a, b)` after `a, b = a or "", b or ""`; the `else` branch compares the lengths of the
STRINGS -/
def natCmp (a b : List Char) : Ordering :=
  match zipCmp ((splitOn '.' a).map convert) ((splitOn '.' b).map convert) with
  | .eq => compare a.length b.length
  | r => r

/-- `VersionInfo.compare` -/
def semverCompare (x y : Ver) : Ordering :=
  match lexPair (fun (a b : Nat) => compare a b) (lexPair (fun (a b : Nat) => compare a b) (fun (a b : Nat) => compare a b))
      (x.major, x.minor, x.patch) (y.major, y.minor, y.patch) with
  | .eq =>
    let rccmp := natCmp (x.pre.getD []) (y.pre.getD [])
    if rccmp == .eq then .eq
    else if falsy x.pre then .gt
    else if falsy y.pre then .lt
    else rccmp
  | r => r

/-- `nuget.Version.__eq__` -/
def eqV (x y : Ver) : Bool := semverCompare x y == .eq && x.revision == y.revision

/-- `nuget.Version.__lt__` -/
def ltV (x y : Ver) : Bool :=
  if semverCompare { x with pre := some [] } { y with pre := some [] } == .eq
      && x.revision != y.revision then
    decide (x.revision < y.revision)
  else semverCompare x y == .lt

/-- three-way summary of `__lt__`/`__eq__` on `nuget.Version` -/
def vercmpV (x y : Ver) : Ordering :=
  if ltV x y then .lt else if eqV x y then .eq else .gt

/-- The three-way comparison of the values.  `None` (no longer constructible, see `construct_isSome`) is placed
below every version here; in the real code an ordering operator between `None` and a version
raises `TypeError` (see `defined`). -/
def vercmp : Raw → Raw → Ordering
  | none, none => .eq
  | none, some _ => .lt
  | some _, none => .gt
  | some x, some y => vercmpV x y

/-- whether the ordering operators `< <= > >=` return at all (otherwise `TypeError`): both values
are versions or both are `None` -/
def defined (a b : Raw) : Bool := a.isSome == b.isSome

/-- `functools.total_ordering` over `__lt__`, `__eq__` of `nuget.Version` -/
def valOpsV : VOps Ver := Py.totalOrderingFromLt ltV eqV

/-- operators of the values; on `None` they follow `vercmp` (only `==`/`!=` return in Python) -/
def valOps : VOps Raw where
  lt a b := match a, b with | some x, some y => valOpsV.lt x y | _, _ => vercmp a b == .lt
  le a b := match a, b with | some x, some y => valOpsV.le x y | _, _ => vercmp a b != .gt
  gt a b := match a, b with | some x, some y => valOpsV.gt x y | _, _ => vercmp a b == .gt
  ge a b := match a, b with | some x, some y => valOpsV.ge x y | _, _ => vercmp a b != .lt
  eq a b := match a, b with | some x, some y => valOpsV.eq x y | _, _ => vercmp a b == .eq
  ne a b := match a, b with | some x, some y => valOpsV.ne x y | _, _ => vercmp a b != .eq

/-- `NugetVersion` defines no dunders: attrs compares the 1-tuples `(self.value,)` -/
def verOps : VOps Raw := Py.attrsOps valOps

def hashable : Bool := true

/-- `hash((self._base_semver.to_tuple()[:4], self._revision))`: major, minor, patch, prerelease and
the revision; the build metadata takes no part -/
def hashKey : Raw → Option (Nat × Nat × Nat × Option (List Char) × Nat)
  | none => none
  | some v => some (v.major, v.minor, v.patch, v.pre, v.revision)

end Univers.Nuget
