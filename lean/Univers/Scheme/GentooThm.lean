/-
Theorems for schemes `ebuild` and `alpine`: on valid versions `gentoo.vercmp` computes the key
order `keyC` (PMS §3.3 with rule 3.3 applied to the first component too) and is therefore a
lawful comparator (C01); it computes the PMS order itself on versions whose first component has
no superfluous leading zero (C03, partial + counterexample `010` vs `10`); `== != < >` agree
with it, the inherited `<= >=` do not (C02, partial + counterexamples); the classes are
unhashable (C12 vacuous); `str` round-trips (C11).
-/
import Univers.Scheme.GentooSpec
import Univers.Vers.Spec

set_option linter.unusedSimpArgs false

namespace Univers.Gentoo

open Univers Std

/-! ### small tools -/

/-- `some c` = the code returns `c`; `none` = it goes on -/
def toOpt : Ordering → Option Ordering
  | .eq => none
  | c => some c

theorem match_toOpt (o x : Ordering) :
    (match toOpt o with | some c => c | none => x) = o.then x := by cases o <;> rfl

theorem ite_ne_eq_some (c : Ordering) (x : Option Ordering) :
    (if (c != .eq) = true then some c else x) = (match toOpt c with | some d => some d | none => x) := by
  cases c <;> rfl

theorem toOpt_then (c x : Ordering) :
    toOpt (c.then x) = (match toOpt c with | some d => some d | none => toOpt x) := by
  cases c <;> rfl

/-- a non-empty string of ASCII digits -/
def DigitStr (s : List Char) : Prop := s ≠ [] ∧ ∀ c ∈ s, c.isDigit = true

theorem digit_ne_zero_gt {c : Char} (hd : c.isDigit = true) (h0 : c ≠ '0') : charCmp '0' c = .lt := by
  have hne : c.toNat ≠ '0'.toNat := fun h => h0 (Char.toNat_inj.1 h)
  simp only [Char.isDigit, Bool.and_eq_true, decide_eq_true_eq] at hd
  have h1 := hd.1
  simp only [UInt32.le_iff_toNat_le] at h1
  simp only [charCmp]
  rw [Nat.compare_eq_lt]
  simp only [Char.toNat] at *
  simp at h1 hne ⊢
  omega

theorem rstrip0_zero (cs : List Char) : rstrip0 ('0' :: cs) = [] ∨ ∃ t, rstrip0 ('0' :: cs) = '0' :: t := by
  simp only [rstrip0]
  cases rstrip0 cs with
  | nil => simp
  | cons r rs => simp

theorem rstrip0_nonzero (c : Char) (cs : List Char) (h : c ≠ '0') : ∃ t, rstrip0 (c :: cs) = c :: t := by
  simp only [rstrip0]
  cases rstrip0 cs with
  | nil => simp [h]
  | cons r rs => simp

theorem rk01 : compare (0 : Nat) 1 = .lt := by decide
theorem rk10 : compare (1 : Nat) 0 = .gt := by decide

theorem strCmp_self (s : List Char) : strCmp s s = .eq := ReflCmp.compare_self

/-- the comparison of two different components is rule 3.3 -/
theorem compPair_eq (v1 v2 : List Char) (h1 : DigitStr v1) (h2 : DigitStr v2) :
    compPair v1 v2 = compCmp (compKey v1) (compKey v2) := by
  obtain ⟨hn1, hd1⟩ := h1
  obtain ⟨hn2, hd2⟩ := h2
  cases v1 with
  | nil => exact absurd rfl hn1
  | cons c1 t1 =>
  cases v2 with
  | nil => exact absurd rfl hn2
  | cons c2 t2 =>
  have hc1 := hd1 c1 (by simp)
  have hc2 := hd2 c2 (by simp)
  by_cases z1 : c1 = '0' <;> by_cases z2 : c2 = '0'
  · subst z1; subst z2
    simp [compPair, compKey, compCmp, lexPair, natCmp]
  · subst z1
    have hk : compCmp (compKey ('0' :: t1)) (compKey (c2 :: t2)) = .lt := by
      simp [compKey, compCmp, lexPair, natCmp, z2, rk01]
    rw [hk]
    obtain ⟨t, ht⟩ := rstrip0_nonzero c2 t2 z2
    simp only [compPair, List.head?_cons, bne_self_eq_false, Bool.false_and, Bool.false_eq_true,
      if_false, ht]
    rcases rstrip0_zero t1 with h | ⟨u, hu⟩
    · simp [h, strCmp, lexList]
    · simp [hu, strCmp, lexList, digit_ne_zero_gt hc2 z2]
  · subst z2
    have hk : compCmp (compKey (c1 :: t1)) (compKey ('0' :: t2)) = .gt := by
      simp [compKey, compCmp, lexPair, natCmp, z1, rk10]
    rw [hk]
    obtain ⟨t, ht⟩ := rstrip0_nonzero c1 t1 z1
    have hgt : charCmp c1 '0' = .gt := by
      rw [OrientedCmp.eq_swap (cmp := charCmp), digit_ne_zero_gt hc1 z1]; rfl
    simp only [compPair, List.head?_cons, bne_self_eq_false, Bool.and_false, Bool.false_eq_true,
      if_false, ht]
    rcases rstrip0_zero t2 with h | ⟨u, hu⟩
    · simp [h, strCmp, lexList]
    · simp [hu, strCmp, lexList, hgt]
  · simp [compPair, compKey, compCmp, lexPair, natCmp, z1, z2, strCmp, lexList]

theorem compCmp_self (k : Comp) : compCmp k k = .eq := ReflCmp.compare_self

/-! ### the dotted components -/

/-- the length test after the `zip` loop -/
def lenStep (l1 l2 : List (List Char)) : Option Ordering → Option Ordering
  | some c => some c
  | none =>
    if l1.length > l2.length then some .gt
    else if l2.length > l1.length then some .lt
    else none

theorem lenStep_cons (a b : List Char) (l1 l2 : List (List Char)) (o : Option Ordering) :
    lenStep (a :: l1) (b :: l2) o = lenStep l1 l2 o := by
  cases o <;> simp [lenStep]

theorem compLoop_spec (l1 : List (List Char)) : ∀ (l2 : List (List Char)),
    (∀ v ∈ l1, DigitStr v) → (∀ v ∈ l2, DigitStr v) →
    lenStep l1 l2 (compLoop l1 l2) = toOpt (lexList compCmp (l1.map compKey) (l2.map compKey)) := by
  induction l1 with
  | nil =>
    intro l2 _ _
    cases l2 <;> simp [compLoop, lenStep, lexList, toOpt]
  | cons v1 r1 ih =>
    intro l2 h1 h2
    cases l2 with
    | nil => simp [compLoop, lenStep, lexList, toOpt]
    | cons v2 r2 =>
      have ih' := ih r2 (fun v hv => h1 v (by simp [hv])) (fun v hv => h2 v (by simp [hv]))
      simp only [List.map_cons, lexList, toOpt_then]
      by_cases he : v1 = v2
      · subst he
        simp only [compLoop, beq_self_eq_true, if_true, lenStep_cons, ih', compCmp_self, toOpt]
      · have hb : (v1 == v2) = false := by simp [he]
        simp only [compLoop, hb, Bool.false_eq_true, if_false, ite_ne_eq_some]
        rw [compPair_eq v1 v2 (h1 v1 (by simp)) (h2 v2 (by simp))]
        cases hc : toOpt (compCmp (compKey v1) (compKey v2)) with
        | none => simp only [lenStep_cons, ih']
        | some c => simp [lenStep]

theorem dotted_spec (h1 h2 : List Char)
    (hd1 : ∀ v ∈ (stripLetter (splitList '.' h1)).1, DigitStr v)
    (hd2 : ∀ v ∈ (stripLetter (splitList '.' h2)).1, DigitStr v) :
    dotted h1 h2 = toOpt ((lexList compCmp ((stripLetter (splitList '.' h1)).1.map compKey)
        ((stripLetter (splitList '.' h2)).1.map compKey)).then
      (intCmp (stripLetter (splitList '.' h1)).2 (stripLetter (splitList '.' h2)).2)) := by
  have hs := compLoop_spec _ _ hd1 hd2
  rw [toOpt_then, ← hs]
  simp only [dotted]
  generalize (stripLetter (splitList '.' h1)) = l1 at *
  generalize (stripLetter (splitList '.' h2)) = l2 at *
  cases compLoop l1.1 l2.1 with
  | some c => simp [lenStep]
  | none =>
    simp only [lenStep]
    by_cases hgt : l1.1.length > l2.1.length
    · simp [hgt]
    · by_cases hlt : l2.1.length > l1.1.length
      · simp [hgt, hlt]
      · simp only [hgt, hlt, if_false]
        by_cases hl : l1.2 = l2.2
        · have : intCmp l1.2 l2.2 = .eq := by simp [intCmp, hl]
          simp [hl, this, toOpt]
          simp [intCmp]
        · have hne : intCmp l1.2 l2.2 ≠ .eq := by
            simp only [intCmp, ne_eq, Int.compare_eq_eq]; exact hl
          have hb : (l1.2 != l2.2) = true := by simp [hl]
          simp only [hb, if_true, intCmp] at *
          cases hc : compare l1.2 l2.2 <;> simp_all [toOpt]

/-! ### the suffixes -/

theorem stripPrefix_eq (name : List Char) : ∀ (p rest : List Char),
    stripPrefix name p = some rest → p = name ++ rest := by
  induction name with
  | nil => intro p rest h; simpa [stripPrefix] using h
  | cons n ns ih =>
    intro p rest h
    cases p with
    | nil => simp [stripPrefix] at h
    | cons c cs =>
      simp only [stripPrefix] at h
      by_cases hnc : n = c
      · subst hnc
        simp only [beq_self_eq_true, if_true] at h
        simp [ih cs rest h]
      · simp [hnc] at h

theorem digit_not_alpha (c : Char) (h : c.isDigit = true) : c.isAlpha = false := by
  cases ha : c.isAlpha with
  | false => rfl
  | true =>
    exfalso
    simp only [Char.isDigit, Char.isAlpha, Char.isUpper, Char.isLower, Bool.or_eq_true,
      Bool.and_eq_true, decide_eq_true_eq] at h ha
    have h1 := h.1
    have h2 := h.2
    simp only [UInt32.le_iff_toNat_le] at h1 h2 ha
    simp at h1 h2 ha
    omega

theorem natOfDigits_zero_cons (s : List Char) : natOfDigits ('0' :: s) = natOfDigits s := by
  simp [natOfDigits]

theorem sufKey_append (name rest : List Char) (hn : ∀ c ∈ name, c.isAlpha = true)
    (hr : rest.all Char.isDigit = true) :
    sufKey (name ++ rest) = (sufRank name, natOfDigits rest) := by
  have hr' : ∀ c ∈ rest, c.isAlpha = false := fun c hc =>
    digit_not_alpha c (List.all_eq_true.1 hr c hc)
  have ht : rest.takeWhile Char.isAlpha = [] := by
    cases rest with
    | nil => rfl
    | cons c cs => simp [List.takeWhile, hr' c (by simp)]
  have hdw : rest.dropWhile Char.isAlpha = rest := by
    cases rest with
    | nil => rfl
    | cons c cs => simp [List.dropWhile, hr' c (by simp)]
  simp only [sufKey, List.takeWhile_append_of_pos hn, List.dropWhile_append_of_pos hn, ht, hdw,
    List.append_nil]

/-- a table entry as PMS reads it -/
def EntryOK (e : List Char × Int) : Prop :=
  (∀ c ∈ e.1, c.isAlpha = true) ∧ sufRank e.1 = e.2 ∧ e.2 ≠ 0

instance (e : List Char × Int) : Decidable (EntryOK e) := by unfold EntryOK; infer_instance

theorem sufMatchIn_some (tbl : List (List Char × Int)) (htbl : ∀ e ∈ tbl, EntryOK e)
    (p : List Char) (val : Int) (digits : List Char)
    (h : sufMatchIn tbl p = some (val, digits)) :
    sufKey p = (val, natOfDigits digits) ∧ val ≠ 0 := by
  induction tbl with
  | nil => simp [sufMatchIn] at h
  | cons e more ih =>
    obtain ⟨name, v⟩ := e
    have hm := ih (fun e he => htbl e (by simp [he]))
    obtain ⟨hn, hrk, hv0⟩ := htbl (name, v) (by simp)
    simp only [sufMatchIn] at h
    cases hs : stripPrefix name p with
    | none => simp only [hs] at h; exact hm h
    | some rest =>
      simp only [hs] at h
      by_cases hr : rest.all Char.isDigit = true
      · simp only [hr, if_true, Option.some.injEq, Prod.mk.injEq] at h
        obtain ⟨rfl, rfl⟩ := h
        rw [stripPrefix_eq name p rest hs, sufKey_append name rest hn hr]
        exact ⟨by rw [hrk], hv0⟩
      · simp only [hr, Bool.false_eq_true, if_false] at h
        exact hm h

theorem sufNames_ok : ∀ e ∈ sufNames, EntryOK e := by decide

/-- a part that `suffix_regexp` matches -/
def SufOK (p : List Char) : Prop := (sufMatch p).isSome = true

theorem suf_eq_sufKey (p : List Char) (h : SufOK p) : suf p = sufKey p ∧ (sufKey p).1 ≠ 0 := by
  simp only [SufOK] at h
  cases hm : sufMatch p with
  | none => simp [hm] at h
  | some r =>
    obtain ⟨val, digits⟩ := r
    have := sufMatchIn_some sufNames sufNames_ok p val digits hm
    simp only [suf, hm, natOfDigits_zero_cons, this.1]
    exact ⟨trivial, this.2⟩

theorem sufCmp_self (k : Suf) : sufCmp k k = .eq := ReflCmp.compare_self

theorem sufLoop_spec (ps : List (List Char)) : ∀ (qs : List (List Char)),
    (∀ p ∈ ps, SufOK p) → (∀ q ∈ qs, SufOK q) →
    sufLoop ps qs = toOpt (padLex sufCmp Suf.pad (ps.map sufKey) (qs.map sufKey)) := by
  induction ps with
  | nil =>
    intro qs _ hq
    cases qs with
    | nil => simp [sufLoop, padLex, toOpt]
    | cons q qs =>
      obtain ⟨h1, h2⟩ := suf_eq_sufKey q (hq q (by simp))
      have hb : ((sufKey q).1 != 0) = true := by simp [h2]
      have hne : compare 0 (sufKey q).1 ≠ .eq := by
        rw [ne_eq, Int.compare_eq_eq]; exact fun h => h2 h.symm
      simp only [sufLoop, h1, hb, if_true, List.map_nil, List.map_cons, padLex, sufCmp, lexPair,
        Suf.pad, intCmp]
      cases hc : compare 0 (sufKey q).1 <;> simp_all [toOpt]
  | cons p ps ih =>
    intro qs hp hq
    obtain ⟨h1, h2⟩ := suf_eq_sufKey p (hp p (by simp))
    cases qs with
    | nil =>
      have hb : ((sufKey p).1 != 0) = true := by simp [h2]
      have hne : compare (sufKey p).1 0 ≠ .eq := by
        rw [ne_eq, Int.compare_eq_eq]; exact h2
      simp only [sufLoop, h1, hb, if_true, List.map_nil, List.map_cons, padLex, sufCmp, lexPair,
        Suf.pad, intCmp]
      cases hc : compare (sufKey p).1 0 <;> simp_all [toOpt]
    | cons q qs =>
      obtain ⟨h3, _⟩ := suf_eq_sufKey q (hq q (by simp))
      have ih' := ih qs (fun r hr => hp r (by simp [hr])) (fun r hr => hq r (by simp [hr]))
      simp only [List.map_cons, padLex, toOpt_then]
      by_cases he : p = q
      · subst he
        simp only [sufLoop, beq_self_eq_true, if_true, ih', sufCmp_self, toOpt]
      · have hb : (p == q) = false := by simp [he]
        simp only [sufLoop, hb, Bool.false_eq_true, if_false, h1, h3, ih', sufCmp, lexPair, intCmp,
          natCmp]
        cases compare (sufKey p).1 (sufKey q).1 <;> cases compare (sufKey p).2 (sufKey q).2 <;>
          simp [toOpt, Ordering.then]

/-! ### validity -/

/-- what `gentoo.is_valid` establishes for the value (the normalized string) -/
def Valid (r : Raw) : Prop := matchVersion (parseVR r).1 = true

instance (r : Raw) : Decidable (Valid r) := by unfold Valid; infer_instance

/-- what `AlpineLinuxVersion.is_valid` establishes -/
def ValidAlpine (r : Raw) : Prop := isValidAlpine r = true ∧ Valid r

instance (r : Raw) : Decidable (ValidAlpine r) := by unfold ValidAlpine; infer_instance

theorem valid_ne_nil (r : Raw) (h : Valid r) : r ≠ [] := by
  intro he
  subst he
  revert h
  decide

theorem valid_comps (r : Raw) (h : Valid r) : ∀ v ∈ (pieces r).comps, DigitStr v := by
  simp only [Valid, matchVersion, Bool.and_eq_true, matchHead, List.all_eq_true] at h
  intro v hv
  have := h.1 v hv
  simp only [Bool.and_eq_true, Bool.not_eq_true', List.isEmpty_eq_false_iff, List.all_eq_true] at this
  exact ⟨this.1, this.2⟩

theorem valid_sufs (r : Raw) (h : Valid r) : ∀ p ∈ (pieces r).sufs, SufOK p := by
  simp only [Valid, matchVersion, Bool.and_eq_true, List.all_eq_true] at h
  exact fun p hp => h.2 p hp

/-! ### refinement against the key of the code -/

theorem lexComp_self (l : List Comp) : lexList compCmp l l = .eq := ReflCmp.compare_self
theorem padSuf_self (l : List Suf) : padLex sufCmp Suf.pad l l = .eq := ReflCmp.compare_self
theorem intCmp_self (i : Int) : intCmp i i = .eq := ReflCmp.compare_self

/-- on valid versions `gentoo.vercmp` orders by `keyC` -/
theorem vercmp_eq_keyC (a b : Raw) (ha : Valid a) (hb : Valid b) :
    vercmp a b = keyCmpC (keyC a) (keyC b) := by
  have hea : a.isEmpty = false := by
    have := valid_ne_nil a ha
    cases a <;> simp_all
  have heb : b.isEmpty = false := by
    have := valid_ne_nil b hb
    cases b <;> simp_all
  have hca := valid_comps a ha
  have hcb := valid_comps b hb
  have hsa := valid_sufs a ha
  have hsb := valid_sufs b hb
  simp only [pieces] at hca hcb hsa hsb
  simp only [vercmp, hea, heb, Bool.false_eq_true, if_false]
  by_cases hv : (parseVR a).1 = (parseVR b).1
  · simp only [hv, beq_self_eq_true, if_true, keyCmpC, keyC, pieces, lexPair, lexComp_self,
      padSuf_self, intCmp_self, Ordering.then, natCmp]
    by_cases h0 : ((parseVR a).2 == 0 && (parseVR b).2 == 0) = true
    · simp only [h0, if_true]
      simp only [Bool.and_eq_true, beq_iff_eq] at h0
      simp [h0.1, h0.2]
    · simp [h0]
  · have hvb : ((parseVR a).1 == (parseVR b).1) = false := by simp [hv]
    simp only [hvb, Bool.false_eq_true, if_false]
    have hD : (if ((splitOn '_' (parseVR a).1).1 != (splitOn '_' (parseVR b).1).1) = true
          then dotted (splitOn '_' (parseVR a).1).1 (splitOn '_' (parseVR b).1).1 else none)
        = toOpt ((lexList compCmp
            ((stripLetter (splitList '.' (splitOn '_' (parseVR a).1).1)).1.map compKey)
            ((stripLetter (splitList '.' (splitOn '_' (parseVR b).1).1)).1.map compKey)).then
          (intCmp (stripLetter (splitList '.' (splitOn '_' (parseVR a).1).1)).2
            (stripLetter (splitList '.' (splitOn '_' (parseVR b).1).1)).2)) := by
      by_cases hh : (splitOn '_' (parseVR a).1).1 = (splitOn '_' (parseVR b).1).1
      · simp [hh, lexComp_self, intCmp_self, toOpt]
      · have : ((splitOn '_' (parseVR a).1).1 != (splitOn '_' (parseVR b).1).1) = true := by simp [hh]
        simp only [this, if_true]
        exact dotted_spec _ _ hca hcb
    rw [hD, sufLoop_spec _ _ hsa hsb]
    simp only [keyCmpC, keyC, pieces, lexPair, natCmp]
    generalize lexList compCmp _ _ = A
    generalize intCmp _ _ = B
    generalize padLex sufCmp Suf.pad _ _ = S
    cases A <;> cases B <;> cases S <;> simp [toOpt, Ordering.then]

/-! ### comparator laws on valid versions (C01) -/

theorem vercmp_eq_swap (a b : Raw) (ha : Valid a) (hb : Valid b) :
    vercmp a b = (vercmp b a).swap := by
  rw [vercmp_eq_keyC a b ha hb, vercmp_eq_keyC b a hb ha]
  exact OrientedCmp.eq_swap

theorem vercmp_isLE_trans (a b c : Raw) (ha : Valid a) (hb : Valid b) (hc : Valid c) :
    (vercmp a b).isLE → (vercmp b c).isLE → (vercmp a c).isLE := by
  rw [vercmp_eq_keyC a b ha hb, vercmp_eq_keyC b c hb hc, vercmp_eq_keyC a c ha hc]
  exact TransCmp.isLE_trans

example : Valid "1.2.3a_rc1_p2-r4".toList := by decide

/-- the values that `GentooVersion(...)` can hold -/
abbrev ValidRaw := { r : Raw // Valid r }

/-- C01: `gentoo.vercmp` is a lawful three-way comparison of valid versions -/
instance : TransCmp (cmpOn (Subtype.val : ValidRaw → Raw) vercmp) where
  eq_swap := by intro a b; exact vercmp_eq_swap a.1 b.1 a.2 b.2
  isLE_trans := by intro a b c; exact vercmp_isLE_trans a.1 b.1 c.1 a.2 b.2 c.2

/-! ### refinement against the PMS key (C03), where the first component is canonical -/

theorem comps_ne_nil (r : Raw) : (pieces r).comps ≠ [] := by
  simp only [pieces, splitList]
  generalize (splitOn '.' (splitOn '_' (parseVR r).1).1).1 = x
  generalize (splitOn '.' (splitOn '_' (parseVR r).1).1).2 = xs
  cases xs with
  | nil =>
    simp only [stripLetter]
    cases x.getLast? with
    | none => simp
    | some c => by_cases h : c.isAlpha = true <;> simp [h]
  | cons y ys => simp [stripLetter]

theorem foldl_digits_ge (cs : List Char) : ∀ n : Nat,
    n ≤ cs.foldl (fun n c => 10 * n + (c.toNat - '0'.toNat)) n := by
  induction cs with
  | nil => intro n; exact Nat.le_refl n
  | cons c cs ih =>
    intro n
    simp only [List.foldl_cons]
    exact Nat.le_trans (by omega) (ih _)

theorem natOfDigits_pos (c : Char) (cs : List Char) (hd : c.isDigit = true) (h0 : c ≠ '0') :
    0 < natOfDigits (c :: cs) := by
  have hlt := digit_ne_zero_gt hd h0
  simp only [charCmp, Nat.compare_eq_lt] at hlt
  have := foldl_digits_ge cs (10 * 0 + (c.toNat - '0'.toNat))
  simp only [natOfDigits, List.foldl_cons]
  omega

theorem natOfDigits_zeros (s : List Char) (h : s.all (· == '0') = true) : natOfDigits s = 0 := by
  simp only [natOfDigits]
  induction s with
  | nil => rfl
  | cons c cs ih =>
    simp only [List.all_cons, Bool.and_eq_true, beq_iff_eq] at h
    obtain ⟨rfl, h2⟩ := h
    simpa using ih h2

theorem rstrip0_zeros (s : List Char) (h : s.all (· == '0') = true) : rstrip0 s = [] := by
  induction s with
  | nil => rfl
  | cons c cs ih =>
    simp only [List.all_cons, Bool.and_eq_true, beq_iff_eq] at h
    obtain ⟨rfl, h2⟩ := h
    simp [rstrip0, ih h2]

/-- the first component does not start with `0`, or it is all zeros -/
def CanonFirst (f : List Char) : Bool := f.head? != some '0' || f.all (· == '0')

theorem compKey_canon (f : List Char) (hd : DigitStr f) (hc : CanonFirst f = true) :
    (compKey f = (1, [], natOfDigits f) ∧ 0 < natOfDigits f) ∨
    (compKey f = (0, [], 0) ∧ natOfDigits f = 0) := by
  obtain ⟨hne, hdig⟩ := hd
  cases f with
  | nil => exact absurd rfl hne
  | cons c cs =>
    by_cases hz : c = '0'
    · subst hz
      right
      have hall : ('0' :: cs).all (· == '0') = true := by
        simpa [CanonFirst] using hc
      exact ⟨by simp [compKey, rstrip0_zeros _ hall], natOfDigits_zeros _ hall⟩
    · left
      exact ⟨by simp [compKey, hz], natOfDigits_pos c cs (hdig c (by simp)) hz⟩

theorem compCmp_canon (f1 f2 : List Char) (h1 : DigitStr f1) (h2 : DigitStr f2)
    (c1 : CanonFirst f1 = true) (c2 : CanonFirst f2 = true) :
    compCmp (compKey f1) (compKey f2) = natCmp (natOfDigits f1) (natOfDigits f2) := by
  rcases compKey_canon f1 h1 c1 with ⟨k1, p1⟩ | ⟨k1, p1⟩ <;>
  rcases compKey_canon f2 h2 c2 with ⟨k2, p2⟩ | ⟨k2, p2⟩
  · simp [k1, k2, compCmp, lexPair, natCmp, strCmp, lexList]
  · rw [k1, k2, p2]
    have : compare (natOfDigits f1) 0 = .gt := Nat.compare_eq_gt.2 p1
    simp [compCmp, lexPair, natCmp, rk10, this]
  · rw [k1, k2, p1]
    have : compare 0 (natOfDigits f2) = .lt := Nat.compare_eq_lt.2 p2
    simp [compCmp, lexPair, natCmp, rk01, this]
  · simp [k1, k2, p1, p2, compCmp, lexPair, natCmp, strCmp, lexList]

theorem keyCmp_eq_keyCmpC (a b : Raw) (ha : Valid a) (hb : Valid b)
    (fa : FirstOK a = true) (fb : FirstOK b = true) :
    keyCmp (key a) (key b) = keyCmpC (keyC a) (keyC b) := by
  have hca := valid_comps a ha
  have hcb := valid_comps b hb
  simp only [FirstOK] at fa fb
  simp only [keyCmp, keyCmpC, key, keyC, lexPair]
  cases h1 : (pieces a).comps with
  | nil => exact absurd h1 (comps_ne_nil a)
  | cons f1 r1 =>
  cases h2 : (pieces b).comps with
  | nil => exact absurd h2 (comps_ne_nil b)
  | cons f2 r2 =>
  rw [h1] at hca fa
  rw [h2] at hcb fb
  simp only [List.headD_cons, List.tail_cons, List.map_cons, lexList, Ordering.then_assoc]
  rw [compCmp_canon f1 f2 (hca f1 (by simp)) (hcb f2 (by simp)) (by simpa [CanonFirst] using fa)
    (by simpa [CanonFirst] using fb)]

/-- REFINEMENT (C03, partial): on valid versions whose first component has no superfluous leading
zero, `gentoo.vercmp` orders by the PMS §3.3 key -/
theorem vercmp_eq_key_partial (a b : Raw) (ha : Valid a) (hb : Valid b)
    (fa : FirstOK a = true) (fb : FirstOK b = true) :
    vercmp a b = keyCmp (key a) (key b) := by
  rw [keyCmp_eq_keyCmpC a b ha hb fa fb, vercmp_eq_keyC a b ha hb]

example : Valid "0.10.2a_rc1-r3".toList ∧ FirstOK "0.10.2a_rc1-r3".toList = true := by decide

/-- the code applies rule 3.3 (leading zero ⇒ compare as strings without trailing zeros) to the
FIRST component too, PMS compares the first components as integers: `010 < 10` in the code,
`010 = 10` in PMS -/
theorem vercmp_eq_key_counterexample :
    Valid "010".toList ∧ Valid "10".toList ∧ vercmp "010".toList "10".toList = .lt
    ∧ keyCmp (key "010".toList) (key "10".toList) = .eq := by
  have k1 : key "010".toList = (10, [], -1, [], 0) := by rfl
  have k2 : key "10".toList = (10, [], -1, [], 0) := by rfl
  refine ⟨by decide, by decide, by decide, ?_⟩
  rw [k1, k2]
  exact ReflCmp.compare_self

/-- same for Alpine, whose extra check lets a zero-led first component through when a letter or a
suffix follows it directly: `01a < 1a` in the code, equal in PMS -/
theorem vercmp_eq_key_counterexample_alpine :
    constructAlpine "01a".toList = .ok "01a".toList ∧ constructAlpine "1a".toList = .ok "1a".toList
    ∧ constructAlpine "01".toList = .error .invalid
    ∧ vercmp "01a".toList "1a".toList = .lt
    ∧ keyCmp (key "01a".toList) (key "1a".toList) = .eq := by
  have k1 : key "01a".toList = (1, [], 97, [], 0) := by rfl
  have k2 : key "1a".toList = (1, [], 97, [], 0) := by rfl
  refine ⟨by rfl, by rfl, by rfl, by decide, ?_⟩
  rw [k1, k2]
  exact ReflCmp.compare_self

/-! ### operators (C02) -/

/-- C02, the part that holds: `== != < >` are the operators induced by `gentoo.vercmp` -/
theorem verOps_lawful_partial :
    (∀ a b, verOps.eq a b = (vercmp a b == .eq)) ∧ (∀ a b, verOps.ne a b = (vercmp a b != .eq))
    ∧ (∀ a b, verOps.lt a b = (vercmp a b == .lt)) ∧ (∀ a b, verOps.gt a b = (vercmp a b == .gt)) := by
  refine ⟨fun _ _ => rfl, ?_, fun _ _ => rfl, fun _ _ => rfl⟩
  intro a b
  simp only [verOps]
  cases vercmp a b <;> rfl

/-- `<=` (inherited from attrs `Version`) is the code-point order of the raw strings -/
theorem verOps_le_eq_str (a b : Raw) : verOps.le a b = (strCmp a b != .gt) := by
  simp only [verOps, Univers.Py.attrsOps, valOps, Univers.Py.opsOfSign]
  cases strCmp a b <;> rfl

/-- `>=` (inherited from attrs `Version`) is the code-point order of the raw strings -/
theorem verOps_ge_eq_str (a b : Raw) : verOps.ge a b = (strCmp a b != .lt) := by
  simp only [verOps, Univers.Py.attrsOps, valOps, Univers.Py.opsOfSign]
  cases strCmp a b <;> rfl

/-- `GentooVersion("1.10") <= GentooVersion("1.9")` is True although `1.10 > 1.9` -/
theorem verOps_le_counterexample :
    Valid "1.10".toList ∧ Valid "1.9".toList ∧ vercmp "1.10".toList "1.9".toList = .gt
    ∧ verOps.gt "1.10".toList "1.9".toList = true ∧ verOps.le "1.10".toList "1.9".toList = true := by
  decide

/-- `GentooVersion("1.0") == GentooVersion("1.00")` but `>=` is False (and `<=` the other way) -/
theorem verOps_ge_counterexample :
    Valid "1.0".toList ∧ Valid "1.00".toList ∧ verOps.eq "1.0".toList "1.00".toList = true
    ∧ verOps.ge "1.0".toList "1.00".toList = false ∧ verOps.le "1.00".toList "1.0".toList = false := by
  decide

theorem not_lawful_verOps : ¬ Lawful verOps vercmp := by
  intro h
  have := h.le "1.10".toList "1.9".toList
  revert this
  decide

/-! ### hash (C12) -/

/-- C12 holds vacuously: both classes are unhashable (`hashable = false`) -/
theorem eq_imp_hash (a b : Raw) : verOps.eq a b = true → hashKey a = hashKey b := fun _ => rfl

theorem hashable_false : hashable = false := rfl

/-! ### construction and `str` (C11) -/

/-- what the constructors establish for the value -/
def WellFormed (r : Raw) : Prop :=
  Valid r ∧ (∀ c ∈ r, isWs c = false) ∧ (∀ c, r.head? = some c → isV c = false)

instance (r : Raw) : Decidable (WellFormed r) := by
  unfold WellFormed; cases r <;> infer_instance

theorem normalize_noWs (s : List Char) : ∀ c ∈ normalize s, isWs c = false := by
  intro c hc
  have := (List.dropWhile_sublist isV).subset hc
  simp only [removeSpaces, List.mem_filter] at this
  simpa using this.2

theorem removeSpaces_of_noWs (r : List Char) (h : ∀ c ∈ r, isWs c = false) : removeSpaces r = r := by
  simp only [removeSpaces]
  exact List.filter_eq_self.2 (fun c hc => by simp [h c hc])

theorem normalize_head (s : List Char) : ∀ c, (normalize s).head? = some c → isV c = false := by
  intro c hc
  simp only [normalize] at hc
  have := List.head?_dropWhile_not isV (removeSpaces s)
  rw [hc] at this
  exact this

theorem construct_wf (s : List Char) (r : Raw) (h : construct s = .ok r) : WellFormed r := by
  simp only [construct] at h
  by_cases hv : isValid (normalize s) = true
  · simp only [hv, if_true, Except.ok.injEq] at h
    subst h
    refine ⟨?_, normalize_noWs s, normalize_head s⟩
    simpa [Valid, isValid, removeSpaces_of_noWs _ (normalize_noWs s)] using hv
  · simp [hv] at h

theorem constructAlpine_wf (s : List Char) (r : Raw) (h : constructAlpine s = .ok r) :
    WellFormed r ∧ isValidAlpine r = true := by
  simp only [constructAlpine] at h
  by_cases hv : (isValidAlpine (normalize s) && isValid (normalize s)) = true
  · simp only [hv, if_true, Except.ok.injEq] at h
    subst h
    simp only [Bool.and_eq_true] at hv
    refine ⟨⟨?_, normalize_noWs s, normalize_head s⟩, hv.1⟩
    simpa [Valid, isValid, removeSpaces_of_noWs _ (normalize_noWs s)] using hv.2
  · simp [hv] at h

/-- every Alpine version is a Gentoo version with the same value -/
theorem constructAlpine_construct (s : List Char) (r : Raw) (h : constructAlpine s = .ok r) :
    construct s = .ok r := by
  simp only [constructAlpine] at h
  by_cases hv : (isValidAlpine (normalize s) && isValid (normalize s)) = true
  · simp only [hv, if_true, Except.ok.injEq] at h
    simp only [Bool.and_eq_true] at hv
    subst h
    simp [construct, hv.2]
  · simp [hv] at h

theorem normalize_of_wf (r : Raw) (h : WellFormed r) : normalize r = r := by
  obtain ⟨_, hws, hv⟩ := h
  simp only [normalize, removeSpaces_of_noWs r hws]
  cases r with
  | nil => rfl
  | cons c cs => simp [List.dropWhile, hv c rfl]

/-- C11: `GentooVersion(str(v))` rebuilds the same value -/
theorem str_roundtrip (r : Raw) (h : WellFormed r) : construct (str r) = .ok r := by
  have hn := normalize_of_wf r h
  have hv : isValid r = true := by
    simpa [Valid, isValid, removeSpaces_of_noWs r h.2.1] using h.1
  simp [construct, str, hn, hv]

/-- C11 for `AlpineLinuxVersion` -/
theorem str_roundtrip_alpine (r : Raw) (h : WellFormed r) (ha : isValidAlpine r = true) :
    constructAlpine (str r) = .ok r := by
  have hn := normalize_of_wf r h
  have hv : isValid r = true := by
    simpa [Valid, isValid, removeSpaces_of_noWs r h.2.1] using h.1
  simp [constructAlpine, str, hn, hv, ha]

/-- `is_valid` lets anything follow the revision, and `vercmp` ignores it:
`GentooVersion("1.0-r1abc")` is accepted and `== GentooVersion("1.0-r1")` -/
theorem trailing_garbage_accepted :
    construct "1.0-r1abc".toList = .ok "1.0-r1abc".toList
    ∧ verOps.eq "1.0-r1abc".toList "1.0-r1".toList = true
    ∧ verOps.eq "1.0-r1_p1".toList "1.0-r1".toList = true := by
  refine ⟨by rfl, by decide, by decide⟩

/-! ### examples of the PMS order, read on the key -/

section
private def kc (a b : String) : Ordering := keyCmp (key a.toList) (key b.toList)
private def okPair (a b : String) : Prop :=
  Valid a.toList ∧ Valid b.toList ∧ FirstOK a.toList = true ∧ FirstOK b.toList = true
private instance (a b : String) : Decidable (okPair a b) := by unfold okPair; infer_instance
private theorem kc_eq (a b : String) (h : okPair a b) : kc a b = vercmp a.toList b.toList :=
  (vercmp_eq_key_partial _ _ h.1 h.2.1 h.2.2.1 h.2.2.2).symm

example : [kc "1.0_alpha" "1.0_beta", kc "1.0_beta" "1.0_pre", kc "1.0_pre" "1.0_rc",
    kc "1.0_rc" "1.0", kc "1.0" "1.0_p", kc "1.0_p" "1.0_p1", kc "1.0" "1.0a", kc "1.0a" "1.0b",
    kc "1.0z" "1.0.1", kc "1.02" "1.1", kc "1.1" "1.10", kc "1.0" "1.0-r1", kc "1.0_rc1" "1.0_rc1_p1",
    kc "1.0_p1_rc1" "1.0_p1", kc "0.9" "1"]
    = List.replicate 15 .lt := by
  rw [kc_eq _ _ (by decide), kc_eq _ _ (by decide), kc_eq _ _ (by decide), kc_eq _ _ (by decide),
    kc_eq _ _ (by decide), kc_eq _ _ (by decide), kc_eq _ _ (by decide), kc_eq _ _ (by decide),
    kc_eq _ _ (by decide), kc_eq _ _ (by decide), kc_eq _ _ (by decide), kc_eq _ _ (by decide),
    kc_eq _ _ (by decide), kc_eq _ _ (by decide), kc_eq _ _ (by decide)]
  decide
example : [kc "1.010" "1.01", kc "1.0" "1.0-r0", kc "1_p" "1_p0", kc "1.0" "1.00"]
    = List.replicate 4 .eq := by
  rw [kc_eq _ _ (by decide), kc_eq _ _ (by decide), kc_eq _ _ (by decide), kc_eq _ _ (by decide)]
  decide
end

end Univers.Gentoo

section AxiomAudit
open Univers.Gentoo
#print axioms vercmp_eq_keyC
#print axioms vercmp_isLE_trans
#print axioms vercmp_eq_key_partial
#print axioms vercmp_eq_key_counterexample
#print axioms vercmp_eq_key_counterexample_alpine
#print axioms verOps_lawful_partial
#print axioms verOps_le_counterexample
#print axioms not_lawful_verOps
#print axioms str_roundtrip
#print axioms str_roundtrip_alpine
#print axioms construct_wf
#print axioms constructAlpine_wf
#print axioms trailing_garbage_accepted
end AxiomAudit
