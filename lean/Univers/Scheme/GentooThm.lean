/-
Theorems for schemes `ebuild` and `alpine`: on valid versions `gentoo.vercmp` computes the key
order `keyC` (PMS §3.3 with rule 3.3 applied to the first component too) and is therefore a
lawful comparator (C01); it computes the PMS order itself on versions whose first component has
no superfluous leading zero (C03, partial + counterexample `010` vs `10`); the six operators
agree with it (C02); `==` implies equal hash keys on valid versions (C12); `str` round-trips
(C11).
-/
import Univers.Scheme.GentooSpec
import Univers.Vers.Spec

set_option linter.unusedSimpArgs false

namespace Univers.Gentoo

open Univers Std

/-! ### small tools -/

/-- `some c` = the code returns `c`; `none` = it goes on -/
def toOpt : Ordering → Option Ordering
  | .eq => none
  | c => some c

theorem match_toOpt (o x : Ordering) :
    (match toOpt o with | some c => c | none => x) = o.then x := by cases o <;> rfl

theorem ite_ne_eq_some (c : Ordering) (x : Option Ordering) :
    (if (c != .eq) = true then some c else x) = (match toOpt c with | some d => some d | none => x) := by
  cases c <;> rfl

theorem toOpt_then (c x : Ordering) :
    toOpt (c.then x) = (match toOpt c with | some d => some d | none => toOpt x) := by
  cases c <;> rfl

/-- a non-empty string of ASCII digits -/
def DigitStr (s : List Char) : Prop := s ≠ [] ∧ ∀ c ∈ s, c.isDigit = true

theorem digit_ne_zero_gt {c : Char} (hd : c.isDigit = true) (h0 : c ≠ '0') : charCmp '0' c = .lt := by
  have hne : c.toNat ≠ '0'.toNat := fun h => h0 (Char.toNat_inj.1 h)
  simp only [Char.isDigit, Bool.and_eq_true, decide_eq_true_eq] at hd
  have h1 := hd.1
  simp only [UInt32.le_iff_toNat_le] at h1
  simp only [charCmp]
  rw [Nat.compare_eq_lt]
  simp only [Char.toNat] at *
  simp at h1 hne ⊢
  omega

theorem rstrip0_zero (cs : List Char) : rstrip0 ('0' :: cs) = [] ∨ ∃ t, rstrip0 ('0' :: cs) = '0' :: t := by
  simp only [rstrip0]
  cases rstrip0 cs with
  | nil => simp
  | cons r rs => simp

theorem rstrip0_nonzero (c : Char) (cs : List Char) (h : c ≠ '0') : ∃ t, rstrip0 (c :: cs) = c :: t := by
  simp only [rstrip0]
  cases rstrip0 cs with
  | nil => simp [h]
  | cons r rs => simp

theorem rk01 : compare (0 : Nat) 1 = .lt := by decide
theorem rk10 : compare (1 : Nat) 0 = .gt := by decide

theorem strCmp_self (s : List Char) : strCmp s s = .eq := ReflCmp.compare_self

/-- the comparison of two different components is rule 3.3 -/
theorem compPair_eq (v1 v2 : List Char) (h1 : DigitStr v1) (h2 : DigitStr v2) :
    compPair v1 v2 = compCmp (compKey v1) (compKey v2) := by
  obtain ⟨hn1, hd1⟩ := h1
  obtain ⟨hn2, hd2⟩ := h2
  cases v1 with
  | nil => exact absurd rfl hn1
  | cons c1 t1 =>
  cases v2 with
  | nil => exact absurd rfl hn2
  | cons c2 t2 =>
  have hc1 := hd1 c1 (by simp)
  have hc2 := hd2 c2 (by simp)
  by_cases z1 : c1 = '0' <;> by_cases z2 : c2 = '0'
  · subst z1; subst z2
    simp [compPair, compKey, compCmp, lexPair, natCmp]
  · subst z1
    have hk : compCmp (compKey ('0' :: t1)) (compKey (c2 :: t2)) = .lt := by
      simp [compKey, compCmp, lexPair, natCmp, z2, rk01]
    rw [hk]
    obtain ⟨t, ht⟩ := rstrip0_nonzero c2 t2 z2
    simp only [compPair, List.head?_cons, bne_self_eq_false, Bool.false_and, Bool.false_eq_true,
      if_false, ht]
    rcases rstrip0_zero t1 with h | ⟨u, hu⟩
    · simp [h, strCmp, lexList]
    · simp [hu, strCmp, lexList, digit_ne_zero_gt hc2 z2]
  · subst z2
    have hk : compCmp (compKey (c1 :: t1)) (compKey ('0' :: t2)) = .gt := by
      simp [compKey, compCmp, lexPair, natCmp, z1, rk10]
    rw [hk]
    obtain ⟨t, ht⟩ := rstrip0_nonzero c1 t1 z1
    have hgt : charCmp c1 '0' = .gt := by
      rw [OrientedCmp.eq_swap (cmp := charCmp), digit_ne_zero_gt hc1 z1]; rfl
    simp only [compPair, List.head?_cons, bne_self_eq_false, Bool.and_false, Bool.false_eq_true,
      if_false, ht]
    rcases rstrip0_zero t2 with h | ⟨u, hu⟩
    · simp [h, strCmp, lexList]
    · simp [hu, strCmp, lexList, hgt]
  · simp [compPair, compKey, compCmp, lexPair, natCmp, z1, z2, strCmp, lexList]

theorem compCmp_self (k : Comp) : compCmp k k = .eq := ReflCmp.compare_self

/-! ### the dotted components -/

/-- the length test after the `zip` loop -/
def lenStep (l1 l2 : List (List Char)) : Option Ordering → Option Ordering
  | some c => some c
  | none =>
    if l1.length > l2.length then some .gt
    else if l2.length > l1.length then some .lt
    else none

theorem lenStep_cons (a b : List Char) (l1 l2 : List (List Char)) (o : Option Ordering) :
    lenStep (a :: l1) (b :: l2) o = lenStep l1 l2 o := by
  cases o <;> simp [lenStep]

theorem compLoop_spec (l1 : List (List Char)) : ∀ (l2 : List (List Char)),
    (∀ v ∈ l1, DigitStr v) → (∀ v ∈ l2, DigitStr v) →
    lenStep l1 l2 (compLoop l1 l2) = toOpt (lexList compCmp (l1.map compKey) (l2.map compKey)) := by
  induction l1 with
  | nil =>
    intro l2 _ _
    cases l2 <;> simp [compLoop, lenStep, lexList, toOpt]
  | cons v1 r1 ih =>
    intro l2 h1 h2
    cases l2 with
    | nil => simp [compLoop, lenStep, lexList, toOpt]
    | cons v2 r2 =>
      have ih' := ih r2 (fun v hv => h1 v (by simp [hv])) (fun v hv => h2 v (by simp [hv]))
      simp only [List.map_cons, lexList, toOpt_then]
      by_cases he : v1 = v2
      · subst he
        simp only [compLoop, beq_self_eq_true, if_true, lenStep_cons, ih', compCmp_self, toOpt]
      · have hb : (v1 == v2) = false := by simp [he]
        simp only [compLoop, hb, Bool.false_eq_true, if_false, ite_ne_eq_some]
        rw [compPair_eq v1 v2 (h1 v1 (by simp)) (h2 v2 (by simp))]
        cases hc : toOpt (compCmp (compKey v1) (compKey v2)) with
        | none => simp only [lenStep_cons, ih']
        | some c => simp [lenStep]

theorem dotted_spec (h1 h2 : List Char)
    (hd1 : ∀ v ∈ (stripLetter (splitList '.' h1)).1, DigitStr v)
    (hd2 : ∀ v ∈ (stripLetter (splitList '.' h2)).1, DigitStr v) :
    dotted h1 h2 = toOpt ((lexList compCmp ((stripLetter (splitList '.' h1)).1.map compKey)
        ((stripLetter (splitList '.' h2)).1.map compKey)).then
      (intCmp (stripLetter (splitList '.' h1)).2 (stripLetter (splitList '.' h2)).2)) := by
  have hs := compLoop_spec _ _ hd1 hd2
  rw [toOpt_then, ← hs]
  simp only [dotted]
  generalize (stripLetter (splitList '.' h1)) = l1 at *
  generalize (stripLetter (splitList '.' h2)) = l2 at *
  cases compLoop l1.1 l2.1 with
  | some c => simp [lenStep]
  | none =>
    simp only [lenStep]
    by_cases hgt : l1.1.length > l2.1.length
    · simp [hgt]
    · by_cases hlt : l2.1.length > l1.1.length
      · simp [hgt, hlt]
      · simp only [hgt, hlt, if_false]
        by_cases hl : l1.2 = l2.2
        · have : intCmp l1.2 l2.2 = .eq := by simp [intCmp, hl]
          simp [hl, this, toOpt]
          simp [intCmp]
        · have hne : intCmp l1.2 l2.2 ≠ .eq := by
            simp only [intCmp, ne_eq, Int.compare_eq_eq]; exact hl
          have hb : (l1.2 != l2.2) = true := by simp [hl]
          simp only [hb, if_true, intCmp] at *
          cases hc : compare l1.2 l2.2 <;> simp_all [toOpt]

/-! ### the suffixes -/

theorem stripPrefix_eq (name : List Char) : ∀ (p rest : List Char),
    stripPrefix name p = some rest → p = name ++ rest := by
  induction name with
  | nil => intro p rest h; simpa [stripPrefix] using h
  | cons n ns ih =>
    intro p rest h
    cases p with
    | nil => simp [stripPrefix] at h
    | cons c cs =>
      simp only [stripPrefix] at h
      by_cases hnc : n = c
      · subst hnc
        simp only [beq_self_eq_true, if_true] at h
        simp [ih cs rest h]
      · simp [hnc] at h

theorem digit_not_alpha (c : Char) (h : c.isDigit = true) : c.isAlpha = false := by
  cases ha : c.isAlpha with
  | false => rfl
  | true =>
    exfalso
    simp only [Char.isDigit, Char.isAlpha, Char.isUpper, Char.isLower, Bool.or_eq_true,
      Bool.and_eq_true, decide_eq_true_eq] at h ha
    have h1 := h.1
    have h2 := h.2
    simp only [UInt32.le_iff_toNat_le] at h1 h2 ha
    simp at h1 h2 ha
    omega

theorem natOfDigits_zero_cons (s : List Char) : natOfDigits ('0' :: s) = natOfDigits s := by
  simp [natOfDigits]

theorem sufKey_append (name rest : List Char) (hn : ∀ c ∈ name, c.isAlpha = true)
    (hr : rest.all Char.isDigit = true) :
    sufKey (name ++ rest) = (sufRank name, natOfDigits rest) := by
  have hr' : ∀ c ∈ rest, c.isAlpha = false := fun c hc =>
    digit_not_alpha c (List.all_eq_true.1 hr c hc)
  have ht : rest.takeWhile Char.isAlpha = [] := by
    cases rest with
    | nil => rfl
    | cons c cs => simp [List.takeWhile, hr' c (by simp)]
  have hdw : rest.dropWhile Char.isAlpha = rest := by
    cases rest with
    | nil => rfl
    | cons c cs => simp [List.dropWhile, hr' c (by simp)]
  simp only [sufKey, List.takeWhile_append_of_pos hn, List.dropWhile_append_of_pos hn, ht, hdw,
    List.append_nil]

/-- a table entry as PMS reads it -/
def EntryOK (e : List Char × Int) : Prop :=
  (∀ c ∈ e.1, c.isAlpha = true) ∧ sufRank e.1 = e.2 ∧ e.2 ≠ 0

instance (e : List Char × Int) : Decidable (EntryOK e) := by unfold EntryOK; infer_instance

theorem sufMatchIn_some (tbl : List (List Char × Int)) (htbl : ∀ e ∈ tbl, EntryOK e)
    (p : List Char) (name : List Char) (val : Int) (digits : List Char)
    (h : sufMatchIn tbl p = some (name, val, digits)) :
    sufKey p = (val, natOfDigits digits) ∧ val ≠ 0 ∧ (name, val) ∈ tbl := by
  induction tbl with
  | nil => simp [sufMatchIn] at h
  | cons e more ih =>
    obtain ⟨nm, v⟩ := e
    have hm := ih (fun e he => htbl e (by simp [he]))
    obtain ⟨hn, hrk, hv0⟩ := htbl (nm, v) (by simp)
    simp only [sufMatchIn] at h
    cases hs : stripPrefix nm p with
    | none =>
      simp only [hs] at h
      obtain ⟨h1, h2, h3⟩ := hm h
      exact ⟨h1, h2, by simp [h3]⟩
    | some rest =>
      simp only [hs] at h
      by_cases hr : rest.all Char.isDigit = true
      · simp only [hr, if_true, Option.some.injEq, Prod.mk.injEq] at h
        obtain ⟨rfl, rfl, rfl⟩ := h
        rw [stripPrefix_eq nm p rest hs, sufKey_append nm rest hn hr]
        exact ⟨by rw [hrk], hv0, by simp⟩
      · simp only [hr, Bool.false_eq_true, if_false] at h
        obtain ⟨h1, h2, h3⟩ := hm h
        exact ⟨h1, h2, by simp [h3]⟩

theorem sufNames_ok : ∀ e ∈ sufNames, EntryOK e := by decide

/-- a part that `suffix_regexp` matches -/
def SufOK (p : List Char) : Prop := (sufMatch p).isSome = true

theorem sufOK_matchIn (p : List Char) (h : SufOK p) :
    ∃ name val digits, sufMatchIn sufNames p = some (name, val, digits) := by
  simp only [SufOK, sufMatch] at h
  cases hm : sufMatchIn sufNames p with
  | none => simp [hm] at h
  | some t => exact ⟨t.1, t.2.1, t.2.2, rfl⟩

theorem suf_eq_sufKey (p : List Char) (h : SufOK p) : suf p = sufKey p ∧ (sufKey p).1 ≠ 0 := by
  obtain ⟨name, val, digits, hm⟩ := sufOK_matchIn p h
  have := sufMatchIn_some sufNames sufNames_ok p name val digits hm
  simp only [suf, sufMatch, hm, Option.map_some, natOfDigits_zero_cons, this.1]
  exact ⟨trivial, this.2.1⟩

theorem sufCmp_self (k : Suf) : sufCmp k k = .eq := ReflCmp.compare_self

theorem sufLoop_spec (ps : List (List Char)) : ∀ (qs : List (List Char)),
    (∀ p ∈ ps, SufOK p) → (∀ q ∈ qs, SufOK q) →
    sufLoop ps qs = toOpt (padLex sufCmp Suf.pad (ps.map sufKey) (qs.map sufKey)) := by
  induction ps with
  | nil =>
    intro qs _ hq
    cases qs with
    | nil => simp [sufLoop, padLex, toOpt]
    | cons q qs =>
      obtain ⟨h1, h2⟩ := suf_eq_sufKey q (hq q (by simp))
      have hb : ((sufKey q).1 != 0) = true := by simp [h2]
      have hne : compare 0 (sufKey q).1 ≠ .eq := by
        rw [ne_eq, Int.compare_eq_eq]; exact fun h => h2 h.symm
      simp only [sufLoop, h1, hb, if_true, List.map_nil, List.map_cons, padLex, sufCmp, lexPair,
        Suf.pad, intCmp]
      cases hc : compare 0 (sufKey q).1 <;> simp_all [toOpt]
  | cons p ps ih =>
    intro qs hp hq
    obtain ⟨h1, h2⟩ := suf_eq_sufKey p (hp p (by simp))
    cases qs with
    | nil =>
      have hb : ((sufKey p).1 != 0) = true := by simp [h2]
      have hne : compare (sufKey p).1 0 ≠ .eq := by
        rw [ne_eq, Int.compare_eq_eq]; exact h2
      simp only [sufLoop, h1, hb, if_true, List.map_nil, List.map_cons, padLex, sufCmp, lexPair,
        Suf.pad, intCmp]
      cases hc : compare (sufKey p).1 0 <;> simp_all [toOpt]
    | cons q qs =>
      obtain ⟨h3, _⟩ := suf_eq_sufKey q (hq q (by simp))
      have ih' := ih qs (fun r hr => hp r (by simp [hr])) (fun r hr => hq r (by simp [hr]))
      simp only [List.map_cons, padLex, toOpt_then]
      by_cases he : p = q
      · subst he
        simp only [sufLoop, beq_self_eq_true, if_true, ih', sufCmp_self, toOpt]
      · have hb : (p == q) = false := by simp [he]
        simp only [sufLoop, hb, Bool.false_eq_true, if_false, h1, h3, ih', sufCmp, lexPair, intCmp,
          natCmp]
        cases compare (sufKey p).1 (sufKey q).1 <;> cases compare (sufKey p).2 (sufKey q).2 <;>
          simp [toOpt, Ordering.then]

/-! ### validity -/

/-- what `gentoo.is_valid` establishes for the value (the normalized string) -/
def Valid (r : Raw) : Prop := matchVersion (parseVR r).1 = true

instance (r : Raw) : Decidable (Valid r) := by unfold Valid; infer_instance

/-- what `AlpineLinuxVersion.is_valid` establishes -/
def ValidAlpine (r : Raw) : Prop := isValidAlpine r = true ∧ Valid r

instance (r : Raw) : Decidable (ValidAlpine r) := by unfold ValidAlpine; infer_instance

theorem valid_ne_nil (r : Raw) (h : Valid r) : r ≠ [] := by
  intro he
  subst he
  revert h
  decide

theorem valid_comps (r : Raw) (h : Valid r) : ∀ v ∈ (pieces r).comps, DigitStr v := by
  simp only [Valid, matchVersion, Bool.and_eq_true, matchHead, List.all_eq_true] at h
  intro v hv
  have := h.1 v hv
  simp only [Bool.and_eq_true, Bool.not_eq_true', List.isEmpty_eq_false_iff, List.all_eq_true] at this
  exact ⟨this.1, this.2⟩

theorem valid_sufs (r : Raw) (h : Valid r) : ∀ p ∈ (pieces r).sufs, SufOK p := by
  simp only [Valid, matchVersion, Bool.and_eq_true, List.all_eq_true] at h
  exact fun p hp => h.2 p hp

/-! ### refinement against the key of the code -/

theorem lexComp_self (l : List Comp) : lexList compCmp l l = .eq := ReflCmp.compare_self
theorem padSuf_self (l : List Suf) : padLex sufCmp Suf.pad l l = .eq := ReflCmp.compare_self
theorem intCmp_self (i : Int) : intCmp i i = .eq := ReflCmp.compare_self

/-- on valid versions `gentoo.vercmp` orders by `keyC` -/
theorem vercmp_eq_keyC (a b : Raw) (ha : Valid a) (hb : Valid b) :
    vercmp a b = keyCmpC (keyC a) (keyC b) := by
  have hea : a.isEmpty = false := by
    have := valid_ne_nil a ha
    cases a <;> simp_all
  have heb : b.isEmpty = false := by
    have := valid_ne_nil b hb
    cases b <;> simp_all
  have hca := valid_comps a ha
  have hcb := valid_comps b hb
  have hsa := valid_sufs a ha
  have hsb := valid_sufs b hb
  simp only [pieces] at hca hcb hsa hsb
  simp only [vercmp, hea, heb, Bool.false_eq_true, if_false]
  by_cases hv : (parseVR a).1 = (parseVR b).1
  · simp only [hv, beq_self_eq_true, if_true, keyCmpC, keyC, pieces, lexPair, lexComp_self,
      padSuf_self, intCmp_self, Ordering.then, natCmp]
    by_cases h0 : ((parseVR a).2 == 0 && (parseVR b).2 == 0) = true
    · simp only [h0, if_true]
      simp only [Bool.and_eq_true, beq_iff_eq] at h0
      simp [h0.1, h0.2]
    · simp [h0]
  · have hvb : ((parseVR a).1 == (parseVR b).1) = false := by simp [hv]
    simp only [hvb, Bool.false_eq_true, if_false]
    have hD : (if ((splitOn '_' (parseVR a).1).1 != (splitOn '_' (parseVR b).1).1) = true
          then dotted (splitOn '_' (parseVR a).1).1 (splitOn '_' (parseVR b).1).1 else none)
        = toOpt ((lexList compCmp
            ((stripLetter (splitList '.' (splitOn '_' (parseVR a).1).1)).1.map compKey)
            ((stripLetter (splitList '.' (splitOn '_' (parseVR b).1).1)).1.map compKey)).then
          (intCmp (stripLetter (splitList '.' (splitOn '_' (parseVR a).1).1)).2
            (stripLetter (splitList '.' (splitOn '_' (parseVR b).1).1)).2)) := by
      by_cases hh : (splitOn '_' (parseVR a).1).1 = (splitOn '_' (parseVR b).1).1
      · simp [hh, lexComp_self, intCmp_self, toOpt]
      · have : ((splitOn '_' (parseVR a).1).1 != (splitOn '_' (parseVR b).1).1) = true := by simp [hh]
        simp only [this, if_true]
        exact dotted_spec _ _ hca hcb
    rw [hD, sufLoop_spec _ _ hsa hsb]
    simp only [keyCmpC, keyC, pieces, lexPair, natCmp]
    generalize lexList compCmp _ _ = A
    generalize intCmp _ _ = B
    generalize padLex sufCmp Suf.pad _ _ = S
    cases A <;> cases B <;> cases S <;> simp [toOpt, Ordering.then]

/-! ### comparator laws on valid versions (C01) -/

theorem vercmp_eq_swap (a b : Raw) (ha : Valid a) (hb : Valid b) :
    vercmp a b = (vercmp b a).swap := by
  rw [vercmp_eq_keyC a b ha hb, vercmp_eq_keyC b a hb ha]
  exact OrientedCmp.eq_swap

theorem vercmp_isLE_trans (a b c : Raw) (ha : Valid a) (hb : Valid b) (hc : Valid c) :
    (vercmp a b).isLE → (vercmp b c).isLE → (vercmp a c).isLE := by
  rw [vercmp_eq_keyC a b ha hb, vercmp_eq_keyC b c hb hc, vercmp_eq_keyC a c ha hc]
  exact TransCmp.isLE_trans

example : Valid "1.2.3a_rc1_p2-r4".toList := by decide

/-- the values that `GentooVersion(...)` can hold -/
abbrev ValidRaw := { r : Raw // Valid r }

/-- C01: `gentoo.vercmp` is a lawful three-way comparison of valid versions -/
instance : TransCmp (cmpOn (Subtype.val : ValidRaw → Raw) vercmp) where
  eq_swap := by intro a b; exact vercmp_eq_swap a.1 b.1 a.2 b.2
  isLE_trans := by intro a b c; exact vercmp_isLE_trans a.1 b.1 c.1 a.2 b.2 c.2

/-! ### refinement against the PMS key (C03), where the first component is canonical -/

theorem comps_ne_nil (r : Raw) : (pieces r).comps ≠ [] := by
  simp only [pieces, splitList]
  generalize (splitOn '.' (splitOn '_' (parseVR r).1).1).1 = x
  generalize (splitOn '.' (splitOn '_' (parseVR r).1).1).2 = xs
  cases xs with
  | nil =>
    simp only [stripLetter]
    cases x.getLast? with
    | none => simp
    | some c => by_cases h : c.isAlpha = true <;> simp [h]
  | cons y ys => simp [stripLetter]

theorem foldl_digits_ge (cs : List Char) : ∀ n : Nat,
    n ≤ cs.foldl (fun n c => 10 * n + (c.toNat - '0'.toNat)) n := by
  induction cs with
  | nil => intro n; exact Nat.le_refl n
  | cons c cs ih =>
    intro n
    simp only [List.foldl_cons]
    exact Nat.le_trans (by omega) (ih _)

theorem natOfDigits_pos (c : Char) (cs : List Char) (hd : c.isDigit = true) (h0 : c ≠ '0') :
    0 < natOfDigits (c :: cs) := by
  have hlt := digit_ne_zero_gt hd h0
  simp only [charCmp, Nat.compare_eq_lt] at hlt
  have := foldl_digits_ge cs (10 * 0 + (c.toNat - '0'.toNat))
  simp only [natOfDigits, List.foldl_cons]
  omega

theorem natOfDigits_zeros (s : List Char) (h : s.all (· == '0') = true) : natOfDigits s = 0 := by
  simp only [natOfDigits]
  induction s with
  | nil => rfl
  | cons c cs ih =>
    simp only [List.all_cons, Bool.and_eq_true, beq_iff_eq] at h
    obtain ⟨rfl, h2⟩ := h
    simpa using ih h2

theorem rstrip0_zeros (s : List Char) (h : s.all (· == '0') = true) : rstrip0 s = [] := by
  induction s with
  | nil => rfl
  | cons c cs ih =>
    simp only [List.all_cons, Bool.and_eq_true, beq_iff_eq] at h
    obtain ⟨rfl, h2⟩ := h
    simp [rstrip0, ih h2]

/-- the first component does not start with `0`, or it is all zeros -/
def CanonFirst (f : List Char) : Bool := f.head? != some '0' || f.all (· == '0')

theorem compKey_canon (f : List Char) (hd : DigitStr f) (hc : CanonFirst f = true) :
    (compKey f = (1, [], natOfDigits f) ∧ 0 < natOfDigits f) ∨
    (compKey f = (0, [], 0) ∧ natOfDigits f = 0) := by
  obtain ⟨hne, hdig⟩ := hd
  cases f with
  | nil => exact absurd rfl hne
  | cons c cs =>
    by_cases hz : c = '0'
    · subst hz
      right
      have hall : ('0' :: cs).all (· == '0') = true := by
        simpa [CanonFirst] using hc
      exact ⟨by simp [compKey, rstrip0_zeros _ hall], natOfDigits_zeros _ hall⟩
    · left
      exact ⟨by simp [compKey, hz], natOfDigits_pos c cs (hdig c (by simp)) hz⟩

theorem compCmp_canon (f1 f2 : List Char) (h1 : DigitStr f1) (h2 : DigitStr f2)
    (c1 : CanonFirst f1 = true) (c2 : CanonFirst f2 = true) :
    compCmp (compKey f1) (compKey f2) = natCmp (natOfDigits f1) (natOfDigits f2) := by
  rcases compKey_canon f1 h1 c1 with ⟨k1, p1⟩ | ⟨k1, p1⟩ <;>
  rcases compKey_canon f2 h2 c2 with ⟨k2, p2⟩ | ⟨k2, p2⟩
  · simp [k1, k2, compCmp, lexPair, natCmp, strCmp, lexList]
  · rw [k1, k2, p2]
    have : compare (natOfDigits f1) 0 = .gt := Nat.compare_eq_gt.2 p1
    simp [compCmp, lexPair, natCmp, rk10, this]
  · rw [k1, k2, p1]
    have : compare 0 (natOfDigits f2) = .lt := Nat.compare_eq_lt.2 p2
    simp [compCmp, lexPair, natCmp, rk01, this]
  · simp [k1, k2, p1, p2, compCmp, lexPair, natCmp, strCmp, lexList]

theorem keyCmp_eq_keyCmpC (a b : Raw) (ha : Valid a) (hb : Valid b)
    (fa : FirstOK a = true) (fb : FirstOK b = true) :
    keyCmp (key a) (key b) = keyCmpC (keyC a) (keyC b) := by
  have hca := valid_comps a ha
  have hcb := valid_comps b hb
  simp only [FirstOK] at fa fb
  simp only [keyCmp, keyCmpC, key, keyC, lexPair]
  cases h1 : (pieces a).comps with
  | nil => exact absurd h1 (comps_ne_nil a)
  | cons f1 r1 =>
  cases h2 : (pieces b).comps with
  | nil => exact absurd h2 (comps_ne_nil b)
  | cons f2 r2 =>
  rw [h1] at hca fa
  rw [h2] at hcb fb
  simp only [List.headD_cons, List.tail_cons, List.map_cons, lexList, Ordering.then_assoc]
  rw [compCmp_canon f1 f2 (hca f1 (by simp)) (hcb f2 (by simp)) (by simpa [CanonFirst] using fa)
    (by simpa [CanonFirst] using fb)]

/-- REFINEMENT (C03, partial): on valid versions whose first component has no superfluous leading
zero, `gentoo.vercmp` orders by the PMS §3.3 key -/
theorem vercmp_eq_key_partial (a b : Raw) (ha : Valid a) (hb : Valid b)
    (fa : FirstOK a = true) (fb : FirstOK b = true) :
    vercmp a b = keyCmp (key a) (key b) := by
  rw [keyCmp_eq_keyCmpC a b ha hb fa fb, vercmp_eq_keyC a b ha hb]

example : Valid "0.10.2a_rc1-r3".toList ∧ FirstOK "0.10.2a_rc1-r3".toList = true := by decide

/-- the code applies rule 3.3 (leading zero ⇒ compare as strings without trailing zeros) to the
FIRST component too, PMS compares the first components as integers: `010 < 10` in the code,
`010 = 10` in PMS -/
theorem vercmp_eq_key_counterexample :
    Valid "010".toList ∧ Valid "10".toList ∧ vercmp "010".toList "10".toList = .lt
    ∧ keyCmp (key "010".toList) (key "10".toList) = .eq := by
  have k1 : key "010".toList = (10, [], -1, [], 0) := by rfl
  have k2 : key "10".toList = (10, [], -1, [], 0) := by rfl
  refine ⟨by decide, by decide, by decide, ?_⟩
  rw [k1, k2]
  exact ReflCmp.compare_self

/-- same for Alpine, whose extra check lets a zero-led first component through when a letter or a
suffix follows it directly: `01a < 1a` in the code, equal in PMS -/
theorem vercmp_eq_key_counterexample_alpine :
    constructAlpine "01a".toList = .ok "01a".toList ∧ constructAlpine "1a".toList = .ok "1a".toList
    ∧ constructAlpine "01".toList = .error .invalid
    ∧ vercmp "01a".toList "1a".toList = .lt
    ∧ keyCmp (key "01a".toList) (key "1a".toList) = .eq := by
  have k1 : key "01a".toList = (1, [], 97, [], 0) := by rfl
  have k2 : key "1a".toList = (1, [], 97, [], 0) := by rfl
  refine ⟨by rfl, by rfl, by rfl, by decide, ?_⟩
  rw [k1, k2]
  exact ReflCmp.compare_self

/-! ### operators (C02) -/

/-- C02: the six operators of `GentooVersion` / `AlpineLinuxVersion` are the ones induced by
`gentoo.vercmp` -/
theorem verOps_lawful : Lawful verOps vercmp := by
  refine ⟨fun _ _ => rfl, fun _ _ => rfl, fun _ _ => rfl, fun _ _ => rfl, fun _ _ => rfl, ?_⟩
  intro a b
  simp only [verOps]
  cases vercmp a b <;> rfl

/-! ### hash (C12): equal valid versions have equal hash keys -/

theorem lexList_eq_eq {α} (cmp : α → α → Ordering) (hc : ∀ a b, cmp a b = .eq → a = b) :
    ∀ l1 l2 : List α, lexList cmp l1 l2 = .eq → l1 = l2 := by
  intro l1
  induction l1 with
  | nil => intro l2 h; cases l2 <;> simp_all [lexList]
  | cons x xs ih =>
    intro l2 h
    cases l2 with
    | nil => simp [lexList] at h
    | cons y ys =>
      simp only [lexList, Ordering.then_eq_eq] at h
      rw [hc x y h.1, ih ys h.2]

theorem padLex_eq_eq {α} (cmp : α → α → Ordering) (d : α) (hc : ∀ a b, cmp a b = .eq → a = b) :
    ∀ l1 l2 : List α, (∀ x ∈ l1, cmp x d ≠ .eq) → (∀ x ∈ l2, cmp d x ≠ .eq) →
    padLex cmp d l1 l2 = .eq → l1 = l2 := by
  intro l1
  induction l1 with
  | nil =>
    intro l2 _ h2 h
    cases l2 with
    | nil => rfl
    | cons y ys =>
      simp only [padLex, Ordering.then_eq_eq] at h
      exact absurd h.1 (h2 y (by simp))
  | cons x xs ih =>
    intro l2 h1 h2 h
    cases l2 with
    | nil =>
      simp only [padLex, Ordering.then_eq_eq] at h
      exact absurd h.1 (h1 x (by simp))
    | cons y ys =>
      simp only [padLex, Ordering.then_eq_eq] at h
      rw [hc x y h.1, ih ys (fun z hz => h1 z (by simp [hz])) (fun z hz => h2 z (by simp [hz])) h.2]

theorem charCmp_eq_eq (a b : Char) (h : charCmp a b = .eq) : a = b := by
  simp only [charCmp, Nat.compare_eq_eq] at h
  exact Char.toNat_inj.1 h

theorem strCmp_eq_eq (a b : List Char) (h : strCmp a b = .eq) : a = b :=
  lexList_eq_eq charCmp charCmp_eq_eq a b h

theorem compCmp_eq_eq (a b : Comp) (h : compCmp a b = .eq) : a = b := by
  obtain ⟨a1, a2, a3⟩ := a
  obtain ⟨b1, b2, b3⟩ := b
  simp only [compCmp, lexPair, Ordering.then_eq_eq, natCmp, Nat.compare_eq_eq] at h
  rw [h.1, strCmp_eq_eq _ _ h.2.1, h.2.2]

theorem sufCmp_eq_eq (a b : Suf) (h : sufCmp a b = .eq) : a = b := by
  obtain ⟨a1, a2⟩ := a
  obtain ⟨b1, b2⟩ := b
  simp only [sufCmp, lexPair, Ordering.then_eq_eq, natCmp, intCmp, Nat.compare_eq_eq,
    Int.compare_eq_eq] at h
  rw [h.1, h.2]

/-! #### `int` is injective on digit strings without a leading zero -/

theorem digit_bounds {c : Char} (h : c.isDigit = true) : 48 ≤ c.toNat ∧ c.toNat ≤ 57 := by
  simp only [Char.isDigit, Bool.and_eq_true, decide_eq_true_eq] at h
  have h1 := h.1
  have h2 := h.2
  simp only [UInt32.le_iff_toNat_le] at h1 h2
  simp only [Char.toNat] at *
  simp at h1 h2 ⊢
  omega

/-- the value of a digit string read from its last character -/
def natR : List Char → Nat
  | [] => 0
  | c :: r => 10 * natR r + (c.toNat - '0'.toNat)

theorem natR_eq (l : List Char) : natR l = natOfDigits l.reverse := by
  induction l with
  | nil => rfl
  | cons c r ih =>
    simp only [natR, ih, natOfDigits, List.reverse_cons, List.foldl_append, List.foldl_cons,
      List.foldl_nil]

/-- a reversed digit string whose first digit (the last element) is not `0` -/
def QR (l : List Char) : Prop := (∀ c ∈ l, c.isDigit = true) ∧ l.getLast? ≠ some '0'

theorem QR_tail (c : Char) (r : List Char) (h : QR (c :: r)) : QR r := by
  refine ⟨fun x hx => h.1 x (by simp [hx]), ?_⟩
  cases r with
  | nil => simp
  | cons d ds => simpa [List.getLast?_cons_cons] using h.2

theorem natR_pos (l : List Char) (h : QR l) (hne : l ≠ []) : 0 < natR l := by
  induction l with
  | nil => exact absurd rfl hne
  | cons c r ih =>
    cases r with
    | nil =>
      have hd := h.1 c (by simp)
      have h0 : c ≠ '0' := by
        intro hc; subst hc; exact h.2 (by simp)
      have hlt := digit_ne_zero_gt hd h0
      simp only [charCmp, Nat.compare_eq_lt] at hlt
      simp only [natR]
      omega
    | cons d ds =>
      have := ih (QR_tail c (d :: ds) h) (by simp)
      simp only [natR] at this ⊢
      omega

theorem natR_inj (l1 : List Char) : ∀ l2 : List Char, QR l1 → QR l2 → natR l1 = natR l2 → l1 = l2 := by
  induction l1 with
  | nil =>
    intro l2 _ h2 h
    cases l2 with
    | nil => rfl
    | cons c r =>
      have := natR_pos (c :: r) h2 (by simp)
      simp only [natR] at h this
      omega
  | cons c1 r1 ih =>
    intro l2 h1 h2 h
    cases l2 with
    | nil =>
      have := natR_pos (c1 :: r1) h1 (by simp)
      simp only [natR] at h this
      omega
    | cons c2 r2 =>
      have b1 := digit_bounds (h1.1 c1 (by simp))
      have b2 := digit_bounds (h2.1 c2 (by simp))
      simp only [natR] at h
      have hz : '0'.toNat = 48 := by decide
      rw [hz] at h
      have hr : natR r1 = natR r2 := by omega
      have hc : c1.toNat = c2.toNat := by omega
      rw [Char.toNat_inj.1 hc, ih r2 (QR_tail c1 r1 h1) (QR_tail c2 r2 h2) hr]

theorem natOfDigits_inj (s t : List Char) (hs : ∀ c ∈ s, c.isDigit = true)
    (ht : ∀ c ∈ t, c.isDigit = true) (zs : s.head? ≠ some '0') (zt : t.head? ≠ some '0')
    (h : natOfDigits s = natOfDigits t) : s = t := by
  have e1 := natR_eq s.reverse
  have e2 := natR_eq t.reverse
  simp only [List.reverse_reverse] at e1 e2
  have q1 : QR s.reverse := ⟨fun c hc => hs c (by simpa using hc), by simpa using zs⟩
  have q2 : QR t.reverse := ⟨fun c hc => ht c (by simpa using hc), by simpa using zt⟩
  have := natR_inj _ _ q1 q2 (by rw [e1, e2, h])
  exact List.reverse_inj.1 this

theorem compKey_hash (c1 c2 : List Char) (h1 : DigitStr c1) (h2 : DigitStr c2)
    (h : compKey c1 = compKey c2) : hashComp c1 = hashComp c2 := by
  by_cases z1 : c1.head? = some '0' <;> by_cases z2 : c2.head? = some '0'
  · simp only [compKey, z1, z2, beq_self_eq_true, if_true, Prod.mk.injEq] at h
    simp [hashComp, z1, z2, h.2.1]
  · simp [compKey, z1, z2] at h
  · simp [compKey, z1, z2] at h
  · simp only [compKey, z1, z2, beq_iff_eq, if_false, Prod.mk.injEq] at h
    simp only [hashComp, beq_iff_eq, z1, z2, if_false]
    exact natOfDigits_inj c1 c2 h1.2 h2.2 z1 z2 h.2.2

theorem map_compKey_hash (l1 : List (List Char)) : ∀ l2 : List (List Char),
    (∀ v ∈ l1, DigitStr v) → (∀ v ∈ l2, DigitStr v) →
    l1.map compKey = l2.map compKey → l1.map hashComp = l2.map hashComp := by
  induction l1 with
  | nil => intro l2 _ _ h; cases l2 <;> simp_all
  | cons x xs ih =>
    intro l2 h1 h2 h
    cases l2 with
    | nil => simp at h
    | cons y ys =>
      simp only [List.map_cons, List.cons.injEq] at h ⊢
      exact ⟨compKey_hash x y (h1 x (by simp)) (h2 y (by simp)) h.1,
        ih ys (fun v hv => h1 v (by simp [hv])) (fun v hv => h2 v (by simp [hv])) h.2⟩

/-! #### the letter: off the dotted string (`get_hash_key`) or off the last component (`vercmp`) -/

/-- `ord(letter)` or `-1`, read on the whole dotted string -/
def letterInt (h : List Char) : Int :=
  match h.getLast? with
  | some c => if c.isAlpha then c.toNat else -1
  | none => -1

theorem splitLetter_cons (c d : Char) (ds : List Char) :
    (splitLetter (c :: d :: ds)).2 = c :: (splitLetter (d :: ds)).2
    ∧ (splitLetter (c :: d :: ds)).1 = (splitLetter (d :: ds)).1
    ∧ letterInt (c :: d :: ds) = letterInt (d :: ds) := by
  simp only [splitLetter, letterInt, List.getLast?_cons_cons, List.dropLast_cons_cons]
  cases (d :: ds).getLast? with
  | none => simp
  | some x => by_cases hx : x.isAlpha = true <;> simp [hx]

theorem splitOn_nil_nil (sep : Char) (s : List Char) (h : splitOn sep s = ([], [])) : s = [] := by
  cases s with
  | nil => rfl
  | cons c cs =>
    simp only [splitOn] at h
    by_cases hc : (c == sep) = true <;> simp [hc] at h

theorem splitOn_cons (sep c : Char) (cs : List Char) :
    splitOn sep (c :: cs) = if (c == sep) = true then ([], (splitOn sep cs).1 :: (splitOn sep cs).2)
      else (c :: (splitOn sep cs).1, (splitOn sep cs).2) := rfl

theorem stripLetter_cons_cons (x y : List Char) (ys : List (List Char)) :
    stripLetter (x :: y :: ys) = (x :: (stripLetter (y :: ys)).1, (stripLetter (y :: ys)).2) := by
  simp [stripLetter]

theorem stripLetter_single (x : List Char) :
    stripLetter [x] = ([(splitLetter x).2], letterInt x) := by
  simp only [stripLetter, splitLetter, letterInt]
  cases x.getLast? with
  | none => simp
  | some c => by_cases hc : c.isAlpha = true <;> simp [hc]

/-- taking the letter off the last dotted component, or off the dotted string before splitting
it, is the same -/
theorem stripLetter_splitList (h : List Char) :
    stripLetter (splitList '.' h) = (splitList '.' (splitLetter h).2, letterInt h) := by
  induction h with
  | nil => simp [splitList, splitOn, stripLetter, splitLetter, letterInt]
  | cons c cs ih =>
    cases cs with
    | nil =>
      by_cases hc : (c == '.') = true
      · have : c = '.' := by simpa using hc
        subst this
        simp [splitList, splitOn, stripLetter, splitLetter, letterInt]
      · have hc' : (c == '.') = false := by simpa using hc
        by_cases ha : c.isAlpha = true <;>
          simp [splitList, splitOn, stripLetter, splitLetter, letterInt, hc', ha]
    | cons d ds =>
      obtain ⟨e1, _, e3⟩ := splitLetter_cons c d ds
      rw [e1, e3]
      simp only [splitList] at ih ⊢
      generalize hb : (splitLetter (d :: ds)).2 = body at ih ⊢
      rw [splitOn_cons '.' c (d :: ds), splitOn_cons '.' c body]
      generalize hx : splitOn '.' (d :: ds) = X at ih ⊢
      generalize hy : splitOn '.' body = Y at ih ⊢
      obtain ⟨x, xs⟩ := X
      obtain ⟨y, ys⟩ := Y
      simp only at ih ⊢
      by_cases hc : (c == '.') = true
      · simp only [hc, if_true, stripLetter_cons_cons, ih]
      · have hc' : (c == '.') = false := by simpa using hc
        simp only [hc', Bool.false_eq_true, if_false]
        cases xs with
        | cons z zs =>
          rw [stripLetter_cons_cons] at ih ⊢
          simp only [Prod.mk.injEq, List.cons.injEq] at ih
          obtain ⟨⟨i1, i2⟩, i3⟩ := ih
          simp [i1, i2, i3]
        | nil =>
          have hxne : x ≠ [] := by
            intro hx0
            subst hx0
            exact absurd (splitOn_nil_nil '.' (d :: ds) hx) (by simp)
          cases x with
          | nil => exact absurd rfl hxne
          | cons e es =>
            rw [stripLetter_single] at ih ⊢
            obtain ⟨f1, _, f3⟩ := splitLetter_cons c e es
            rw [f1, f3]
            simp only [Prod.mk.injEq, List.cons.injEq] at ih
            obtain ⟨⟨i1, i2⟩, i3⟩ := ih
            subst i2
            simp [i1, i3]

theorem letter_of_int (h1 h2 : List Char) (h : letterInt h1 = letterInt h2) :
    (splitLetter h1).1 = (splitLetter h2).1 := by
  have enc : ∀ x : List Char, letterInt x = -1 ∧ (splitLetter x).1 = []
      ∨ ∃ c : Char, letterInt x = (c.toNat : Int) ∧ (splitLetter x).1 = [c] := by
    intro x
    simp only [letterInt, splitLetter]
    cases x.getLast? with
    | none => simp
    | some c =>
      by_cases hc : c.isAlpha = true
      · right; exact ⟨c, by simp [hc]⟩
      · left; simp [hc]
  rcases enc h1 with ⟨a1, b1⟩ | ⟨c1, a1, b1⟩ <;> rcases enc h2 with ⟨a2, b2⟩ | ⟨c2, a2, b2⟩
  · rw [b1, b2]
  · rw [a1, a2] at h; omega
  · rw [a1, a2] at h; omega
  · rw [a1, a2] at h
    have : c1.toNat = c2.toNat := by omega
    rw [b1, b2, Char.toNat_inj.1 this]

/-! #### the suffixes -/

theorem sufNames_inj : ∀ e1 ∈ sufNames, ∀ e2 ∈ sufNames, e1.2 = e2.2 → e1.1 = e2.1 := by decide

theorem hashSuf_of_key (p q : List Char) (hp : SufOK p) (hq : SufOK q) (h : sufKey p = sufKey q) :
    hashSuf p = hashSuf q ∧ (hashSuf p).isSome = true := by
  obtain ⟨n1, v1, d1, m1⟩ := sufOK_matchIn p hp
  obtain ⟨n2, v2, d2, m2⟩ := sufOK_matchIn q hq
  obtain ⟨k1, _, t1⟩ := sufMatchIn_some sufNames sufNames_ok p n1 v1 d1 m1
  obtain ⟨k2, _, t2⟩ := sufMatchIn_some sufNames sufNames_ok q n2 v2 d2 m2
  rw [k1, k2] at h
  simp only [Prod.mk.injEq] at h
  have hn : n1 = n2 := sufNames_inj _ t1 _ t2 h.1
  simp [hashSuf, m1, m2, natOfDigits_zero_cons, hn, h.2]

theorem map_sufKey_hash (l1 : List (List Char)) : ∀ l2 : List (List Char),
    (∀ p ∈ l1, SufOK p) → (∀ p ∈ l2, SufOK p) →
    l1.map sufKey = l2.map sufKey → l1.filterMap hashSuf = l2.filterMap hashSuf := by
  induction l1 with
  | nil => intro l2 _ _ h; cases l2 <;> simp_all
  | cons x xs ih =>
    intro l2 h1 h2 h
    cases l2 with
    | nil => simp at h
    | cons y ys =>
      simp only [List.map_cons, List.cons.injEq] at h
      obtain ⟨e, hs⟩ := hashSuf_of_key x y (h1 x (by simp)) (h2 y (by simp)) h.1
      have ih' := ih ys (fun v hv => h1 v (by simp [hv])) (fun v hv => h2 v (by simp [hv])) h.2
      cases hx : hashSuf x with
      | none => simp [hx] at hs
      | some v =>
        rw [List.filterMap_cons_some hx, List.filterMap_cons_some (e ▸ hx), ih']

theorem sufKey_ne_pad (l : List (List Char)) (hl : ∀ p ∈ l, SufOK p) :
    (∀ x ∈ l.map sufKey, sufCmp x Suf.pad ≠ .eq) ∧ (∀ x ∈ l.map sufKey, sufCmp Suf.pad x ≠ .eq) := by
  constructor <;>
  · intro x hx h
    simp only [List.mem_map] at hx
    obtain ⟨p, hp, rfl⟩ := hx
    have h0 := (suf_eq_sufKey p (hl p hp)).2
    have := sufCmp_eq_eq _ _ h
    simp only [Suf.pad] at this
    first
      | exact h0 (by rw [this])
      | exact h0 (by rw [← this])

/-- C12: on valid versions `==` implies equal hash keys -/
theorem eq_imp_hash (a b : Raw) (ha : Valid a) (hb : Valid b) :
    verOps.eq a b = true → hashKey a = hashKey b := by
  intro h
  have hv : vercmp a b = .eq := by simpa [verOps] using h
  rw [vercmp_eq_keyC a b ha hb] at hv
  have hca := valid_comps a ha
  have hcb := valid_comps b hb
  have hsa := valid_sufs a ha
  have hsb := valid_sufs b hb
  simp only [pieces] at hca hcb hsa hsb
  simp only [keyCmpC, keyC, pieces, lexPair, Ordering.then_eq_eq, natCmp, intCmp,
    Nat.compare_eq_eq, Int.compare_eq_eq] at hv
  obtain ⟨h1, h2, h3, h4⟩ := hv
  have e1 := lexList_eq_eq compCmp compCmp_eq_eq _ _ h1
  have e3 := padLex_eq_eq sufCmp Suf.pad sufCmp_eq_eq _ _ (sufKey_ne_pad _ hsa).1
    (sufKey_ne_pad _ hsb).2 h3
  have sa := stripLetter_splitList (splitOn '_' (parseVR a).1).1
  have sb := stripLetter_splitList (splitOn '_' (parseVR b).1).1
  rw [sa] at hca e1 h2
  rw [sb] at hcb e1 h2
  simp only at hca hcb e1 h2
  simp only [hashKey, map_compKey_hash _ _ hca hcb e1, letter_of_int _ _ h2,
    map_sufKey_hash _ _ hsa hsb e3, h4]

theorem hashable_true : hashable = true := rfl

/-- the examples of the docstring of `get_hash_key` -/
example : hashKey "1.0".toList = hashKey "1.00".toList
    ∧ hashKey "1.2b_p-r0".toList = hashKey "1.2b_p0".toList
    ∧ (hashKey "1.10".toList).1 ≠ (hashKey "1.1".toList).1 := ⟨by rfl, by rfl, by decide⟩

/-! ### construction and `str` (C11) -/

/-- what the constructors establish for the value -/
def WellFormed (r : Raw) : Prop :=
  Valid r ∧ (∀ c ∈ r, isWs c = false) ∧ (∀ c, r.head? = some c → isV c = false)

instance (r : Raw) : Decidable (WellFormed r) := by
  unfold WellFormed; cases r <;> infer_instance

theorem normalize_noWs (s : List Char) : ∀ c ∈ normalize s, isWs c = false := by
  intro c hc
  have := (List.dropWhile_sublist isV).subset hc
  simp only [removeSpaces, List.mem_filter] at this
  simpa using this.2

theorem removeSpaces_of_noWs (r : List Char) (h : ∀ c ∈ r, isWs c = false) : removeSpaces r = r := by
  simp only [removeSpaces]
  exact List.filter_eq_self.2 (fun c hc => by simp [h c hc])

theorem normalize_head (s : List Char) : ∀ c, (normalize s).head? = some c → isV c = false := by
  intro c hc
  simp only [normalize] at hc
  have := List.head?_dropWhile_not isV (removeSpaces s)
  rw [hc] at this
  exact this

theorem construct_wf (s : List Char) (r : Raw) (h : construct s = .ok r) : WellFormed r := by
  simp only [construct] at h
  by_cases hv : isValid (normalize s) = true
  · simp only [hv, if_true, Except.ok.injEq] at h
    subst h
    refine ⟨?_, normalize_noWs s, normalize_head s⟩
    simpa [Valid, isValid, removeSpaces_of_noWs _ (normalize_noWs s)] using hv
  · simp [hv] at h

theorem constructAlpine_wf (s : List Char) (r : Raw) (h : constructAlpine s = .ok r) :
    WellFormed r ∧ isValidAlpine r = true := by
  simp only [constructAlpine] at h
  by_cases hv : (isValidAlpine (normalize s) && isValid (normalize s)) = true
  · simp only [hv, if_true, Except.ok.injEq] at h
    subst h
    simp only [Bool.and_eq_true] at hv
    refine ⟨⟨?_, normalize_noWs s, normalize_head s⟩, hv.1⟩
    simpa [Valid, isValid, removeSpaces_of_noWs _ (normalize_noWs s)] using hv.2
  · simp [hv] at h

/-- every Alpine version is a Gentoo version with the same value -/
theorem constructAlpine_construct (s : List Char) (r : Raw) (h : constructAlpine s = .ok r) :
    construct s = .ok r := by
  simp only [constructAlpine] at h
  by_cases hv : (isValidAlpine (normalize s) && isValid (normalize s)) = true
  · simp only [hv, if_true, Except.ok.injEq] at h
    simp only [Bool.and_eq_true] at hv
    subst h
    simp [construct, hv.2]
  · simp [hv] at h

theorem normalize_of_wf (r : Raw) (h : WellFormed r) : normalize r = r := by
  obtain ⟨_, hws, hv⟩ := h
  simp only [normalize, removeSpaces_of_noWs r hws]
  cases r with
  | nil => rfl
  | cons c cs => simp [List.dropWhile, hv c rfl]

/-- C11: `GentooVersion(str(v))` rebuilds the same value -/
theorem str_roundtrip (r : Raw) (h : WellFormed r) : construct (str r) = .ok r := by
  have hn := normalize_of_wf r h
  have hv : isValid r = true := by
    simpa [Valid, isValid, removeSpaces_of_noWs r h.2.1] using h.1
  simp [construct, str, hn, hv]

/-- C11 for `AlpineLinuxVersion` -/
theorem str_roundtrip_alpine (r : Raw) (h : WellFormed r) (ha : isValidAlpine r = true) :
    constructAlpine (str r) = .ok r := by
  have hn := normalize_of_wf r h
  have hv : isValid r = true := by
    simpa [Valid, isValid, removeSpaces_of_noWs r h.2.1] using h.1
  simp [constructAlpine, str, hn, hv, ha]

/-- `is_valid` lets anything follow the revision, and `vercmp` ignores it:
`GentooVersion("1.0-r1abc")` is accepted and `== GentooVersion("1.0-r1")` -/
theorem trailing_garbage_accepted :
    construct "1.0-r1abc".toList = .ok "1.0-r1abc".toList
    ∧ verOps.eq "1.0-r1abc".toList "1.0-r1".toList = true
    ∧ verOps.eq "1.0-r1_p1".toList "1.0-r1".toList = true := by
  refine ⟨by rfl, by decide, by decide⟩

/-! ### examples of the PMS order, read on the key -/

section
private def kc (a b : String) : Ordering := keyCmp (key a.toList) (key b.toList)
private def okPair (a b : String) : Prop :=
  Valid a.toList ∧ Valid b.toList ∧ FirstOK a.toList = true ∧ FirstOK b.toList = true
private instance (a b : String) : Decidable (okPair a b) := by unfold okPair; infer_instance
private theorem kc_eq (a b : String) (h : okPair a b) : kc a b = vercmp a.toList b.toList :=
  (vercmp_eq_key_partial _ _ h.1 h.2.1 h.2.2.1 h.2.2.2).symm

example : [kc "1.0_alpha" "1.0_beta", kc "1.0_beta" "1.0_pre", kc "1.0_pre" "1.0_rc",
    kc "1.0_rc" "1.0", kc "1.0" "1.0_p", kc "1.0_p" "1.0_p1", kc "1.0" "1.0a", kc "1.0a" "1.0b",
    kc "1.0z" "1.0.1", kc "1.02" "1.1", kc "1.1" "1.10", kc "1.0" "1.0-r1", kc "1.0_rc1" "1.0_rc1_p1",
    kc "1.0_p1_rc1" "1.0_p1", kc "0.9" "1"]
    = List.replicate 15 .lt := by
  rw [kc_eq _ _ (by decide), kc_eq _ _ (by decide), kc_eq _ _ (by decide), kc_eq _ _ (by decide),
    kc_eq _ _ (by decide), kc_eq _ _ (by decide), kc_eq _ _ (by decide), kc_eq _ _ (by decide),
    kc_eq _ _ (by decide), kc_eq _ _ (by decide), kc_eq _ _ (by decide), kc_eq _ _ (by decide),
    kc_eq _ _ (by decide), kc_eq _ _ (by decide), kc_eq _ _ (by decide)]
  decide
example : [kc "1.010" "1.01", kc "1.0" "1.0-r0", kc "1_p" "1_p0", kc "1.0" "1.00"]
    = List.replicate 4 .eq := by
  rw [kc_eq _ _ (by decide), kc_eq _ _ (by decide), kc_eq _ _ (by decide), kc_eq _ _ (by decide)]
  decide
end

end Univers.Gentoo

section AxiomAudit
open Univers.Gentoo
#print axioms vercmp_eq_keyC
#print axioms vercmp_isLE_trans
#print axioms vercmp_eq_key_partial
#print axioms vercmp_eq_key_counterexample
#print axioms vercmp_eq_key_counterexample_alpine
#print axioms verOps_lawful
#print axioms eq_imp_hash
#print axioms stripLetter_splitList
#print axioms str_roundtrip
#print axioms str_roundtrip_alpine
#print axioms construct_wf
#print axioms constructAlpine_wf
#print axioms trailing_garbage_accepted
end AxiomAudit
