/-
Layer A model of `univers.versions.PypiVersion`, i.e. of `packaging.version.Version` (packaging
26.3 as installed) behind the `univers.versions.Version` base class:

* `Version.normalize`  = `remove_spaces(string).lstrip("vV")`,
* `PypiVersion.is_valid` / `build_value` = `packaging.version.Version(string)`
  (`InvalidVersion` ↦ univers `InvalidVersion`),
* `packaging.version.Version.__init__`: the digits-and-dots fast path, else the regex
  `\s*VERSION_PATTERN\s*` (possessive variant, `re.VERBOSE | re.IGNORECASE`, `fullmatch`),
  `_parse_letter_version`, `_parse_local_version`,
* `_cmpkey` (flat key `(epoch, trimmed release, 6-int suffix[, local])`), the six comparisons
  of `Version` (tuple rich comparison of the keys), `__hash__` (= `hash(key)`), `__str__`,
* the `attrs`-generated operators of `univers.versions.Version` on the single field `value`.

Numbers are unbounded `Nat`/`Int` (CPython's 4300-digit `int()` limit is out of scope).
ASCII only.
-/
import Univers.Basic.PadLex
import Univers.Vers.Model
import Univers.Py.Attrs

namespace Univers.Pypi

open Univers

/-! ### values -/

/-- normalised pre-release letter: `_pre[0] ∈ {"a", "b", "rc"}` -/
inductive PreL where
  | a | b | rc
  deriving DecidableEq, Repr

/-- one element of `_local`: `int` for an all-digit part, else the lower-cased text -/
inductive LSeg where
  | num (n : Nat)
  | str (s : List Char)
  deriving DecidableEq, Repr

/-- The state of a `packaging.version.Version`:
`_epoch`, `_release`, `_pre = (letter, n) | None`, `_post = ("post", n) | None`,
`_dev = ("dev", n) | None`, `_local = tuple | None`.  (The first component of `_post` and of
`_dev` is the constant the letter normalises to, so only the number is kept.) -/
structure Raw where
  epoch : Nat
  release : List Nat
  pre : Option (PreL × Nat)
  post : Option Nat
  dev : Option Nat
  loc : Option (List LSeg)
  deriving DecidableEq, Repr

inductive PErr where
  | invalid
  | other (name : String)
  deriving DecidableEq, Repr

/-! ### characters -/

/-- `str.isspace` on ASCII = what `str.split()` splits on = `\s` of a `str` pattern:
TAB LF VT FF CR, FS GS RS US, SPACE -/
def isSpace (c : Char) : Bool :=
  (9 ≤ c.toNat && c.toNat ≤ 13) || (28 ≤ c.toNat && c.toNat ≤ 32)

/-- `[._-]` -/
def isSep (c : Char) : Bool := c == '.' || c == '-' || c == '_'

/-- `[a-z0-9]` under `re.IGNORECASE` in ASCII mode -/
def isAlnum (c : Char) : Bool := c.isAlphanum

/-- `int(s)` for a string of ASCII digits (also `int(s or 0)`: the empty string gives 0) -/
def pyInt (ds : List Char) : Nat := Nat.ofDigitChars 10 ds 0

/-- `str(n)` -/
def natStr (n : Nat) : List Char := Nat.toDigits 10 n

/-! ### `Version.normalize` -/

/-- `"".join(string.split())` -/
def removeSpaces (s : List Char) : List Char := s.filter (fun c => !isSpace c)

/-- `.lstrip("vV")` -/
def lstripV (s : List Char) : List Char := s.dropWhile (fun c => c == 'v' || c == 'V')

def normalize (s : List Char) : List Char := lstripV (removeSpaces s)

/-! ### the regex, piece by piece

The installed pattern uses possessive quantifiers (`?+`, `*+`) on Python ≥ 3.11.5, so every
group, once matched, is never re-entered: the recogniser is deterministic, left to right.
(The two non-possessive `[._-]?` of the second `post` alternative and the plain `N?` behave
the same, because they sit inside the possessive `(?P<post>…)?+` and their first, greedy
choice never makes the rest of that group fail.) -/

/-- a literal of the pattern (lower case) against the text, `re.IGNORECASE` -/
def litCI : List Char → List Char → Option (List Char)
  | [], s => some s
  | _ :: _, [] => none
  | p :: ps, c :: cs => if c.toLower == p then litCI ps cs else none

/-- an alternation of literals `l1|l2|…`: the first one that matches wins; returns the
alternative and the rest of the text -/
def firstAlt : List (List Char) → List Char → Option (List Char × List Char)
  | [], _ => none
  | p :: ps, s =>
    match litCI p s with
    | some r => some (p, r)
    | none => firstAlt ps s

/-- `[._-]?+` -/
def optSep : List Char → List Char
  | [] => []
  | c :: r => if isSep c then r else c :: r

/-- `[0-9]*` greedy: (digits, rest) -/
def digits (s : List Char) : List Char × List Char := (s.takeWhile Char.isDigit, s.dropWhile Char.isDigit)

/-- `(?: SEP BODY+ )*+` — used for `(?:\.[0-9]+)*+` and `(?:[._-][a-z0-9]+)*+`.
Returns the BODY runs and the rest of the text. -/
def sepRuns (sep body : Char → Bool) : List Char → List (List Char) × List Char
  | [] => ([], [])
  | c :: r =>
    if sep c then
      match r.takeWhile body with
      | [] => ([], c :: r)
      | x :: xs =>
        let res := sepRuns sep body (r.dropWhile body)
        ((x :: xs) :: res.1, res.2)
    else ([], c :: r)
termination_by s => s.length
decreasing_by
  have := (List.dropWhile_sublist body (l := r)).length_le
  simp only [List.length_cons]; omega

/-- the alternatives of `pre_l`, in the order of the pattern -/
def preLits : List (List Char) :=
  ["alpha".toList, "a".toList, "beta".toList, "b".toList, "preview".toList, "pre".toList,
   "c".toList, "rc".toList]

def postLits : List (List Char) := ["post".toList, "rev".toList, "r".toList]

def devLits : List (List Char) := ["dev".toList]

/-- `_LETTER_NORMALIZATION.get(letter.lower(), letter.lower())` restricted to the `pre_l`
alternatives: alpha, a ↦ a; beta, b ↦ b; c, pre, preview, rc ↦ rc -/
def preOfLit (l : List Char) : PreL :=
  if l == "alpha".toList || l == "a".toList then .a
  else if l == "beta".toList || l == "b".toList then .b
  else .rc

/-- `[._-]?+ (?P<l>lits) [._-]?+ (?P<n>[0-9]+)?` as a possessive optional group:
`some (literal, digits)` and the rest, or `none` and the text untouched.  The value is
what `_parse_letter_version(l, n)` needs. -/
def letterGroup (lits : List (List Char)) (s : List Char) :
    Option (List Char × List Char) × List Char :=
  match firstAlt lits (optSep s) with
  | none => (none, s)
  | some (l, r) =>
    let d := digits (optSep r)
    (some (l, d.1), d.2)

/-- `(?P<post> (?:-(?P<post_n1>[0-9]+)) | (?: [._-]? (?P<post_l>post|rev|r) [._-]? (?P<post_n2>[0-9]+)? ) )?+`
followed by `_parse_letter_version(post_l, post_n1 or post_n2)`: the post number. -/
def postGroup (s : List Char) : Option Nat × List Char :=
  let alt2 : Option Nat × List Char :=
    match letterGroup postLits s with
    | (some (_, n), r) => (some (pyInt n), r)      -- ("post", int(number or 0))
    | (none, r) => (none, r)
  match s with
  | '-' :: r =>
    match (digits r).1 with
    | [] => alt2
    | d :: ds => (some (pyInt (d :: ds)), (digits r).2)   -- letter None, number given: ("post", int(number))
  | _ => alt2

/-- `_parse_local_version`: one part -/
def localSeg (part : List Char) : LSeg :=
  if part.all Char.isDigit then .num (pyInt part) else .str (part.map Char.toLower)

/-- `(?a:\+(?P<local>[a-z0-9]+(?:[._-][a-z0-9]+)*+))?+` followed by `_parse_local_version`
(the split on `[._-]` gives back exactly the runs) -/
def localGroup : List Char → Option (List LSeg) × List Char
  | '+' :: r =>
    match r.takeWhile isAlnum with
    | [] => (none, '+' :: r)
    | x :: xs =>
      let res := sepRuns isSep isAlnum (r.dropWhile isAlnum)
      (some (((x :: xs) :: res.1).map localSeg), res.2)
  | s => (none, s)

/-- the pattern from the release segment on (release, `pre`, `post`, `dev`, `local`, `\s*` and
the end of the text), and the assignments that follow the match in `Version.__init__` -/
def regexRest (epoch : Nat) (s : List Char) : Option Raw :=
  let r0 := digits s                                              -- [0-9]+
  if r0.1.isEmpty then none
  else
    let rt := sepRuns (· == '.') Char.isDigit r0.2                -- (?:\.[0-9]+)*+
    let release := (r0.1 :: rt.1).map pyInt                       -- tuple(map(int, release.split(".")))
    let pre := letterGroup preLits rt.2
    let post := postGroup pre.2
    let dev := letterGroup devLits post.2
    let loc := localGroup dev.2
    if (loc.2.dropWhile isSpace).isEmpty then                     -- \s* and the end
      some { epoch := epoch, release := release,
             pre := pre.1.map (fun p => (preOfLit p.1, pyInt p.2)),
             post := post.1,
             dev := dev.1.map (fun p => pyInt p.2),
             loc := loc.1 }
    else none

/-- the pattern from the epoch on: `(?:(?P<epoch>[0-9]+)!)?+` then the rest -/
def regexBody (s : List Char) : Option Raw :=
  let e := digits s
  let hasEpoch := !e.1.isEmpty && e.2.head? == some '!'
  if hasEpoch then regexRest (pyInt e.1) e.2.tail                 -- int(match.group("epoch"))
  else regexRest 0 s

/-- `v?+` (IGNORECASE) -/
def optV : List Char → List Char
  | [] => []
  | c :: r => if c.toLower == 'v' then r else c :: r

/-- `Version._regex.fullmatch(version)`, `_regex = \s* VERSION_PATTERN \s*` -/
def regexParse (s0 : List Char) : Option Raw :=
  regexBody (optV (s0.dropWhile isSpace))

/-- `str.split(d)` for a one-character separator -/
def splitOnChar (d : Char) : List Char → List (List Char)
  | [] => [[]]
  | c :: cs =>
    if c == d then [] :: splitOnChar d cs
    else match splitOnChar d cs with
      | p :: ps => (c :: p) :: ps
      | [] => [[c]]

/-- `packaging.version.Version(version)`; `none` = `InvalidVersion` -/
def pkgVersion (s : List Char) : Option Raw :=
  if s.all (fun c => c == '.' || c.isDigit) then                  -- _SIMPLE_VERSION_INDICATORS.issuperset
    let parts := splitOnChar '.' s
    if parts.any List.isEmpty then none                           -- int("") → ValueError → InvalidVersion
    else some { epoch := 0, release := parts.map pyInt, pre := none, post := none, dev := none,
                loc := none }
  else regexParse s

/-- `PypiVersion(string)` -/
def construct (s : List Char) : Except PErr Raw :=
  match pkgVersion (normalize s) with
  | some r => .ok r
  | none => .error .invalid

/-! ### `__str__` -/

def PreL.text : PreL → List Char
  | .a => ['a'] | .b => ['b'] | .rc => ['r', 'c']

def LSeg.text : LSeg → List Char
  | .num n => natStr n
  | .str s => s

/-- `sep.join(parts)` -/
def join (sep : List Char) : List (List Char) → List Char
  | [] => []
  | [x] => x
  | x :: y :: ys => x ++ sep ++ join sep (y :: ys)

/-- `Version.__str__` (= `str(PypiVersion)`) -/
def str (r : Raw) : List Char :=
  let version := join ['.'] (r.release.map natStr)
  let version := if r.epoch != 0 then natStr r.epoch ++ ['!'] ++ version else version
  let version := match r.pre with
    | some (l, n) => version ++ l.text ++ natStr n
    | none => version
  let version := match r.post with
    | some n => version ++ ".post".toList ++ natStr n
    | none => version
  let version := match r.dev with
    | some n => version ++ ".dev".toList ++ natStr n
    | none => version
  match r.loc with                                                -- `if self._local:` (non-empty)
  | some (x :: xs) => version ++ ['+'] ++ join ['.'] ((x :: xs).map LSeg.text)
  | _ => version

/-! ### `_cmpkey` -/

/-- the key tuple: `(epoch, trimmed, suffix)` when `loc = none`, else
`(epoch, trimmed, suffix, cmp_local)` -/
structure CKey where
  epoch : Nat
  release : List Nat
  suffix : List Int
  loc : Option (List (Int × List Char))
  deriving DecidableEq, Repr

/-- `i = len(release); while i and release[i - 1] == 0: i -= 1` -/
def trimIdx (release : List Nat) : Nat → Nat
  | 0 => 0
  | i + 1 => if release.getD i 1 == 0 then trimIdx release i else i + 1

/-- `release if i == len_release else release[:i]` -/
def trimmed (release : List Nat) : List Nat := release.take (trimIdx release release.length)

/-- `_PRE_RANK` -/
def PreL.rank : PreL → Int
  | .a => 0 | .b => 1 | .rc => 2

def stableSuffix : List Int := [3, 0, 0, 0, 1, 0]

def cmpLocalSeg : LSeg → Int × List Char
  | .num n => (n, [])          -- (seg, "")
  | .str s => (-1, s)          -- (_LOCAL_STR_RANK, seg)

def cmpkey (r : Raw) : CKey :=
  let trimmed := trimmed r.release
  if r.pre.isNone && r.post.isNone && r.dev.isNone && r.loc.isNone then
    { epoch := r.epoch, release := trimmed, suffix := stableSuffix, loc := none }
  else
    let pre : Int × Int :=
      if r.pre.isNone && r.post.isNone && r.dev.isSome then (-1, 0)
      else match r.pre with
        | none => (3, 0)
        | some (l, n) => (l.rank, n)
    let postRank : Int := if r.post.isNone then 0 else 1
    let postN : Int := match r.post with | none => 0 | some n => n
    let devRank : Int := if r.dev.isNone then 1 else 0
    let devN : Int := match r.dev with | none => 0 | some n => n
    let suffix := [pre.1, pre.2, postRank, postN, devRank, devN]
    match r.loc with
    | none => { epoch := r.epoch, release := trimmed, suffix := suffix, loc := none }
    | some l => { epoch := r.epoch, release := trimmed, suffix := suffix, loc := some (l.map cmpLocalSeg) }

/-! ### Python comparison of the keys

`tuple_richcompare(v, w, op)`: skip the longest common prefix of items that are `==`; if one
tuple is exhausted the operator is applied to the lengths, else to the first differing items. -/

/-- `op` applied to two objects whose three-way comparison is known (ints, lengths) -/
def ordOp : Cmpr → Ordering → Bool
  | .lt, o => o == .lt
  | .le, o => o != .gt
  | .gt, o => o == .gt
  | .ge, o => o != .lt
  | .eq, o => o == .eq
  | .ne, o => o != .eq

/-- rich comparison of two homogeneous tuples, given `==` and the six operators of the items -/
def tupOp {α : Type} (eq : α → α → Bool) (op : Cmpr → α → α → Bool) (c : Cmpr) :
    List α → List α → Bool
  | [], [] => ordOp c .eq
  | [], _ :: _ => ordOp c .lt
  | _ :: _, [] => ordOp c .gt
  | x :: xs, y :: ys => if eq x y then tupOp eq op c xs ys else op c x y

def natOp (c : Cmpr) (a b : Nat) : Bool := ordOp c (compare a b)
def intOp (c : Cmpr) (a b : Int) : Bool := ordOp c (compare a b)

/-- `str` rich comparison: code points, lexicographic -/
def strCmp : List Char → List Char → Ordering := lexList compare
def strOp (c : Cmpr) (a b : List Char) : Bool := ordOp c (strCmp a b)

/-- the 2-tuples `(int, str)` of `cmp_local` -/
def pairOp (c : Cmpr) (a b : Int × List Char) : Bool :=
  if a.1 != b.1 then intOp c a.1 b.1
  else if a.2 != b.2 then strOp c a.2 b.2
  else ordOp c .eq

/-- rich comparison of two key tuples (3 or 4 items) -/
def keyOp (c : Cmpr) (a b : CKey) : Bool :=
  if a.epoch != b.epoch then natOp c a.epoch b.epoch
  else if !tupOp (· == ·) natOp .eq a.release b.release then tupOp (· == ·) natOp c a.release b.release
  else if !tupOp (· == ·) intOp .eq a.suffix b.suffix then tupOp (· == ·) intOp c a.suffix b.suffix
  else match a.loc, b.loc with
    | none, none => ordOp c .eq            -- 3 vs 3
    | none, some _ => ordOp c .lt          -- 3 vs 4
    | some _, none => ordOp c .gt          -- 4 vs 3
    | some x, some y =>
      if !tupOp (pairOp .eq) pairOp .eq x y then tupOp (pairOp .eq) pairOp c x y
      else ordOp c .eq

/-- three-way comparison of two key tuples: what the six operators above are the six views of
(`Univers.Pypi.keyOp_eq_ordOp`) -/
def ckeyCmp (a b : CKey) : Ordering :=
  (compare a.epoch b.epoch).then <|
  (lexList compare a.release b.release).then <|
  (lexList compare a.suffix b.suffix).then <|
  match a.loc, b.loc with
  | none, none => .eq
  | none, some _ => .lt
  | some _, none => .gt
  | some x, some y => lexList (lexPair compare strCmp) x y

/-- the order of `packaging.version.Version` objects as the code computes it: build both keys,
compare the tuples -/
def vercmp (a b : Raw) : Ordering := ckeyCmp (cmpkey a) (cmpkey b)

/-- `packaging.version.Version.__lt__` … `__ne__`: `self._key_cache <op> other._key_cache` -/
def valOps : VOps Raw where
  lt a b := keyOp .lt (cmpkey a) (cmpkey b)
  le a b := keyOp .le (cmpkey a) (cmpkey b)
  gt a b := keyOp .gt (cmpkey a) (cmpkey b)
  ge a b := keyOp .ge (cmpkey a) (cmpkey b)
  eq a b := keyOp .eq (cmpkey a) (cmpkey b)
  ne a b := keyOp .ne (cmpkey a) (cmpkey b)

/-- `PypiVersion` defines no dunders: all six (and `__hash__`) are the attrs-generated methods
of `univers.versions.Version` on the field `value` -/
def verOps : VOps Raw := Univers.Py.attrsOps valOps

def hashable : Bool := true

/-- `hash(PypiVersion)` = attrs hash of `(value,)`, `hash(value)` = `hash(value._key)` -/
def hashKey (r : Raw) : CKey := cmpkey r

end Univers.Pypi
