/-
Layer A model of the semver family of `univers.versions`:
`SemverVersion`, `GolangVersion`, `ComposerVersion`, `NginxVersion`
(value class `EnhancedSemanticVersion(semantic_version.Version)`, semantic_version 2.8.5).

Mirrors, branch for branch:
* `Version.normalize` (`remove_spaces`, `lstrip("vV")`), `SemverVersion.is_valid/build_value`,
  `GolangVersion/ComposerVersion.build_value` (a second `lstrip("vV")`);
* `semantic_version.Version.coerce` (its `base_re`, padding with `.0`, zero stripping, clean-up of
  the rest, moving of extra components to the build, re-assembly of a version STRING) and
  `Version.parse` with `partial=False` (`version_re` as a recogniser, `_has_leading_zero`,
  `_validate_identifiers`) which is run on that string;
* `__str__`, `__eq__` (structural), `__ne__`, `__hash__`, `__lt__/__le__/__gt__/__ge__` through
  `precedence_key` (as extended by `EnhancedSemanticVersion` with the build tuple), i.e. CPython
  tuple rich comparison over `NumericIdentifier/AlphaIdentifier/MaxIdentifier`
  (`functools.total_ordering` on the first two, reflected calls for the third);
* `next_major/next_minor/next_patch`.

The operators are modelled at the level of Python's operator dispatch (`a < b`), not of a direct
dunder call: for a string that is only `N[.N[.N]]`, `coerce` ends with `Version(version)` instead
of `cls(version)`, so `SemverVersion("1.2.3").value` is a plain `semantic_version.Version` and not
an `EnhancedSemanticVersion`; `Enhanced.__lt__(plain)` then answers `NotImplemented` and Python
takes the reflected method of the plain object.  The results are the same as if both were
enhanced, because such a value has an empty build tuple (observed, and tied by the
correspondence run).

Every exception these routines can raise on ASCII text is a `ValueError`; it is modelled by
`Option.none`.  Not modelled: the 4300-digit limit of `int()`/`%d` in CPython >= 3.11.
No Mathlib.
-/
import Univers.Vers.Model
import Univers.Py.Attrs
import Univers.Basic.PadLex

namespace Univers.Semver

open Univers

inductive PErr where
  | invalid
  | other (name : String)
  deriving DecidableEq, Repr

/-! ### Python string primitives on ASCII text -/

/-- `str.isspace()` on ASCII: the separators of `str.split()` without argument
(TAB LF VT FF CR, FS GS RS US, SPACE). -/
def isPySpace (c : Char) : Bool :=
  c == ' ' || (9 ≤ c.toNat && c.toNat ≤ 13) || (28 ≤ c.toNat && c.toNat ≤ 31)

/-- `univers.utils.remove_spaces`: `"".join(string.split())` -/
def removeSpaces (s : List Char) : List Char := s.filter (fun c => !isPySpace c)

/-- `string.lstrip("vV")` -/
def lstripV (s : List Char) : List Char := s.dropWhile (fun c => c == 'v' || c == 'V')

/-- `Version.normalize` -/
def normalize (s : List Char) : List Char := lstripV (removeSpaces s)

/-- `int(s)` on a string of ASCII digits -/
def parseNat (l : List Char) : Nat := Nat.ofDigitChars 10 l 0

/-- `'%d' % n`, `str(n)` -/
def natStr (n : Nat) : List Char := Nat.toDigits 10 n

/-- `s.isdigit()` on ASCII text (false on the empty string) -/
def isDigitStr (s : List Char) : Bool := !s.isEmpty && s.all Char.isDigit

/-- `s.split(sep)` with a one-character separator (never returns the empty list) -/
def splitOn (sep : Char) : List Char → List (List Char)
  | [] => [[]]
  | c :: cs =>
    if c == sep then [] :: splitOn sep cs
    else match splitOn sep cs with
      | [] => [[c]]
      | h :: t => (c :: h) :: t

/-- `sep.join(parts)` -/
def joinWith (sep : Char) : List (List Char) → List Char
  | [] => []
  | [x] => x
  | x :: y :: ys => x ++ sep :: joinWith sep (y :: ys)

/-- Python `str` comparison: lexicographic on code points -/
def strCmp : List Char → List Char → Ordering := lexList (fun a b => compare a.toNat b.toNat)

/-! ### the value -/

/-- `(major, minor, patch, prerelease, build)` of a non-partial `semantic_version.Version` -/
structure Raw where
  major : Nat
  minor : Nat
  patch : Nat
  pre : List (List Char)
  build : List (List Char)
  deriving DecidableEq, Repr

/-! ### `Version.parse(version_string, partial=False)` -/

/-- `_has_leading_zero(value)` -/
def hasLeadingZero (v : List Char) : Bool :=
  !v.isEmpty && v.head? == some '0' && isDigitStr v && v != ['0']

/-- the character class `[0-9a-zA-Z.-]` -/
def isIdentChar (c : Char) : Bool := c.isAlphanum || c == '.' || c == '-'

/-- the optional group `(?:<lead>([0-9a-zA-Z.-]+))?` of `version_re`, greedy; the group takes
part in the match only when at least one character follows the lead. -/
def optGroup (lead : Char) (s : List Char) : Option (List Char) × List Char :=
  match s with
  | c :: t =>
    if c == lead && !(t.takeWhile isIdentChar).isEmpty then
      (some (t.takeWhile isIdentChar), t.dropWhile isIdentChar)
    else (none, s)
  | [] => (none, s)

/-- `version_re = ^(\d+)\.(\d+)\.(\d+)(?:-([0-9a-zA-Z.-]+))?(?:\+([0-9a-zA-Z.-]+))?$`
as a recogniser returning the five groups.  Greedy matching is exact here: each group is
followed by a character outside its class.  `$` also matches before one final newline. -/
def matchVersionRe (s : List Char) :
    Option (List Char × List Char × List Char × Option (List Char) × Option (List Char)) :=
  let d1 := s.takeWhile Char.isDigit
  match s.dropWhile Char.isDigit with
  | '.' :: s2 =>
    let d2 := s2.takeWhile Char.isDigit
    match s2.dropWhile Char.isDigit with
    | '.' :: s3 =>
      let d3 := s3.takeWhile Char.isDigit
      let r3 := s3.dropWhile Char.isDigit
      if d1.isEmpty || d2.isEmpty || d3.isEmpty then none
      else
        let g4 := optGroup '-' r3
        let g5 := optGroup '+' g4.2
        if g5.2 == [] || g5.2 == ['\n'] then some (d1, d2, d3, g4.1, g5.1) else none
    | _ => none
  | _ => none

/-- `_validate_identifiers(identifiers, allow_leading_zeroes)`; `false` = raises `ValueError` -/
def validateIdentifiers (ids : List (List Char)) (allowLeadingZeroes : Bool) : Bool :=
  ids.all fun item =>
    !item.isEmpty &&
    !(item.head? == some '0' && isDigitStr item && item != ['0'] && !allowLeadingZeroes)

/-- the tuple of a matched optional group: `None ↦ ()`, `'' ↦ ()`, else `split('.')` -/
def groupIdents : Option (List Char) → List (List Char)
  | none => []
  | some [] => []
  | some g => splitOn '.' g

/-- `Version.parse(version_string)`; `none` = `ValueError` -/
def parse (s : List Char) : Option Raw :=
  if s.isEmpty then none
  else match matchVersionRe s with
    | none => none
    | some (ma, mi, pa, g4, g5) =>
      if hasLeadingZero ma then none
      else if hasLeadingZero mi then none
      else if hasLeadingZero pa then none
      else
        let prerelease := groupIdents g4
        if !validateIdentifiers prerelease false then none
        else
          let build := groupIdents g5
          if !validateIdentifiers build true then none
          else some ⟨parseNat ma, parseNat mi, parseNat pa, prerelease, build⟩

/-! ### `Version.coerce(version_string)` -/

/-- `base_re = ^\d+(?:\.\d+(?:\.\d+)?)?`: the matched dot-separated components and the rest
of the string (`version_string[match.end():]`); `none` when there is no leading digit. -/
def matchBase (s : List Char) : Option (List (List Char) × List Char) :=
  let d1 := s.takeWhile Char.isDigit
  let r1 := s.dropWhile Char.isDigit
  if d1.isEmpty then none
  else match r1 with
    | '.' :: s2 =>
      let d2 := s2.takeWhile Char.isDigit
      let r2 := s2.dropWhile Char.isDigit
      if d2.isEmpty then some ([d1], r1)
      else match r2 with
        | '.' :: s3 =>
          let d3 := s3.takeWhile Char.isDigit
          let r3 := s3.dropWhile Char.isDigit
          if d3.isEmpty then some ([d1, d2], r2) else some ([d1, d2, d3], r3)
        | _ => some ([d1, d2], r2)
    | _ => some ([d1], r1)

/-- `while version.count('.') < 2: version += '.0'` on the list of components -/
def padComponents : List (List Char) → List (List Char)
  | [a] => [a, ['0'], ['0']]
  | [a, b] => [a, b, ['0']]
  | l => l

/-- `part.lstrip('0') or '0'` -/
def stripZeros (p : List Char) : List Char :=
  let q := p.dropWhile (· == '0')
  if q.isEmpty then ['0'] else q

/-- `re.sub(r'[^a-zA-Z0-9+.-]', '-', rest)` on one character -/
def cleanChar (c : Char) : Char :=
  if c.isAlphanum || c == '+' || c == '.' || c == '-' then c else '-'

/-- `prerelease, build = rest.split('+', 1)` if `'+' in rest` else `rest, ''` -/
def splitPlus (rest : List Char) : List Char × List Char :=
  if rest.contains '+' then
    (rest.takeWhile (· != '+'), (rest.dropWhile (· != '+')).drop 1)
  else (rest, [])

/-- the version STRING that `coerce` hands to `Version(...)`; `none` = `ValueError`
("lacks a numerical component") -/
def coerceString (s : List Char) : Option (List Char) :=
  match matchBase s with
  | none => none
  | some (comps, rest0) =>
    let version := joinWith '.' ((padComponents comps).map stripZeros)
    if rest0.isEmpty then some version
    else
      let rest := rest0.map cleanChar
      let pb : List Char × List Char :=
        match rest with
        | '+' :: t => ([], t)
        | '.' :: t => ([], t)
        | '-' :: t => splitPlus t
        | _ => splitPlus rest
      let build := pb.2.map (fun c => if c == '+' then '.' else c)
      let version := if pb.1.isEmpty then version else version ++ '-' :: pb.1
      let version := if build.isEmpty then version else version ++ '+' :: build
      some version

/-- `EnhancedSemanticVersion.coerce(version_string)`; `none` = `ValueError` -/
def coerce (s : List Char) : Option Raw :=
  match coerceString s with
  | none => none
  | some v => parse v

/-! ### the `univers.versions` classes -/

/-- `build_value`: `SemverVersion`/`NginxVersion` (`again = false`) call `coerce(string)`,
`GolangVersion`/`ComposerVersion` (`again = true`) call `coerce(string.lstrip("vV"))`. -/
def buildValue (again : Bool) (s : List Char) : Option Raw :=
  coerce (if again then lstripV s else s)

/-- `SemverVersion.is_valid`: `try: cls.build_value(string) … except ValueError: False` -/
def isValid (again : Bool) (s : List Char) : Bool := (buildValue again s).isSome

/-- `Version.__attrs_post_init__` -/
def constructWith (again : Bool) (s : List Char) : Except PErr Raw :=
  let n := normalize s
  if !isValid again n then .error .invalid
  else match buildValue again n with
    | some v => .ok v
    | none => .error (.other "ValueError")

/-- `SemverVersion(string)` -/
def construct : List Char → Except PErr Raw := constructWith false
/-- `NginxVersion(string)` -/
def constructNginx : List Char → Except PErr Raw := constructWith false
/-- `GolangVersion(string)` -/
def constructGolang : List Char → Except PErr Raw := constructWith true
/-- `ComposerVersion(string)` -/
def constructComposer : List Char → Except PErr Raw := constructWith true

/-- `semantic_version.Version.__str__` (non-partial) -/
def str (r : Raw) : List Char :=
  let v := natStr r.major ++ '.' :: natStr r.minor ++ '.' :: natStr r.patch
  let v := if r.pre.isEmpty then v else v ++ '-' :: joinWith '.' r.pre
  if r.build.isEmpty then v else v ++ '+' :: joinWith '.' r.build

/-! ### `precedence_key` and CPython tuple comparison -/

/-- `NumericIdentifier(int)`, `AlphaIdentifier(bytes)`, `MaxIdentifier()` -/
inductive Ident where
  | num (n : Nat)
  | alpha (s : List Char)
  | max
  deriving DecidableEq, Repr

namespace Ident

/-- `x == y` as Python dispatches it (`NotImplemented` on both sides ↦ identity ↦ `False`) -/
def eq : Ident → Ident → Bool
  | num a, num b => a == b
  | alpha a, alpha b => a == b
  | max, max => true
  | _, _ => false

/-- `x < y`: `NumericIdentifier.__lt__`, `AlphaIdentifier.__lt__`; for `MaxIdentifier` on the
left the reflected `__gt__` generated by `total_ordering` (`not lt and ne`).
`max < max` would be a `TypeError`; tuple comparison never asks (the items are `==`). -/
def lt : Ident → Ident → Bool
  | num a, num b => a < b
  | num _, alpha _ => true
  | num _, max => true
  | alpha _, num _ => false
  | alpha a, alpha b => strCmp a b == .lt
  | alpha _, max => true
  | max, _ => false

/-- `x <= y`: `_le_from_lt` (`lt or eq`); `MaxIdentifier` on the left: reflected `_ge_from_lt` -/
def le : Ident → Ident → Bool
  | num a, num b => a < b || a == b
  | num _, alpha _ => true
  | num _, max => true
  | alpha _, num _ => false
  | alpha a, alpha b => strCmp a b == .lt || a == b
  | alpha _, max => true
  | max, _ => false

/-- `x > y`: `_gt_from_lt` (`not lt and ne`); `MaxIdentifier` on the left: reflected `__lt__` -/
def gt : Ident → Ident → Bool
  | num a, num b => !(a < b) && a != b
  | num _, alpha _ => false
  | num _, max => false
  | alpha _, num _ => true
  | alpha a, alpha b => !(strCmp a b == .lt) && a != b
  | alpha _, max => false
  | max, num _ => true
  | max, alpha _ => true
  | max, max => false

/-- `x >= y`: `_ge_from_lt` (`not lt`); `MaxIdentifier` on the left: reflected `_le_from_lt` -/
def ge : Ident → Ident → Bool
  | num a, num b => !(a < b)
  | num _, alpha _ => false
  | num _, max => false
  | alpha _, num _ => true
  | alpha a, alpha b => !(strCmp a b == .lt)
  | alpha _, max => false
  | max, num _ => true
  | max, alpha _ => true
  | max, max => false

end Ident

/-- `tuple == tuple` -/
def tupleEq {α : Type} (eq : α → α → Bool) : List α → List α → Bool
  | [], [] => true
  | a :: as, b :: bs => eq a b && tupleEq eq as bs
  | _, _ => false

/-- CPython `tuple_richcompare` for an ordering operator: skip the items that are `==`, apply
the operator to the first pair that is not; when one tuple is exhausted, to the lengths. -/
def tupleOp {α : Type} (eq op : α → α → Bool) (opLen : Nat → Nat → Bool) :
    List α → List α → Bool
  | [], [] => opLen 0 0
  | [], b :: bs => opLen 0 (b :: bs).length
  | a :: as, [] => opLen (a :: as).length 0
  | a :: as, b :: bs => if eq a b then tupleOp eq op opLen as bs else op a b

/-- `precedence_key` of `EnhancedSemanticVersion`:
`(major, minor, patch, prerelease_key) + build`.  `re.match(r'^[0-9]+$', part)` is read as
"non-empty, ASCII digits only" (the `$`-before-newline case cannot occur in a parsed version). -/
structure PKey where
  major : Nat
  minor : Nat
  patch : Nat
  pre : List Ident
  build : List (List Char)

def identOf (part : List Char) : Ident :=
  if isDigitStr part then .num (parseNat part) else .alpha part

def precedenceKey (r : Raw) : PKey :=
  { major := r.major, minor := r.minor, patch := r.patch,
    pre := if r.pre.isEmpty then [.max] else r.pre.map identOf,
    build := r.build }

/-- one ordering operator on ints, identifiers and `str` -/
structure Op where
  nat : Nat → Nat → Bool
  ident : Ident → Ident → Bool
  str : List Char → List Char → Bool

def opLt : Op := ⟨fun a b => a < b, Ident.lt, fun a b => strCmp a b == .lt⟩
def opLe : Op := ⟨fun a b => a ≤ b, Ident.le, fun a b => strCmp a b != .gt⟩
def opGt : Op := ⟨fun a b => a > b, Ident.gt, fun a b => strCmp a b == .gt⟩
def opGe : Op := ⟨fun a b => a ≥ b, Ident.ge, fun a b => strCmp a b != .lt⟩

/-- tuple comparison of two precedence keys, position by position -/
def keyOp (o : Op) (a b : PKey) : Bool :=
  if a.major != b.major then o.nat a.major b.major
  else if a.minor != b.minor then o.nat a.minor b.minor
  else if a.patch != b.patch then o.nat a.patch b.patch
  else if !tupleEq Ident.eq a.pre b.pre then tupleOp Ident.eq o.ident o.nat a.pre b.pre
  else tupleOp (fun x y => x == y) o.str o.nat a.build b.build

/-- the six operators of `EnhancedSemanticVersion`: `__eq__` compares the five fields,
`__ne__` is `tuple(self) != tuple(other)`, the four others compare `precedence_key`. -/
def valOps : VOps Raw where
  eq a b := a.major == b.major && a.minor == b.minor && a.patch == b.patch &&
            a.pre == b.pre && a.build == b.build
  ne a b := !(a.major == b.major && a.minor == b.minor && a.patch == b.patch &&
            a.pre == b.pre && a.build == b.build)
  lt a b := keyOp opLt (precedenceKey a) (precedenceKey b)
  le a b := keyOp opLe (precedenceKey a) (precedenceKey b)
  gt a b := keyOp opGt (precedenceKey a) (precedenceKey b)
  ge a b := keyOp opGe (precedenceKey a) (precedenceKey b)

/-- the three-way comparison the code computes (`semantic_version.Version.__cmp__` without its
`NotImplemented` exit): `-1` if `<`, `1` if `>`, else `0` -/
def vercmp (a b : Raw) : Ordering :=
  if valOps.lt a b then .lt else if valOps.gt a b then .gt else .eq

/-- `SemverVersion` and its three subclasses define no comparison dunder: attrs on `value` -/
def verOps : VOps Raw := Py.attrsOps valOps

/-- attrs `__hash__` = `hash((salt, self.value))`; `Version.__hash__` hashes the five fields -/
def hashable : Bool := true

def hashKey (r : Raw) : Nat × Nat × Nat × List (List Char) × List (List Char) :=
  (r.major, r.minor, r.patch, r.pre, r.build)

/-! ### `next_major`, `next_minor`, `next_patch` -/

/-- `semantic_version.Version.next_major` -/
def nextMajor (r : Raw) : Raw :=
  if !r.pre.isEmpty && (r.minor == r.patch && r.patch == 0) then ⟨r.major, 0, 0, [], []⟩
  else ⟨r.major + 1, 0, 0, [], []⟩

/-- `semantic_version.Version.next_minor` -/
def nextMinor (r : Raw) : Raw :=
  if !r.pre.isEmpty && r.patch == 0 then ⟨r.major, r.minor, 0, [], []⟩
  else ⟨r.major, r.minor + 1, 0, [], []⟩

/-- `semantic_version.Version.next_patch` -/
def nextPatch (r : Raw) : Raw :=
  if !r.pre.isEmpty then ⟨r.major, r.minor, r.patch, [], []⟩
  else ⟨r.major, r.minor, r.patch + 1, [], []⟩

/-- `SemverVersion.next_major()` etc.: `SemverVersion(str(self.value.next_major()))` -/
def verNextMajor (r : Raw) : Except PErr Raw := construct (str (nextMajor r))
def verNextMinor (r : Raw) : Except PErr Raw := construct (str (nextMinor r))
def verNextPatch (r : Raw) : Except PErr Raw := construct (str (nextPatch r))

end Univers.Semver
