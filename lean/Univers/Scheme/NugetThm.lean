/-
Theorems about the NuGet model: refinement of the spec key, operator laws, eq/hash.
-/
import Univers.Scheme.NugetSpec
import Univers.Vers.Spec

namespace Univers.Nuget

open Std Univers

/-! ### decimal strings -/

theorem natVal_eq (s : List Char) : natVal s = Nat.ofDigitChars 10 s 0 := rfl

theorem natVal_natStr (n : Nat) : natVal (natStr n) = n := Nat.ofDigitChars_ten_toDigits

theorem natVal_append_single (ds : List Char) (d : Char) :
    natVal (ds ++ [d]) = 10 * natVal ds + (d.toNat - 48) := by
  simp [natVal, List.foldl_append]

theorem isDigit_iff (c : Char) : isDigit c = true ↔ 48 ≤ c.toNat ∧ c.toNat ≤ 57 := by
  simp only [isDigit, Bool.and_eq_true, decide_eq_true_eq, Char.le_def, UInt32.le_iff_toNat_le]
  exact Iff.rfl

theorem digitChar_sub (c : Char) (h : isDigit c = true) : Nat.digitChar (c.toNat - 48) = c := by
  have ⟨h1, h2⟩ := (isDigit_iff c).1 h
  apply Char.toNat_inj.1
  rw [Nat.toNat_digitChar_of_lt_ten (by omega)]
  omega

/-- no leading zero: `0|[1-9]\d*` given that the string consists of digits -/
def canonNum (s : List Char) : Bool := s == ['0'] || s.head? != some '0'

theorem natStr_natVal_rev (r : List Char) (hne : r ≠ []) (hd : r.all isDigit = true)
    (hc : canonNum r.reverse = true) : natStr (natVal r.reverse) = r.reverse := by
  induction r with
  | nil => exact absurd rfl hne
  | cons d r' ih =>
    have hdd : isDigit d = true := by
      simp only [List.all_cons, Bool.and_eq_true] at hd
      exact hd.1
    have hds : r'.all isDigit = true := by
      simp only [List.all_cons, Bool.and_eq_true] at hd
      exact hd.2
    have ⟨h1, h2⟩ := (isDigit_iff d).1 hdd
    rw [List.reverse_cons, natVal_append_single]
    cases hr : r'.reverse with
    | nil =>
      simp only [natVal, List.foldl_nil, Nat.mul_zero, Nat.zero_add, natStr]
      rw [Nat.toDigits_of_lt_base (by omega), digitChar_sub d hdd]
      rfl
    | cons x xs =>
      have hr' : r' ≠ [] := by
        intro h; subst h; simp at hr
      rw [List.reverse_cons, hr] at hc
      have hx : x ≠ '0' := by
        intro hx
        subst hx
        simp [canonNum] at hc
      have hcan : canonNum (x :: xs) = true := by
        simp [canonNum, hx]
      have ih' := ih hr' hds (by rw [hr]; exact hcan)
      rw [hr] at ih'
      have hpos : 0 < natVal (x :: xs) := by
        rcases Nat.eq_zero_or_pos (natVal (x :: xs)) with h0 | h0
        · rw [h0] at ih'
          simp [natStr] at ih'
          exact absurd ih'.1.symm hx
        · exact h0
      unfold natStr
      rw [← Nat.toDigits_append_toDigits (by omega) hpos (by omega : d.toNat - 48 < 10)]
      rw [Nat.toDigits_of_lt_base (by omega : d.toNat - 48 < 10), digitChar_sub d hdd]
      unfold natStr at ih'
      rw [ih']

theorem natStr_natVal (s : List Char) (hne : s ≠ []) (hd : s.all isDigit = true)
    (hc : canonNum s = true) : natStr (natVal s) = s := by
  have := natStr_natVal_rev s.reverse (by simpa using hne) (by simpa using hd) (by simpa using hc)
  simpa using this

theorem natVal_inj {s t : List Char} (hs : s ≠ []) (ht : t ≠ [])
    (hds : s.all isDigit = true) (hdt : t.all isDigit = true)
    (hcs : canonNum s = true) (hct : canonNum t = true) (h : natVal s = natVal t) : s = t := by
  rw [← natStr_natVal s hs hds hcs, ← natStr_natVal t ht hdt hct, h]

/-! ### well-formed values -/

/-- a pre-release label as `construct` leaves it: numeric labels without leading zero, lower case -/
def wfIdent (s : List Char) : Bool :=
  (if !s.isEmpty && s.all isDigit then canonNum s else true) && lower s == s

/-- what `construct` establishes about the `prerelease` string: non-empty when present, and made
of well-formed labels -/
def WFV (v : Ver) : Bool :=
  match v.pre with
  | none => true
  | some p => !p.isEmpty && (splitOn '.' p).all wfIdent

def WF : Raw → Bool
  | none => true
  | some v => WFV v

example : WF (some ⟨1, 2, 3, some "rc.1".toList, some "B".toList, 4⟩) = true := by decide

/-! ### labels: the code's tags against the spec's labels -/

theorem compare_add_right (a b k : Nat) : compare (a + k) (b + k) = compare a b := by
  simp only [Nat.compare_eq_ite_lt]
  by_cases h1 : a < b <;> by_cases h2 : b < a <;> simp [h1, h2] <;> omega

theorem lexList_eq_imp {α : Type} (cmp : α → α → Ordering) [LawfulEqCmp cmp] :
    ∀ (a b : List α), lexList cmp a b = .eq → a = b
  | [], [], _ => rfl
  | [], _ :: _, h => by simp [lexList] at h
  | _ :: _, [], h => by simp [lexList] at h
  | a :: as, b :: bs, h => by
    simp only [lexList, Ordering.then_eq_eq] at h
    rw [LawfulEqCmp.eq_of_compare h.1, lexList_eq_imp cmp as bs h.2]

theorem tagCmp_eq_identCmp (a b : List Char) (ha : wfIdent a = true) (hb : wfIdent b = true) :
    tagCmp (convert a) (convert b) = identCmp (identOf a) (identOf b) := by
  simp only [wfIdent, Bool.and_eq_true, beq_iff_eq] at ha hb
  simp only [convert, identOf, ha.2, hb.2]
  split <;> split <;> rfl

theorem identOf_inj (a b : List Char) (ha : wfIdent a = true) (hb : wfIdent b = true)
    (h : identCmp (identOf a) (identOf b) = .eq) : a = b := by
  unfold wfIdent at ha hb
  have ⟨ha1, ha2⟩ := Bool.and_eq_true_iff.1 ha
  have ⟨hb1, hb2⟩ := Bool.and_eq_true_iff.1 hb
  simp only [beq_iff_eq] at ha2 hb2
  simp only [identOf, ha2, hb2] at h
  by_cases h1 : (!a.isEmpty && a.all isDigit) = true <;> by_cases h2 : (!b.isEmpty && b.all isDigit) = true
  · rw [if_pos h1] at ha1 h
    rw [if_pos h2] at hb1 h
    simp only [Bool.and_eq_true, Bool.not_eq_true', List.isEmpty_eq_false_iff] at h1 h2
    exact natVal_inj h1.1 h2.1 h1.2 h2.2 ha1 hb1 (Nat.compare_eq_eq.1 h)
  · simp [h1, h2, identCmp] at h
  · simp [h1, h2, identCmp] at h
  · simp only [h1, h2, identCmp, charsCmp] at h
    exact lexList_eq_imp _ _ _ h

/-- length of the dotted string, counting one separator after every part -/
def jlen : List (List Char) → Nat
  | [] => 0
  | p :: ps => p.length + 1 + jlen ps

theorem splitOn_ne_nil (sep : Char) (s : List Char) : splitOn sep s ≠ [] := by
  induction s with
  | nil => simp [splitOn]
  | cons c cs ih =>
    simp only [splitOn]
    split
    · simp
    · split <;> simp

theorem jlen_splitOn (sep : Char) (s : List Char) : jlen (splitOn sep s) = s.length + 1 := by
  induction s with
  | nil => simp [splitOn, jlen]
  | cons c cs ih =>
    simp only [splitOn]
    split
    · simp only [jlen, ih, List.length_nil, List.length_cons]; omega
    · split
      · rename_i h; exact absurd h (splitOn_ne_nil sep cs)
      · rename_i p ps h
        rw [h] at ih
        simp only [jlen, List.length_cons] at ih ⊢
        omega

/-- the loop of `_nat_cmp` followed by the comparison of the string lengths is the
lexicographic comparison of the labels -/
theorem zipCmp_then_len : ∀ (pa pb : List (List Char)),
    pa.all wfIdent = true → pb.all wfIdent = true →
    (match zipCmp (pa.map convert) (pb.map convert) with
      | .eq => compare (jlen pa) (jlen pb)
      | r => r) = lexList identCmp (pa.map identOf) (pb.map identOf)
  | [], [], _, _ => by simp [zipCmp, jlen, lexList]
  | [], b :: bs, _, _ => by
    simp only [List.map_nil, List.map_cons, zipCmp, jlen, lexList]
    exact Nat.compare_eq_lt.2 (by omega)
  | a :: as, [], _, _ => by
    simp only [List.map_nil, List.map_cons, zipCmp, jlen, lexList]
    exact Nat.compare_eq_gt.2 (by omega)
  | a :: as, b :: bs, ha, hb => by
    simp only [List.all_cons, Bool.and_eq_true] at ha hb
    have ih := zipCmp_then_len as bs ha.2 hb.2
    simp only [List.map_cons, zipCmp, lexList, tagCmp_eq_identCmp a b ha.1 hb.1]
    cases hc : identCmp (identOf a) (identOf b) with
    | lt => simp
    | gt => simp
    | eq =>
      have hab := identOf_inj a b ha.1 hb.1 hc
      subst hab
      simp only [Ordering.then]
      rw [← ih]
      have : compare (jlen (a :: as)) (jlen (a :: bs)) = compare (jlen as) (jlen bs) := by
        simp only [jlen]
        rw [Nat.add_comm _ (jlen as), Nat.add_comm _ (jlen bs)]
        exact compare_add_right _ _ _
      cases hz : zipCmp (as.map convert) (bs.map convert) <;> simp [this]

theorem natCmp_eq_lex (a b : List Char) (ha : (splitOn '.' a).all wfIdent = true)
    (hb : (splitOn '.' b).all wfIdent = true) :
    natCmp a b = lexList identCmp ((splitOn '.' a).map identOf) ((splitOn '.' b).map identOf) := by
  rw [← zipCmp_then_len _ _ ha hb, jlen_splitOn, jlen_splitOn, compare_add_right]
  rfl

/-! ### refinement -/

/-- the pre-release part of `VersionInfo.compare` -/
def prePart (p q : Option (List Char)) : Ordering :=
  let rccmp := natCmp (p.getD []) (q.getD [])
  if rccmp == .eq then .eq
  else if falsy p then .gt
  else if falsy q then .lt
  else rccmp

/-- the `(major, minor, patch)` part of `VersionInfo.compare` -/
def c3 (x y : Ver) : Ordering :=
  (compare x.major y.major).then ((compare x.minor y.minor).then (compare x.patch y.patch))

theorem semverCompare_eq (x y : Ver) : semverCompare x y = (c3 x y).then (prePart x.pre y.pre) := by
  unfold semverCompare c3 prePart lexPair
  simp only []
  cases (compare x.major y.major).then ((compare x.minor y.minor).then (compare x.patch y.patch)) <;> rfl

theorem natCmp_eq_len (a b : List Char) (h : natCmp a b = .eq) : a.length = b.length := by
  unfold natCmp at h
  split at h
  · exact Nat.compare_eq_eq.1 h
  · rename_i r hr; exact absurd h (hr · )

theorem ite_eq_self (r : Ordering) :
    (if (r == .eq) = true then Ordering.eq
      else if false = true then .gt else if false = true then .lt else r) = r := by
  cases r <;> rfl

def wfPre : Option (List Char) → Bool
  | none => true
  | some p => !p.isEmpty && (splitOn '.' p).all wfIdent

theorem prePart_eq_key (p q : Option (List Char)) (hp : wfPre p = true) (hq : wfPre q = true) :
    prePart p q = optTop (lexList identCmp) (preKey p) (preKey q) := by
  cases p with
  | none =>
    cases q with
    | none => decide
    | some t =>
      cases t with
      | nil => simp [wfPre] at hq
      | cons d ds =>
        have hne : natCmp [] (d :: ds) ≠ .eq := fun h => by simpa using natCmp_eq_len _ _ h
        simp [prePart, preKey, optTop, falsy, hne]
  | some s =>
    cases s with
    | nil => simp [wfPre] at hp
    | cons c cs =>
      cases q with
      | none =>
        have hne : natCmp (c :: cs) [] ≠ .eq := fun h => by simpa using natCmp_eq_len _ _ h
        simp [prePart, preKey, optTop, falsy, hne]
      | some t =>
        cases t with
        | nil => simp [wfPre] at hq
        | cons d ds =>
          simp only [wfPre, Bool.and_eq_true] at hp hq
          simp only [prePart, preKey, optTop, falsy, Option.getD_some, List.isEmpty_cons]
          rw [← natCmp_eq_lex _ _ hp.2 hq.2]
          exact ite_eq_self _

/-- `vercmpV` as a function of the component comparisons -/
def combine (cM cm cp P : Ordering) (rx ry : Nat) : Ordering :=
  if (if ((cM.then (cm.then cp)).then .eq == .eq && rx != ry) = true then decide (rx < ry)
      else ((cM.then (cm.then cp)).then P == .lt)) = true then .lt
  else if (((cM.then (cm.then cp)).then P == .eq) && rx == ry) = true then .eq
  else .gt

theorem combine_eq (cM cm cp P : Ordering) (rx ry : Nat) :
    combine cM cm cp P rx ry = (cM.then (cm.then (cp.then (compare rx ry)))).then P := by
  unfold combine
  rcases Nat.lt_trichotomy rx ry with h | h | h
  · have hc : compare rx ry = .lt := Nat.compare_eq_lt.2 h
    have hne : (rx != ry) = true := by simp; omega
    rw [hc, hne]
    cases cM <;> cases cm <;> cases cp <;> cases P <;> simp [h]
  · have hc : compare rx ry = .eq := Nat.compare_eq_eq.2 h
    have hne : (rx != ry) = false := by simp [h]
    rw [hc, hne]
    cases cM <;> cases cm <;> cases cp <;> cases P <;> simp [h]
  · have hc : compare rx ry = .gt := Nat.compare_eq_gt.2 h
    have hne : (rx != ry) = true := by simp; omega
    have hnl : ¬ rx < ry := by omega
    have hneq : ¬ rx = ry := by omega
    rw [hc, hne]
    cases cM <;> cases cm <;> cases cp <;> cases P <;> simp [hnl, hneq]

theorem vercmpV_combine (x y : Ver) :
    vercmpV x y = combine (compare x.major y.major) (compare x.minor y.minor)
      (compare x.patch y.patch) (prePart x.pre y.pre) x.revision y.revision := by
  have hpp : prePart (some []) (some []) = .eq := by decide
  unfold vercmpV ltV eqV
  rw [semverCompare_eq, semverCompare_eq]
  simp only [hpp, c3]
  rfl

theorem vercmpV_eq_key (x y : Ver) (hx : WFV x = true) (hy : WFV y = true) :
    vercmpV x y = keyCmpV (keyV x) (keyV y) := by
  have hP := prePart_eq_key x.pre y.pre hx hy
  rw [vercmpV_combine, combine_eq]
  simp only [keyCmpV, keyV, lexPair, numsCmp, natCmp', ← hP]

/-- REFINEMENT: on well-formed values the code orders as the NuGet key does -/
theorem vercmp_eq_key (a b : Raw) (ha : WF a = true) (hb : WF b = true) :
    vercmp a b = keyCmp (key a) (key b) := by
  cases a <;> cases b <;> simp only [vercmp, key, keyCmp, optBot]
  exact vercmpV_eq_key _ _ ha hb

/-! ### order laws on the well-formed values -/

/-- the values `construct` can produce -/
abbrev WFRaw : Type := { r : Raw // WF r = true }

def vercmpW (a b : WFRaw) : Ordering := vercmp a.1 b.1

theorem vercmpW_eq (a b : WFRaw) : vercmpW a b = cmpOn (fun (r : WFRaw) => key r.1) keyCmp a b :=
  vercmp_eq_key a.1 b.1 a.2 b.2

instance : TransCmp vercmpW := by
  have : vercmpW = cmpOn (fun (r : WFRaw) => key r.1) keyCmp := by
    funext a b; exact vercmpW_eq a b
  rw [this]; infer_instance

theorem vercmp_oriented (a b : Raw) (ha : WF a = true) (hb : WF b = true) :
    vercmp a b = (vercmp b a).swap := by
  rw [vercmp_eq_key a b ha hb, vercmp_eq_key b a hb ha]; exact OrientedCmp.eq_swap

theorem vercmp_isLE_trans (a b c : Raw) (ha : WF a = true) (hb : WF b = true) (hc : WF c = true) :
    (vercmp a b).isLE → (vercmp b c).isLE → (vercmp a c).isLE := by
  rw [vercmp_eq_key a b ha hb, vercmp_eq_key b c hb hc, vercmp_eq_key a c ha hc]
  exact TransCmp.isLE_trans

/-! ### C02: the six operators -/

theorem ltV_imp_not_eqV (x y : Ver) (h : eqV x y = true) : ltV x y = false := by
  simp only [eqV, Bool.and_eq_true, beq_iff_eq] at h
  simp [ltV, h.1, h.2]

theorem verOps_lawful : Lawful verOps vercmp := by
  have key : ∀ x y : Ver, ∀ l e : Bool, ltV x y = l → eqV x y = e → (e = true → l = false) →
      ((!e && l) = ((if l then Ordering.lt else if e then .eq else .gt) == .lt)) ∧
      ((!e && (!l && !e)) = ((if l then Ordering.lt else if e then .eq else .gt) == .gt)) ∧
      (e = ((if l then Ordering.lt else if e then .eq else .gt) == .eq)) ∧
      ((e || (l || e)) = ((if l then Ordering.lt else if e then .eq else .gt) != .gt)) ∧
      ((e || !l) = ((if l then Ordering.lt else if e then .eq else .gt) != .lt)) ∧
      ((!e) = ((if l then Ordering.lt else if e then .eq else .gt) != .eq)) := by
    intro x y l e _ _ h
    cases l <;> cases e <;> simp at h ⊢
  constructor <;> intro a b <;> cases a <;> cases b <;>
    simp only [verOps, Py.attrsOps, valOps, vercmp] <;> try rfl
  all_goals
    rename_i x y
    have h := key x y _ _ rfl rfl (ltV_imp_not_eqV x y)
    simp only [valOpsV, Py.totalOrderingFromLt, vercmpV]
    first
      | exact h.1 | exact h.2.1 | exact h.2.2.1 | exact h.2.2.2.1 | exact h.2.2.2.2.1
      | exact h.2.2.2.2.2

/-! ### C12: eq and hash -/

/-- inverse of `splitOn` -/
def joinOn (sep : Char) : List (List Char) → List Char
  | [] => []
  | [p] => p
  | p :: q :: r => p ++ sep :: joinOn sep (q :: r)

theorem joinOn_cons_cons (sep c : Char) (p : List Char) (ps : List (List Char)) :
    joinOn sep ((c :: p) :: ps) = c :: joinOn sep (p :: ps) := by
  cases ps <;> simp [joinOn]

theorem joinOn_splitOn (sep : Char) (s : List Char) : joinOn sep (splitOn sep s) = s := by
  induction s with
  | nil => simp [splitOn, joinOn]
  | cons c cs ih =>
    simp only [splitOn]
    split
    · rename_i hc
      have hc' : c = sep := by simpa using hc
      cases hsp : splitOn sep cs with
      | nil => exact absurd hsp (splitOn_ne_nil sep cs)
      | cons q r =>
        rw [hsp] at ih
        simp [joinOn, ih, hc']
    · split
      · rename_i h; exact absurd h (splitOn_ne_nil sep cs)
      · rename_i q r h
        rw [h] at ih
        rw [joinOn_cons_cons, ih]

theorem splitOn_inj (sep : Char) (a b : List Char) (h : splitOn sep a = splitOn sep b) : a = b := by
  rw [← joinOn_splitOn sep a, ← joinOn_splitOn sep b, h]

theorem lex_identOf_inj : ∀ (pa pb : List (List Char)),
    pa.all wfIdent = true → pb.all wfIdent = true →
    lexList identCmp (pa.map identOf) (pb.map identOf) = .eq → pa = pb
  | [], [], _, _, _ => rfl
  | [], _ :: _, _, _, h => by simp [lexList] at h
  | _ :: _, [], _, _, h => by simp [lexList] at h
  | a :: as, b :: bs, ha, hb, h => by
    simp only [List.all_cons, Bool.and_eq_true] at ha hb
    simp only [List.map_cons, lexList, Ordering.then_eq_eq] at h
    rw [identOf_inj a b ha.1 hb.1 h.1, lex_identOf_inj as bs ha.2 hb.2 h.2]

theorem prePart_eq_imp (p q : Option (List Char)) (hp : wfPre p = true) (hq : wfPre q = true)
    (h : prePart p q = .eq) : p = q := by
  rw [prePart_eq_key p q hp hq] at h
  cases p with
  | none =>
    cases q with
    | none => rfl
    | some t =>
      cases t with
      | nil => simp [wfPre] at hq
      | cons d ds => simp [preKey, optTop] at h
  | some s =>
    cases s with
    | nil => simp [wfPre] at hp
    | cons c cs =>
      cases q with
      | none => simp [preKey, optTop] at h
      | some t =>
        cases t with
        | nil => simp [wfPre] at hq
        | cons d ds =>
          simp only [wfPre, Bool.and_eq_true] at hp hq
          simp only [preKey, optTop] at h
          rw [splitOn_inj '.' _ _ (lex_identOf_inj _ _ hp.2 hq.2 h)]

/-- C12: equal well-formed versions have the same hash key (the build metadata is ignored by
`==` and by the hash alike) -/
theorem eq_imp_hash (a b : Raw) (ha : WF a = true) (hb : WF b = true) :
    verOps.eq a b = true → hashKey a = hashKey b := by
  cases a with
  | none => cases b <;> simp [verOps, Py.attrsOps, valOps, vercmp, hashKey]
  | some x =>
    cases b with
    | none => simp [verOps, Py.attrsOps, valOps, vercmp]
    | some y =>
      intro h
      simp only [verOps, Py.attrsOps, valOps, valOpsV, Py.totalOrderingFromLt, eqV,
        Bool.and_eq_true, beq_iff_eq] at h
      obtain ⟨h1, h2⟩ := h
      rw [semverCompare_eq] at h1
      simp only [Ordering.then_eq_eq, c3] at h1
      have hpre := prePart_eq_imp x.pre y.pre ha hb h1.2
      simp only [hashKey, Nat.compare_eq_eq.1 h1.1.1, Nat.compare_eq_eq.1 h1.1.2.1,
        Nat.compare_eq_eq.1 h1.1.2.2, hpre, h2]

/-- `1.0.0+a == 1.0.0+b` and they hash alike -/
example : verOps.eq (some ⟨1, 0, 0, none, some ['a'], 0⟩) (some ⟨1, 0, 0, none, some ['b'], 0⟩) = true ∧
    hashKey (some ⟨1, 0, 0, none, some ['a'], 0⟩) = hashKey (some ⟨1, 0, 0, none, some ['b'], 0⟩) :=
  ⟨by decide, rfl⟩

/-- `WF` is needed: on values that `construct` never builds (a numeric label with a leading zero)
`==` holds between different prerelease strings -/
theorem eq_imp_hash_needs_wf :
    verOps.eq (some ⟨1, 0, 0, some "01.1".toList, none, 0⟩) (some ⟨1, 0, 0, some "1.01".toList, none, 0⟩) = true ∧
    hashKey (some ⟨1, 0, 0, some "01.1".toList, none, 0⟩) ≠ hashKey (some ⟨1, 0, 0, some "1.01".toList, none, 0⟩) ∧
    WF (some ⟨1, 0, 0, some "01.1".toList, none, 0⟩) = false :=
  ⟨by decide, by simp [hashKey], by decide⟩

/-! ### `construct` establishes `WF` -/

theorem upperRange (P : Char → Prop) (h : ∀ k, k < 91 → 65 ≤ k → P (Char.ofNat k)) (c : Char)
    (h1 : 'A' ≤ c) (h2 : c ≤ 'Z') : P c := by
  have := h c.toNat
    (by simp only [Char.le_def, UInt32.le_iff_toNat_le] at h2; exact Nat.lt_succ_of_le h2)
    (by simp only [Char.le_def, UInt32.le_iff_toNat_le] at h1; exact h1)
  rwa [Char.ofNat_toNat] at this

theorem lowerChar_of_not_upper (c : Char) (h : ¬ ('A' ≤ c ∧ c ≤ 'Z')) : lowerChar c = c := by
  simp only [lowerChar, Bool.and_eq_true, decide_eq_true_eq, h, if_false]

theorem lowerChar_facts (c : Char) :
    lowerChar (lowerChar c) = lowerChar c ∧ isDigit (lowerChar c) = isDigit c ∧
    ((lowerChar c == '.') = (c == '.')) ∧ (isDigit c = true → lowerChar c = c) := by
  by_cases h : 'A' ≤ c ∧ c ≤ 'Z'
  · exact upperRange (fun c => lowerChar (lowerChar c) = lowerChar c ∧
      isDigit (lowerChar c) = isDigit c ∧ ((lowerChar c == '.') = (c == '.')) ∧
      (isDigit c = true → lowerChar c = c)) (by decide) c h.1 h.2
  · have := lowerChar_of_not_upper c h
    rw [this]; simp [this]

theorem lower_idem (s : List Char) : lower (lower s) = lower s := by
  induction s with
  | nil => rfl
  | cons c cs ih =>
    simp only [lower, List.map_cons, List.cons.injEq] at ih ⊢
    exact ⟨(lowerChar_facts c).1, ih⟩

theorem all_isDigit_lower (s : List Char) : (lower s).all isDigit = s.all isDigit := by
  induction s with
  | nil => rfl
  | cons c cs ih =>
    simp only [lower, List.map_cons, List.all_cons] at ih ⊢
    rw [(lowerChar_facts c).2.1, ih]

theorem lower_of_digits (s : List Char) (h : s.all isDigit = true) : lower s = s := by
  induction s with
  | nil => rfl
  | cons c cs ih =>
    simp only [List.all_cons, Bool.and_eq_true] at h
    simp only [lower, List.map_cons, List.cons.injEq] at ih ⊢
    exact ⟨(lowerChar_facts c).2.2.2 h.1, ih h.2⟩

theorem splitOn_lower (s : List Char) : splitOn '.' (lower s) = (splitOn '.' s).map lower := by
  induction s with
  | nil => rfl
  | cons c cs ih =>
    simp only [lower, List.map_cons] at ih ⊢
    simp only [splitOn, (lowerChar_facts c).2.2.1]
    split
    · simp [ih, lower]
    · rw [ih]
      cases splitOn '.' cs <;> simp [lower]

theorem wfIdent_lower_of_valid (x : List Char) (h : validPreId x = true) : wfIdent (lower x) = true := by
  unfold wfIdent
  rw [lower_idem]
  simp only [beq_self_eq_true, Bool.and_true]
  by_cases hd : x.all isDigit = true
  · rw [lower_of_digits x hd]
    simp only [validPreId, Bool.and_eq_true, Bool.or_eq_true, hd, Bool.not_true, Bool.false_or] at h
    split
    · simpa [canonNum] using h.2
    · rfl
  · have : ((!(lower x).isEmpty) && (lower x).all isDigit) = false := by
      rw [all_isDigit_lower]; simp [hd]
    rw [this]; rfl

/-- what `semver.VersionInfo.parse` guarantees about `prerelease` -/
def validPre : Option (List Char) → Bool
  | none => true
  | some p => (splitOn '.' p).all validPreId

theorem parseTail_validPre (s : List Char) (pre build : Option (List Char))
    (h : parseTail s = some (pre, build)) : validPre pre = true := by
  unfold parseTail at h
  split at h
  · split at h
    · rename_i hv
      simp only [Option.map_eq_some_iff, Prod.mk.injEq] at h
      obtain ⟨_, _, h2, _⟩ := h
      subst h2
      exact hv
    · simp at h
  · simp only [Option.map_eq_some_iff, Prod.mk.injEq] at h
    obtain ⟨_, _, h2, _⟩ := h
    subst h2
    rfl

theorem semverParse_validPre (s : List Char) (v : Ver) (h : semverParse s = some v) :
    validPre v.pre = true := by
  unfold semverParse at h
  simp only [Option.bind_eq_bind, Option.bind_eq_some_iff] at h
  obtain ⟨⟨ma, r1⟩, _, h⟩ := h
  split at h
  · simp only [Option.bind_eq_some_iff] at h
    obtain ⟨⟨mi, r2⟩, _, h⟩ := h
    split at h
    · simp only [Option.bind_eq_some_iff] at h
      obtain ⟨⟨pa, r3⟩, _, ⟨pre, build⟩, ht, h⟩ := h
      simp only [Option.pure_def, Option.some.injEq] at h
      subst h
      exact parseTail_validPre _ _ _ ht
    · simp at h
  · simp at h

theorem fromCoerced_wf (s : List Char) (v : Ver) (h : fromCoerced s = some v) : WFV v = true := by
  unfold fromCoerced at h
  simp only [] at h
  split at h
  · simp at h
  · rename_i v0 hv0
    have hvp := semverParse_validPre _ _ hv0
    simp only [Option.some.injEq] at h
    subst h
    simp only [WFV]
    cases hp : v0.pre with
    | none => simp [falsy]
    | some p =>
      rw [hp] at hvp
      simp only [validPre] at hvp
      have hne : p.isEmpty = false := by
        cases p with
        | nil => simp [splitOn, validPreId] at hvp
        | cons c cs => rfl
      simp only [falsy, hne, Bool.false_eq_true, if_false, Option.map_some]
      have hne' : (lower p).isEmpty = false := by
        cases p with
        | nil => simp at hne
        | cons c cs => rfl
      simp only [hne', Bool.not_false, Bool.true_and, splitOn_lower, List.all_map]
      apply List.all_eq_true.2
      intro x hx
      exact wfIdent_lower_of_valid x (List.all_eq_true.1 hvp x hx)

/-- every value built by `NugetVersion(string)` is well formed -/
theorem construct_wf (s : List Char) (r : Raw) (h : construct s = .ok r) : WF r = true := by
  unfold construct at h
  simp only [] at h
  split at h
  · cases h
  · split at h
    · cases h
    · split at h
      · cases h
      · rename_i v hv
        cases h
        exact fromCoerced_wf _ _ hv

/-- the value `None` is never built -/
theorem construct_isSome (s : List Char) (r : Raw) (h : construct s = .ok r) : r.isSome = true := by
  unfold construct at h
  simp only [] at h
  split at h
  · cases h
  · split at h
    · cases h
    · split at h
      · cases h
      · cases h; rfl

/-- `NugetVersion(string)` raises nothing but `InvalidVersion` -/
theorem construct_declared (s : List Char) (n : String) : construct s ≠ .error (.other n) := by
  unfold construct
  simp only []
  split
  · simp
  · split
    · simp
    · split <;> simp

/-! ### NuGet folds case by upper-casing (`OrdinalIgnoreCase`); the code lower-cases -/

def upperChar (c : Char) : Char :=
  if 'a' ≤ c && c ≤ 'z' then Char.ofNat (c.toNat - 32) else c

def upper (s : List Char) : List Char := s.map upperChar

theorem isIdChar_lt (c : Char) (h : isIdChar c = true) : c.toNat < 128 := by
  simp only [isIdChar, isDigit, isAlpha, Bool.or_eq_true, Bool.and_eq_true, decide_eq_true_eq,
    Char.le_def, UInt32.le_iff_toNat_le, beq_iff_eq] at h
  rcases h with (h | h | h) | h
  · exact Nat.lt_of_le_of_lt h.2 (by decide)
  · exact Nat.lt_of_le_of_lt h.2 (by decide)
  · exact Nat.lt_of_le_of_lt h.2 (by decide)
  · subst h; decide

theorem fold_char_table : ∀ i, i < 128 → ∀ j, j < 128 →
    isIdChar (Char.ofNat i) = true → isIdChar (Char.ofNat j) = true →
    compare (lowerChar (Char.ofNat i)) (lowerChar (Char.ofNat j)) =
      compare (upperChar (Char.ofNat i)) (upperChar (Char.ofNat j)) := by
  decide +kernel

theorem fold_char (c d : Char) (hc : isIdChar c = true) (hd : isIdChar d = true) :
    compare (lowerChar c) (lowerChar d) = compare (upperChar c) (upperChar d) := by
  have := fold_char_table c.toNat (isIdChar_lt c hc) d.toNat (isIdChar_lt d hd)
  simp only [Char.ofNat_toNat] at this
  exact this hc hd

/-- on the label alphabet `[0-9A-Za-z-]` lower-case folding (the code, and `identOf`) and
upper-case folding (NuGet's `OrdinalIgnoreCase`) give the same order -/
theorem foldLower_eq_foldUpper : ∀ (a b : List Char), a.all isIdChar = true → b.all isIdChar = true →
    charsCmp (lower a) (lower b) = charsCmp (upper a) (upper b)
  | [], [], _, _ => rfl
  | [], _ :: _, _, _ => rfl
  | _ :: _, [], _, _ => rfl
  | c :: cs, d :: ds, ha, hb => by
    simp only [List.all_cons, Bool.and_eq_true] at ha hb
    have ih := foldLower_eq_foldUpper cs ds ha.2 hb.2
    simp only [charsCmp, lower, upper, List.map_cons, lexList] at ih ⊢
    rw [fold_char c d ha.1 hb.1, ih]

/-- outside the alphabet the two foldings differ (`_` lies between `Z` and `a`); such labels are
rejected by `construct` -/
theorem fold_differs_outside_alphabet :
    charsCmp (lower ['_']) (lower ['a']) = .lt ∧ charsCmp (upper ['_']) (upper ['a']) = .gt := by
  decide

/-! ### C11: `str` round trip -/

theorem isDigit_eq (c : Char) : isDigit c = c.isDigit := by
  simp only [isDigit, Char.isDigit, Char.le_def, ge_iff_le]

theorem natStr_digits (k : Nat) : ∀ c ∈ natStr k, isDigit c = true := by
  intro c hc
  rw [isDigit_eq]
  exact Nat.isDigit_of_mem_toDigits (by decide) (by decide) hc

theorem natStr_ne_nil (k : Nat) : natStr k ≠ [] := Nat.toDigits_ne_nil

theorem natStr_canon (k : Nat) : canonNum (natStr k) = true := by
  induction k using Nat.strongRecOn with
  | _ k ih =>
    by_cases hk : k < 10
    · unfold natStr
      rw [Nat.toDigits_of_lt_base hk]
      by_cases h0 : k = 0
      · subst h0; rfl
      · simp [canonNum, h0]
    · have hpos : 0 < k / 10 := Nat.div_pos (by omega) (by decide)
      have ih' := ih (k / 10) (by omega)
      unfold natStr at ih' ⊢
      rw [Nat.toDigits_of_base_le (by decide) (by omega)]
      cases hd : Nat.toDigits 10 (k / 10) with
      | nil => exact absurd hd Nat.toDigits_ne_nil
      | cons x xs =>
        rw [hd] at ih'
        have hx : x ≠ '0' := by
          intro hx; subst hx
          simp only [canonNum, List.head?_cons, bne_self_eq_false, Bool.or_false, beq_iff_eq,
            List.cons.injEq, true_and] at ih'
          subst ih'
          have := Nat.ofDigitChars_ten_toDigits (n := k / 10)
          rw [hd] at this
          simp [Nat.ofDigitChars] at this
          omega
        simp [canonNum, hx]

/-- the head of `r`, if any, is not a digit -/
def HeadNotDigit (r : List Char) : Prop := ∀ c, r.head? = some c → isDigit c = false

theorem span_loop_digits (l r : List Char) (hl : ∀ c ∈ l, isDigit c = true) (hr : HeadNotDigit r) :
    ∀ acc, List.span.loop isDigit (l ++ r) acc = (acc.reverse ++ l, r) := by
  induction l with
  | nil =>
    intro acc
    cases r with
    | nil => simp [List.span.loop]
    | cons c cs => simp [List.span.loop, hr c rfl]
  | cons x xs ih =>
    intro acc
    have hx := hl x (by simp)
    simp only [List.cons_append, List.span.loop, hx]
    rw [ih (fun c hc => hl c (List.mem_cons_of_mem _ hc))]
    simp

theorem span_digits (l r : List Char) (hl : ∀ c ∈ l, isDigit c = true) (hr : HeadNotDigit r) :
    (l ++ r).span isDigit = (l, r) := by
  simp [List.span, span_loop_digits l r hl hr]

theorem dotNum_digits (l r : List Char) (hne : l ≠ []) (hl : ∀ c ∈ l, isDigit c = true)
    (hr : HeadNotDigit r) : dotNum ('.' :: (l ++ r)) = (some l, r) := by
  cases l with
  | nil => exact absurd rfl hne
  | cons x xs => simp only [dotNum, span_digits (x :: xs) r hl hr]

theorem dotNum_none (r : List Char) (h : ∀ c, r.head? = some c → c ≠ '.') : dotNum r = (none, r) := by
  unfold dotNum
  split
  · exact absurd rfl (h '.' rfl)
  · rfl

theorem headNotDigit_dot (r : List Char) : HeadNotDigit ('.' :: r) := by
  intro c hc; simp at hc; subst hc; decide

/-- `A.B.C` followed by `rest` -/
def core3 (A B C rest : List Char) : List Char := A ++ '.' :: (B ++ '.' :: (C ++ rest))

theorem stripLeadingV_digit (a : Char) (r : List Char) (ha : isDigit a = true) :
    stripLeadingV (a :: r) = a :: r := by
  unfold stripLeadingV
  split
  · rename_i heq
    simp only [List.cons.injEq] at heq
    rw [heq.1] at ha
    exact absurd ha (by decide)
  · rfl

theorem coerce_core3 (A B C rest : List Char) (hA : A ≠ []) (hB : B ≠ []) (hC : C ≠ [])
    (dA : ∀ c ∈ A, isDigit c = true) (dB : ∀ c ∈ B, isDigit c = true)
    (dC : ∀ c ∈ C, isDigit c = true) (hr : HeadNotDigit rest) :
    coerce (core3 A B C rest) =
      core3 (natStr (natVal A)) (natStr (natVal B)) (natStr (natVal C)) rest := by
  cases A with
  | nil => exact absurd rfl hA
  | cons a A' =>
    have h1 : stripLeadingV (core3 (a :: A') B C rest) = core3 (a :: A') B C rest :=
      stripLeadingV_digit a _ (dA a (by simp))
    have h2 : (core3 (a :: A') B C rest).span isDigit = (a :: A', '.' :: (B ++ '.' :: (C ++ rest))) :=
      span_digits _ _ dA (headNotDigit_dot _)
    have h3 := dotNum_digits B ('.' :: (C ++ rest)) hB dB (headNotDigit_dot _)
    have h4 := dotNum_digits C rest hC dC hr
    simp only [coerce, h1, h2, h3, h4, Option.getD_some]
    simp only [core3, List.append_assoc, List.cons_append]

theorem extractRevision_rev (A B C D T : List Char) (hA : A ≠ []) (hB : B ≠ []) (hC : C ≠ [])
    (hD : D ≠ [])
    (dA : ∀ c ∈ A, isDigit c = true) (dB : ∀ c ∈ B, isDigit c = true)
    (dC : ∀ c ∈ C, isDigit c = true) (dD : ∀ c ∈ D, isDigit c = true) (hT : HeadNotDigit T) :
    extractRevision (core3 A B C ('.' :: (D ++ T))) = (core3 A B C T, natVal D) := by
  cases A with
  | nil => exact absurd rfl hA
  | cons a A' =>
    have h2 : (core3 (a :: A') B C ('.' :: (D ++ T))).span isDigit =
        (a :: A', '.' :: (B ++ '.' :: (C ++ '.' :: (D ++ T)))) :=
      span_digits _ _ dA (headNotDigit_dot _)
    have h3 := dotNum_digits B ('.' :: (C ++ '.' :: (D ++ T))) hB dB (headNotDigit_dot _)
    have h4 := dotNum_digits C ('.' :: (D ++ T)) hC dC (headNotDigit_dot _)
    have h5 := dotNum_digits D T hD dD hT
    simp only [extractRevision, h2, h3, h4, h5]
    simp only [core3, List.append_assoc, List.cons_append]

theorem extractRevision_norev (A B C T : List Char) (hA : A ≠ []) (hB : B ≠ []) (hC : C ≠ [])
    (dA : ∀ c ∈ A, isDigit c = true) (dB : ∀ c ∈ B, isDigit c = true)
    (dC : ∀ c ∈ C, isDigit c = true) (hT : ∀ c, T.head? = some c → c ≠ '.')
    (hTd : HeadNotDigit T) :
    extractRevision (core3 A B C T) = (core3 A B C T, 0) := by
  cases A with
  | nil => exact absurd rfl hA
  | cons a A' =>
    have h2 : (core3 (a :: A') B C T).span isDigit = (a :: A', '.' :: (B ++ '.' :: (C ++ T))) :=
      span_digits _ _ dA (headNotDigit_dot _)
    have h3 := dotNum_digits B ('.' :: (C ++ T)) hB dB (headNotDigit_dot _)
    have h4 := dotNum_digits C T hC dC hTd
    have h5 := dotNum_none T hT
    simp only [extractRevision, h2, h3, h4, h5]

theorem numNoLead_natStr (k : Nat) (r : List Char) (hr : HeadNotDigit r) :
    numNoLead (natStr k ++ r) = some (k, r) := by
  have hc := natStr_canon k
  have hv := natVal_natStr k
  unfold numNoLead
  rw [span_digits _ _ (natStr_digits k) hr]
  cases hn : natStr k with
  | nil => exact absurd hn (natStr_ne_nil k)
  | cons x xs =>
    rw [hn] at hc hv
    simp only [canonNum] at hc
    simp only [hc, if_true, hv]

theorem semverParse_core3 (M m p : Nat) (T : List Char) (hT : HeadNotDigit T)
    (pre build : Option (List Char)) (h : parseTail T = some (pre, build)) :
    semverParse (core3 (natStr M) (natStr m) (natStr p) T) =
      some ⟨M, m, p, pre, build, 0⟩ := by
  have h1 := numNoLead_natStr M ('.' :: (natStr m ++ '.' :: (natStr p ++ T))) (headNotDigit_dot _)
  have h2 := numNoLead_natStr m ('.' :: (natStr p ++ T)) (headNotDigit_dot _)
  have h3 := numNoLead_natStr p T hT
  simp only [semverParse, core3, h1, h2, h3, h, Option.bind_eq_bind, Option.bind_some,
    Option.pure_def]

/-! #### the tail `-pre+build` -/

theorem mem_splitOn (sep : Char) : ∀ (s : List Char) (c : Char), c ∈ s → c ≠ sep →
    ∃ part ∈ splitOn sep s, c ∈ part
  | [], _, h, _ => by simp at h
  | x :: xs, c, h, hc => by
    simp only [splitOn]
    by_cases hx : (x == sep) = true
    · simp only [hx, if_true]
      have hxs : x = sep := by simpa using hx
      rcases List.mem_cons.1 h with e | e
      · exact absurd (e.trans hxs) hc
      · obtain ⟨part, hp, hcp⟩ := mem_splitOn sep xs c e hc
        exact ⟨part, List.mem_cons_of_mem _ hp, hcp⟩
    · simp only [hx]
      cases hs : splitOn sep xs with
      | nil => exact absurd hs (splitOn_ne_nil sep xs)
      | cons q r =>
        simp only [Bool.false_eq_true, if_false]
        rcases List.mem_cons.1 h with e | e
        · exact ⟨x :: q, by simp, by simp [e]⟩
        · obtain ⟨part, hp, hcp⟩ := mem_splitOn sep xs c e hc
          rw [hs] at hp
          rcases List.mem_cons.1 hp with e' | e'
          · exact ⟨x :: q, by simp, by rw [← e']; exact List.mem_cons_of_mem _ hcp⟩
          · exact ⟨part, by simp [e'], hcp⟩

/-- every character of a dotted string of valid labels is a dot or a label character -/
theorem chars_of_parts (s : List Char) (h : ∀ part ∈ splitOn '.' s, part.all isIdChar = true) :
    ∀ c ∈ s, c = '.' ∨ isIdChar c = true := by
  intro c hc
  by_cases hd : c = '.'
  · exact .inl hd
  · obtain ⟨part, hp, hcp⟩ := mem_splitOn '.' s c hc hd
    exact .inr (List.all_eq_true.1 (h part hp) c hcp)

/-- what `construct` establishes, beyond `WFV`: valid labels in prerelease and build, lower-case
prerelease -/
def WF2 (v : Ver) : Bool :=
  (match v.pre with
    | none => true
    | some p => (splitOn '.' p).all validPreId && lower p == p) &&
  (match v.build with
    | none => true
    | some b => (splitOn '.' b).all validBuildId)

def preS : Option (List Char) → List Char
  | some p => '-' :: p
  | none => []

def buildS : Option (List Char) → List Char
  | some b => '+' :: b
  | none => []

theorem plus_not_mem_pre (p : List Char) (h : (splitOn '.' p).all validPreId = true) : '+' ∉ p := by
  intro hm
  have := chars_of_parts p (fun part hp => by
    have := List.all_eq_true.1 h part hp
    simp only [validPreId, Bool.and_eq_true] at this
    exact this.1.2) '+' hm
  rcases this with e | e
  · exact absurd e (by decide)
  · exact absurd e (by decide)

theorem parseBuild_buildS (build : Option (List Char))
    (hb : (match build with | none => true | some b => (splitOn '.' b).all validBuildId) = true) :
    parseBuild (buildS build) = some build := by
  cases build with
  | none => rfl
  | some b => simp only [buildS, parseBuild, hb, if_true]

theorem takeWhile_ne_plus (p : List Char) (r' : Option (List Char)) (h : '+' ∉ p) :
    (p ++ buildS r').takeWhile (· != '+') = p ∧ (p ++ buildS r').dropWhile (· != '+') = buildS r' := by
  have hp : ∀ a ∈ p, (a != '+') = true := by
    intro a ha
    simp only [bne_iff_ne, ne_eq]
    intro e; subst e; exact h ha
  rw [List.takeWhile_append_of_pos hp, List.dropWhile_append_of_pos hp]
  cases r' with
  | none => simp [buildS]
  | some b => simp [buildS]

theorem parseTail_tail (pre build : Option (List Char))
    (hp : (match pre with | none => true | some p => (splitOn '.' p).all validPreId) = true)
    (hb : (match build with | none => true | some b => (splitOn '.' b).all validBuildId) = true) :
    parseTail (preS pre ++ buildS build) = some (pre, build) := by
  cases pre with
  | none =>
    simp only [preS, List.nil_append]
    cases build with
    | none => rfl
    | some b =>
      have := parseBuild_buildS (some b) hb
      simp only [buildS] at this ⊢
      simp [parseTail, this]
  | some p =>
    have hplus := plus_not_mem_pre p hp
    have ⟨ht, hd⟩ := takeWhile_ne_plus p build hplus
    simp only [preS, List.cons_append, parseTail, ht, hd, hp, if_true,
      parseBuild_buildS build hb, Option.map_some]

/-! #### `construct` establishes `WF2` -/

theorem isIdChar_lowerChar (c : Char) : isIdChar (lowerChar c) = isIdChar c := by
  by_cases h : 'A' ≤ c ∧ c ≤ 'Z'
  · exact upperRange (fun c => isIdChar (lowerChar c) = isIdChar c) (by decide) c h.1 h.2
  · rw [lowerChar_of_not_upper c h]

theorem all_isIdChar_lower (s : List Char) : (lower s).all isIdChar = s.all isIdChar := by
  induction s with
  | nil => rfl
  | cons c cs ih =>
    simp only [lower, List.map_cons, List.all_cons] at ih ⊢
    rw [isIdChar_lowerChar, ih]

theorem validPreId_lower (x : List Char) (h : validPreId x = true) : validPreId (lower x) = true := by
  by_cases hd : x.all isDigit = true
  · rw [lower_of_digits x hd]; exact h
  · simp only [validPreId, Bool.and_eq_true] at h ⊢
    refine ⟨⟨?_, ?_⟩, ?_⟩
    · cases x with
      | nil => simp at h
      | cons c cs => rfl
    · rw [all_isIdChar_lower]; exact h.1.2
    · rw [all_isDigit_lower]; simp [hd]

def validBuild : Option (List Char) → Bool
  | none => true
  | some b => (splitOn '.' b).all validBuildId

theorem parseBuild_valid (s : List Char) (b : Option (List Char)) (h : parseBuild s = some b) :
    validBuild b = true := by
  unfold parseBuild at h
  split at h
  · cases h; rfl
  · split at h
    · cases h; assumption
    · cases h
  · cases h

theorem parseTail_validBuild (s : List Char) (pre build : Option (List Char))
    (h : parseTail s = some (pre, build)) : validBuild build = true := by
  unfold parseTail at h
  split at h
  · split at h
    · simp only [Option.map_eq_some_iff, Prod.mk.injEq] at h
      obtain ⟨b, hb, _, h2⟩ := h
      subst h2
      exact parseBuild_valid _ _ hb
    · simp at h
  · simp only [Option.map_eq_some_iff, Prod.mk.injEq] at h
    obtain ⟨b, hb, _, h2⟩ := h
    subst h2
    exact parseBuild_valid _ _ hb

theorem semverParse_validBuild (s : List Char) (v : Ver) (h : semverParse s = some v) :
    validBuild v.build = true := by
  unfold semverParse at h
  simp only [Option.bind_eq_bind, Option.bind_eq_some_iff] at h
  obtain ⟨⟨ma, r1⟩, _, h⟩ := h
  split at h
  · simp only [Option.bind_eq_some_iff] at h
    obtain ⟨⟨mi, r2⟩, _, h⟩ := h
    split at h
    · simp only [Option.bind_eq_some_iff] at h
      obtain ⟨⟨pa, r3⟩, _, ⟨pre, build⟩, ht, h⟩ := h
      simp only [Option.pure_def, Option.some.injEq] at h
      subst h
      exact parseTail_validBuild _ _ _ ht
    · simp at h
  · simp at h

theorem fromCoerced_wf2 (s : List Char) (v : Ver) (h : fromCoerced s = some v) : WF2 v = true := by
  unfold fromCoerced at h
  simp only [] at h
  split at h
  · simp at h
  · rename_i v0 hv0
    have hvp := semverParse_validPre _ _ hv0
    have hvb := semverParse_validBuild _ _ hv0
    simp only [Option.some.injEq] at h
    subst h
    simp only [WF2, Bool.and_eq_true]
    constructor
    · cases hp : v0.pre with
      | none => simp [falsy]
      | some p =>
        rw [hp] at hvp
        simp only [validPre] at hvp
        have hne : p.isEmpty = false := by
          cases p with
          | nil => simp [splitOn, validPreId] at hvp
          | cons c cs => rfl
        simp only [falsy, hne, Bool.false_eq_true, if_false, Option.map_some, lower_idem,
          beq_self_eq_true, Bool.and_true, splitOn_lower, List.all_map]
        apply List.all_eq_true.2
        intro x hx
        exact validPreId_lower x (List.all_eq_true.1 hvp x hx)
    · cases hb : v0.build with
      | none => rfl
      | some b => rw [hb] at hvb; exact hvb

theorem construct_wf2 (s : List Char) (v : Ver) (h : construct s = .ok (some v)) : WF2 v = true := by
  unfold construct at h
  simp only [] at h
  split at h
  · cases h
  · split at h
    · cases h
    · split at h
      · cases h
      · rename_i v' hv
        cases h
        exact fromCoerced_wf2 _ _ hv

/-! #### assembling -/

def revS (n : Nat) : List Char := if n != 0 then '.' :: natStr n else []

theorem pre_nonempty (p : List Char) (h : (splitOn '.' p).all validPreId = true) : p.isEmpty = false := by
  cases p with
  | nil => simp [splitOn, validPreId] at h
  | cons c cs => rfl

theorem build_nonempty (b : List Char) (h : (splitOn '.' b).all validBuildId = true) : b.isEmpty = false := by
  cases b with
  | nil => simp [splitOn, validBuildId] at h
  | cons c cs => rfl

theorem strV_eq (v : Ver) (h : WF2 v = true) :
    strV v = core3 (natStr v.major) (natStr v.minor) (natStr v.patch)
      (revS v.revision ++ (preS v.pre ++ buildS v.build)) := by
  obtain ⟨M, m, p, pre, build, rev⟩ := v
  simp only [WF2, Bool.and_eq_true] at h
  cases pre with
  | none =>
    cases build with
    | none => simp [strV, preS, buildS, core3, revS]
    | some b =>
      have hb := build_nonempty b h.2
      simp [strV, preS, buildS, core3, revS, hb]
  | some q =>
    have hq := pre_nonempty q (by have := h.1; simp only [Bool.and_eq_true] at this; exact this.1)
    cases build with
    | none => simp [strV, preS, buildS, core3, revS, hq]
    | some b =>
      have hb := build_nonempty b h.2
      simp [strV, preS, buildS, core3, revS, hq, hb]

theorem tail_head (pre build : Option (List Char)) :
    HeadNotDigit (preS pre ++ buildS build) ∧
    ∀ c, (preS pre ++ buildS build).head? = some c → c ≠ '.' := by
  cases pre <;> cases build <;> simp [preS, buildS, HeadNotDigit] <;> decide

theorem fromCoerced_strV (v : Ver) (h : WF2 v = true) : fromCoerced (strV v) = some v := by
  have hM := natStr_ne_nil v.major
  have hm := natStr_ne_nil v.minor
  have hp := natStr_ne_nil v.patch
  have dM := natStr_digits v.major
  have dm := natStr_digits v.minor
  have dp := natStr_digits v.patch
  have ⟨hT1, hT2⟩ := tail_head v.pre v.build
  have hw := h
  simp only [WF2, Bool.and_eq_true] at hw
  have hpre : (match v.pre with | none => true | some p => (splitOn '.' p).all validPreId) = true := by
    cases hv : v.pre with
    | none => rfl
    | some p => rw [hv] at hw; simp only [Bool.and_eq_true] at hw; exact hw.1.1
  have hlow : (if falsy v.pre then v.pre else v.pre.map lower) = v.pre := by
    cases hv : v.pre with
    | none => rfl
    | some p =>
      rw [hv] at hw
      simp only [Bool.and_eq_true, beq_iff_eq] at hw
      simp [falsy, pre_nonempty p hw.1.1, hw.1.2]
  have htail := parseTail_tail v.pre v.build hpre hw.2
  have hsp := semverParse_core3 v.major v.minor v.patch _ hT1 v.pre v.build htail
  have hco : ∀ rest, HeadNotDigit rest →
      coerce (core3 (natStr v.major) (natStr v.minor) (natStr v.patch) rest) =
        core3 (natStr v.major) (natStr v.minor) (natStr v.patch) rest := by
    intro rest hr
    rw [coerce_core3 _ _ _ _ hM hm hp dM dm dp hr, natVal_natStr, natVal_natStr, natVal_natStr]
  rw [strV_eq v h]
  simp only [fromCoerced]
  by_cases hr : v.revision = 0
  · have hrev : revS v.revision = [] := by simp [revS, hr]
    rw [hrev, List.nil_append, hco _ hT1,
      extractRevision_norev _ _ _ _ hM hm hp dM dm dp hT2 hT1]
    simp only [hco _ hT1, hsp, hlow]
    cases v; simp_all
  · have hrev : revS v.revision = '.' :: natStr v.revision := by simp [revS, hr]
    have hT' : HeadNotDigit ('.' :: natStr v.revision ++ (preS v.pre ++ buildS v.build)) :=
      headNotDigit_dot _
    rw [hrev, hco _ hT', List.cons_append,
      extractRevision_rev _ _ _ _ _ hM hm hp (natStr_ne_nil _) dM dm dp (natStr_digits _) hT1]
    simp only [hco _ hT1, hsp, hlow, natVal_natStr]

theorem notSpace_of_ge (c : Char) (h : 43 ≤ c.toNat) : isPySpace c = false := by
  have hsp : c ≠ ' ' := by intro e; subst e; exact absurd h (by decide)
  simp only [isPySpace, Bool.or_eq_false_iff, Bool.and_eq_false_iff, beq_eq_false_iff_ne, ne_eq,
    decide_eq_false_iff_not]
  exact ⟨⟨hsp, by omega⟩, by omega⟩

theorem isIdChar_ge (c : Char) (h : isIdChar c = true) : 45 ≤ c.toNat := by
  simp only [isIdChar, isDigit, isAlpha, Bool.or_eq_true, Bool.and_eq_true, decide_eq_true_eq,
    Char.le_def, UInt32.le_iff_toNat_le, beq_iff_eq] at h
  rcases h with (h | h | h) | h
  · exact Nat.le_trans (by decide) h.1
  · exact Nat.le_trans (by decide) h.1
  · exact Nat.le_trans (by decide) h.1
  · subst h; decide

theorem notSpace_digit (c : Char) (h : isDigit c = true) : isPySpace c = false :=
  notSpace_of_ge c (by have := (isDigit_iff c).1 h; omega)

theorem notSpace_parts (s : List Char) (h : ∀ part ∈ splitOn '.' s, part.all isIdChar = true) :
    ∀ c ∈ s, isPySpace c = false := by
  intro c hc
  rcases chars_of_parts s h c hc with e | e
  · subst e; decide
  · exact notSpace_of_ge c (by have := isIdChar_ge c e; omega)

theorem notSpace_strV (v : Ver) (h : WF2 v = true) : ∀ c ∈ strV v, isPySpace c = false := by
  rw [strV_eq v h]
  simp only [WF2, Bool.and_eq_true] at h
  intro c hc
  simp only [core3, List.mem_append, List.mem_cons] at hc
  have hdig : ∀ k, c ∈ natStr k → isPySpace c = false :=
    fun k hk => notSpace_digit c (natStr_digits k c hk)
  rcases hc with hc | hc | hc | hc | hc | hc | hc | hc
  · exact hdig _ hc
  · subst hc; decide
  · exact hdig _ hc
  · subst hc; decide
  · exact hdig _ hc
  · simp only [revS] at hc
    split at hc
    · rcases List.mem_cons.1 hc with e | e
      · subst e; decide
      · exact hdig _ e
    · simp at hc
  · cases hp : v.pre with
    | none => simp [hp, preS] at hc
    | some p =>
      rw [hp] at h hc
      simp only [Bool.and_eq_true] at h
      rcases List.mem_cons.1 hc with e | e
      · subst e; decide
      · refine notSpace_parts p (fun part hpart => ?_) c e
        have := List.all_eq_true.1 h.1.1 part hpart
        simp only [validPreId, Bool.and_eq_true] at this
        exact this.1.2
  · cases hb : v.build with
    | none => simp [hb, buildS] at hc
    | some b =>
      rw [hb] at h hc
      rcases List.mem_cons.1 hc with e | e
      · subst e; decide
      · refine notSpace_parts b (fun part hpart => ?_) c e
        have := List.all_eq_true.1 h.2 part hpart
        simp only [validBuildId, Bool.and_eq_true] at this
        exact this.2

theorem strV_head (v : Ver) (h : WF2 v = true) : ∃ d rest, strV v = d :: rest ∧ isDigit d = true := by
  rw [strV_eq v h]
  cases hn : natStr v.major with
  | nil => exact absurd hn (natStr_ne_nil _)
  | cons x xs =>
    refine ⟨x, _, by simp only [core3, List.cons_append]; rfl, ?_⟩
    exact natStr_digits v.major x (by rw [hn]; simp)

theorem normalize_strV (v : Ver) (h : WF2 v = true) : normalize (strV v) = strV v := by
  unfold normalize
  rw [List.filter_eq_self.2 (fun c hc => by simp [notSpace_strV v h c hc])]
  obtain ⟨d, rest, hs, hd⟩ := strV_head v h
  rw [hs]
  have : ¬ ((d == 'v' || d == 'V') = true) := by
    intro hv
    simp only [Bool.or_eq_true, beq_iff_eq] at hv
    rcases hv with e | e <;> (subst e; exact absurd hd (by decide))
  exact List.dropWhile_cons_of_neg this

/-- C11: a constructed version is rebuilt from its `str` -/
theorem str_roundtrip (s : List Char) (r : Raw) (h : construct s = .ok r) :
    construct (str r) = .ok r := by
  cases r with
  | none => exact absurd (construct_isSome s none h) (by simp)
  | some v =>
    have hw := construct_wf2 s v h
    obtain ⟨d, rest, hs, hd⟩ := strV_head v hw
    have hf := fromCoerced_strV v hw
    simp only [str, construct, normalize_strV v hw]
    rw [hs] at hf ⊢
    simp [hd, hf]

end Univers.Nuget
